"""C01 / stale handles, whole-library 2.x part (composite-v2): a write through the handle of a REMOVED track is rejected
with an exception (never silently dropped), along every later interleaved history; ids are never re-issued."""
import random
from common import *
import runner
from props.parts import _lib2 as L

NS = "EngineModel.Properties.C01Lib2."
LEAN_MODULES = ["Properties.C01Lib2"]
THEOREMS = [NS + t for t in ["C01Lib2_stale_track_handle", "C01Lib2_removed_id_not_reissued"]]
ASSUMPTIONS = [
    "2.x composite (C01, stale handles): as C11_lib2 (SqliteSemantics of the Track table incl. AUTOINCREMENT: ids above "
    "sqlite_sequence.seq, which a DELETE does not lower)",
]
MANIFEST_TEXT = ("Schema 2.x, whole library, stale handles: once remove_track(t) went through, after ANY later interleaving of "
                 "track / crate / membership calls (creations included: Track ids are AUTOINCREMENT and never re-issued, "
                 "C01Lib2_removed_id_not_reissued) update and every setter through the stale handle throw and write nothing, "
                 "remove_track and crate::add_track of it throw, snapshot() throws track_deleted, every getter throws, "
                 "is_valid() is false, track_by_id finds nothing and no crate lists the track (C01Lib2_stale_track_handle) — "
                 "the model after fix 8862536 (before it, update returned normally and silently dropped the snapshot).")
TRUSTED_EXTRA = []
replay = L.replay
WANT = ("stale", "failed")


def tie(ctx):
    rng = random.Random(ctx.seed * 49979687 + 1)
    schemas = L.schemas_for(ctx)
    n = 4 if ctx.tier == "quick" else 40
    scripts = []
    hid = 1700
    for s in schemas:
        for _ in range(n):
            hid += 1
            g = L.Gen(rng, ctx.tier, hid, max_crates=4, max_tracks=6)
            for _ in range(3):
                g.mktrack(fresh_only=True)
            v = g.newc()
            g.ops.append("mkroot %s %s" % (v, L.hx("n%d" % g.nc)))
            # remove early, then keep using every handle
            g.ops.append("rmtrack t%d" % rng.choice([1, 2, 3]))
            while len(g.ops) < 45:
                k = rng.random()
                if k < 0.6:
                    # uniformly over ALL handles (removed ones included)
                    t = rng.choice(g.tracks)
                    g.uniq += 1
                    kk = rng.random()
                    if kk < 0.35:
                        g.ops.append("update %s %s" % (t, L.small_snapshot(rng, ctx.tier, g.uniq, g.path(0.1))))
                    elif kk < 0.6:
                        g.ops.append("set %s title %s" % (t, L.TG.ostr(b"s%d" % g.uniq)))
                    elif kk < 0.75:
                        g.ops.append("addtrack %s %s" % (rng.choice(g.crates), t))
                    elif kk < 0.9:
                        g.ops.append("rmtrack %s" % t)
                    else:
                        g.ops += ["snap %s" % t, "get %s valid" % t, "get %s title" % t]
                elif k < 0.85:
                    g.track_op()
                else:
                    g.member_op()
            scripts.append(L.wrap(s, g.ops, "mem", rows_every=1000))
    results = L.run_all(scripts)
    return L.finish(ctx, "C01_lib2", results,
                    "2.x whole library, stale track handles on %s: a track is removed early and every handle, removed ones "
                    "included, stays in use (update, setters, add_track, remove_track, snapshot, getters) while tracks and crates "
                    "keep being created; direct oracle on the library's own answers: a write through the handle of a removed "
                    "track must throw (C01: never silently dropped) and a call that threw changed nothing; all answers and the "
                    "dump of all tables vs the composite Model" % ", ".join(schemas),
                    [" ; ".join(l for l in scripts[0][1:60] if not l.startswith(("v2.obs", "lib2.")))[:400]],
                    WANT, extra_hist={"schemas": schemas, "scripts": len(scripts)})
