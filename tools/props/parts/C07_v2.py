"""C07, schema 2.x part — all crate queries describe one well-formed forest."""
import random
from common import *
import runner
from props.parts import cratesv2 as cv

LEAN_MODULES = ["Properties.C07V2", "Properties.C09Schema"]
TRANSLATORS = {"v2ddl": cv.translate_ddl}
THEOREMS = ["EngineModel.Properties.C07V2." + t for t in [
    "C07V2_step_refines",
    "C07V2_refines",
    "C07V2_forest_invariant",
    "C07V2_queries_agree",
    "C07V2_roots_children_agree",
    "C07V2_descendants_transitive_closure",
    "C07V2_rejected_without_effect",
    "C07V2_cycle_rejected",
    "C07V2_dead_parent_rejected",
    "C07V2_invalid_name_rejected",
    "C07V2_removed_subtree_gone",
    "C07V2_ids_never_reused",
]] + ["EngineModel.Properties.C09.C09_crate_ddl_same_in_all_2x_schemas"]
ASSUMPTIONS = [
    "2.x: SqliteSemantics — hand translation of the Playlist statements, triggers (recursive_triggers = OFF) and of the "
    "recursive view PlaylistAllChildren (as reachability along parentListId) into list operations; validated by raw-table "
    "and observation equality after every step of the explored / generated histories",
    "2.x: isPersisted / isExplicitlyExported are constant 1 through the crate API and the isPersist* triggers are not modelled "
    "(the raw dump checks the constants)",
]
MANIFEST_TEXT = ("Schema 2.x: Lean theorems (Properties/C07V2.lean): for every history of the modelled 2.x API the Spec.Forest judge, "
                 "driven by the Model's own answers, never objects and the forest it tracks is exactly the abstraction of the "
                 "Playlist table (per-operation refinement FStep; invariant Forest.Wf: ids a key, parents live, parent relation "
                 "ranked hence acyclic, names valid and unique among siblings); every structural query equals the Spec query; "
                 "whatever the Spec rejects (cycle, dead parent, invalid or taken name) is rejected without effect; a removed "
                 "subtree is never valid again; ids are never reused. Tied to the "
                 "real library by breadth-first exploration of all distinct model states with <= 4 crates (every operation, "
                 "including operations on removed handles and invalid names) plus random deep histories, on the 2.x versions.")
replay = cv.replay


def tie(ctx):
    rng = random.Random(ctx.seed * 6007 + 7)
    schemas = cv.schemas_for(ctx)
    depth = 4 if ctx.tier == "quick" else 5
    edges, nstates = cv.explore(depth, 4)
    scripts = []
    # every edge on one schema (rotating with the seed), a sample of the edges on the others
    full = schemas[ctx.seed % len(schemas)] if ctx.tier == "quick" else None
    for s in schemas:
        if ctx.tier == "thorough" or s == full:
            sel = edges
        else:
            sel = rng.sample(edges, min(len(edges), 400))
        scripts += [cv.wrap(s, e) for e in sel]
    n_rand = 20 if ctx.tier == "quick" else 150
    for s in schemas:
        for _ in range(n_rand):
            scripts.append(cv.wrap(s, cv.gen_forest_history(rng, rng.choice([20, 40]), max_crates=12)))
    results = cv.run_all(scripts)
    return cv.finish(ctx, "C07_v2", "C07", results,
                     "2.x: breadth-first exploration over distinct Model states with <= 4 crates to depth %d (%d states, %d "
                     "(state, operation) edges; alphabet: create root / sub-crate (also after every handle) with names "
                     "{a, b, empty, 'x;y'}, rename, re-parent to every handle or none, remove — each also on removed handles), "
                     "every edge replayed on the real library (%s) as shortest path + operation; seeded random histories "
                     "(<= 12 crates, deep chains, 20-40 operations); full structural observation incl. lookups and raw Playlist "
                     "columns compared with the Model after every step; Spec.Forest oracle on the library's own answers"
                     % (depth, nstates, len(edges), ", ".join(schemas)),
                     [" ; ".join(scripts[-1][1:10])[:300]],
                     extra_hist={"schemas": schemas, "explore_states": nstates, "explore_edges": len(edges), "scripts": len(scripts)},
                     exhaustive=True)
