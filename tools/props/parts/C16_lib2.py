"""C16, whole-library 2.x part (composite-v2) — observing never modifies, on the composite model of all 2.x tables."""
import random
from common import *
import runner
from props.parts import _lib2 as L
from props.parts import _tracksv2_gen as TG

NS = "EngineModel.Properties.C16Lib2."
LEAN_MODULES = ["Properties.C16Lib2"]
THEOREMS = [NS + t for t in [
    "C16Lib2_observers_do_not_modify", "C16Lib2_repeatable", "C16Lib2_frame", "C16Lib2_mutators_modify"]]
ASSUMPTIONS = [
    "2.x composite (C16): the observers of the composite alphabet are the public read-only operations of database / crate / "
    "track (checked: every observer command of the tie maps to a `Call` with isObserver = true); that a SELECT does not "
    "write is SQLite's (sampled: dump of all tables and sqlite3_total_changes around every observer block)",
]
MANIFEST_TEXT = ("Schema 2.x, whole library (composite model Lib/V2.lean, ONE step function for observers and mutators): "
                 "every observer call of database / crate / track leaves every table of the library as it was, on ANY state and "
                 "for any argument (C16Lib2_observers_do_not_modify, by cases over the composite step — the observers run "
                 "the SELECT pieces of the package models), answers the same when repeated (C16Lib2_repeatable) and can be "
                 "inserted into / dropped from any history (C16Lib2_frame); mutators do modify (C16Lib2_mutators_modify).")
TRUSTED_EXTRA = []
GETS = TG.FIELDS + ["file_extension", "filename"] if hasattr(TG, "FIELDS") else []


def observer_block(rng, g):
    """every observer kind, on live and on stale handles"""
    b = ["db.q crates", "db.q root_crates", "db.q tracks", "db.q uuid", "db.q version_name",
         "db.q crate_by_id %d" % rng.choice([0, 1, 2, 3, 9]), "db.q track_by_id %d" % rng.choice([0, 1, 2, 3, -1, 9]),
         "db.q crates_by_name " + L.hx("n1"), "db.q root_by_name " + L.hx("n2"),
         "db.q tracks_by_path " + TG.hx(rng.choice(L.POOL)), "v2.obs " + " ".join(L.PROBES)]
    for c in rng.sample(g.crates, min(3, len(g.crates))):
        b += ["crate.q %s %s" % (c, q) for q in ("valid", "name", "parent", "children", "descendants", "tracks")]
        b.append("crate.q %s sub_by_name %s" % (c, L.hx("n3")))
    for t in rng.sample(g.tracks, min(3, len(g.tracks))):
        b += ["snap %s" % t, "get %s valid" % t]
        fields = [f for f in GETS if f != "file_bytes"]
        b += ["get %s %s" % (t, f) for f in rng.sample(fields, 8)]
        b += ["get %s hot_cue_at %d" % (t, rng.choice([0, 3, 7, 8, -1])), "get %s loop_at %d" % (t, rng.choice([0, 7, 9]))]
    return b


def build(rng, tier, schema, hid, nops):
    g = L.Gen(rng, tier, hid, max_crates=6, max_tracks=6)
    for _ in range(2):
        g.mktrack(fresh_only=True)
    for _ in range(2):
        v = g.newc()
        g.ops.append("mkroot %s %s" % (v, L.hx("n%d" % g.nc)))
    lines = [L.MODE, "create %s %s" % (schema, "disk" if rng.random() < 0.3 else "mem")]
    done = 0
    blocks = []
    while done < nops:
        n0 = len(g.ops)
        k = rng.random()
        if k < 0.45:
            g.member_op()
        elif k < 0.8:
            g.track_op()
        else:
            g.forest_op()
        done += 1
        # flush the new ops, then the monitor block
    for op in g.ops:
        lines.append(op)
        if op.startswith(("crate.q", "db.q")):
            continue
        if rng.random() < 0.5:
            blk = observer_block(rng, g)
            start = len(lines)
            lines += ["lib2.raw", "changes"] + blk + blk + ["changes", "lib2.raw"]
            blocks.append((start, len(blk)))
    return lines, blocks


def tie(ctx):
    rng = random.Random(ctx.seed * 15485863 + 16)
    schemas = L.schemas_for(ctx)
    n = 3 if ctx.tier == "quick" else 30
    scripts, allblocks = [], []
    hid = 900
    for s in schemas:
        for _ in range(n):
            hid += 1
            lines, blocks = build(rng, ctx.tier, s, hid, 30)
            scripts.append(lines)
            allblocks.append(blocks)
    hres = runner.run_harness(scripts, watchdog=30, stateless=False)
    mres = runner.run_model(scripts)
    divergences, violations = [], []
    ev, states, obs_calls, kinds = 0, set(), 0, {}
    for lines, blocks, (ho, _), mo in zip(scripts, allblocks, hres, mres):
        for i, (l, h, m) in enumerate(zip(lines, ho, mo)):
            if l.startswith("#") or l == "changes":
                continue
            ev += 1
            if not L.same(h, m):
                divergences.append({"input": " ; ".join(x for x in lines[1:i + 1] if not x.startswith(("v2.obs", "lib2.", "changes", "get ", "snap ", "crate.q", "db.q")))[-1200:] + " ; " + l,
                                    "impl": h[:500], "model": m[:500], "schema": L.schema_of(lines)})
                break
        for (start, nb) in blocks:
            if start + 2 * nb + 4 > len(ho):
                continue
            raw0, ch0 = ho[start], ho[start + 1]
            a1 = ho[start + 2:start + 2 + nb]
            a2 = ho[start + 2 + nb:start + 2 + 2 * nb]
            ch1, raw1 = ho[start + 2 + 2 * nb], ho[start + 3 + 2 * nb]
            if any(x.startswith(("ub ", "skipped")) for x in [raw0, raw1] + a1 + a2):
                continue
            states.add(raw0)
            obs_calls += 2 * nb
            for l in lines[start + 2:start + 2 + nb]:
                k = " ".join(l.split()[:1] + ([l.split()[2]] if l.startswith("crate.q") else [l.split()[1]] if l.startswith("db.q") else []))
                kinds[k] = kinds.get(k, 0) + 2
            what = None
            if raw0 != raw1:
                what = "the dump of all tables differs after a block of observer calls"
            elif ch0 != ch1:
                what = "sqlite3_total_changes grew during a block of observer calls (%s -> %s)" % (ch0, ch1)
            elif a1 != a2:
                j = next(k for k in range(nb) if a1[k] != a2[k])
                what = "observer `%s` answered differently when repeated: %s / %s" % (lines[start + 2 + j][:60], a1[j][:80], a2[j][:80])
            if what:
                violations.append({"tag": "C16_lib2_modified", "signature": None,
                                   "header": {"kind": "script", "what": what, "part": "C16_lib2", "schema": L.schema_of(lines)},
                                   "body": lines[:start + 2 * nb + 4]})
                break
    hist = {"observer_applications": obs_calls, "observer_kinds": kinds, "blocks": sum(len(b) for b in allblocks),
            "schemas": schemas, "scripts": len(scripts)}
    return {"ok": not divergences and not violations, "evaluations": ev, "distinct_nontrivial": len(states),
            "rule": "2.x whole library: histories of interleaved track / crate / membership calls on %s; after about every second "
                    "call a block of ALL observer kinds (database: 10, crate: 7, track: snapshot, is_valid, 8 sampled getters, "
                    "hot_cue_at / loop_at; on live and on stale handles) is applied twice between two dumps of all tables and two "
                    "readings of sqlite3_total_changes: dump and counter must be unchanged and the two applications must answer "
                    "the same (direct oracle); every answer is compared with the composite Model's; non-trivial = distinct "
                    "dumps observed on" % ", ".join(schemas),
            "samples": [" ; ".join(scripts[0][1:12])[:300]], "histograms": hist,
            "divergences": divergences[:10], "violations": violations[:5]}


def replay(ctx, hdr, body):
    if hdr.get("part") != "C16_lib2":
        return None
    lines = [l for l in body if not l.startswith(("impl(", "model(", "# "))]
    ho, _ = runner.run_harness_script(lines, watchdog=30)
    raws = [h for l, h in zip(lines, ho) if l == "lib2.raw"]
    chs = [h for l, h in zip(lines, ho) if l == "changes"]
    ok = len(raws) >= 2 and raws[-1] == raws[-2] and chs[-1] == chs[-2]
    return ok, "\n".join("%s\n   impl: %s" % (l[:200], h[:300]) for l, h in zip(lines, ho)) + "\nrecorded verdict: %s" % hdr.get("what", "")
