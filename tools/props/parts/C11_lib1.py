"""C11, whole-library part for schema 1.x (composite-v1): the executable whole-library invariant on the raw dump of
ALL tables of m.db and p.db, proved of the composite model and evaluated on the real files after every step."""
from props.parts import _lib1

NS = "EngineModel.Properties.C11Lib1."
NSR = "EngineModel.Properties.C11Lib1Refs."
LEAN_MODULES = ["Properties.C11Lib1", "Properties.C11Lib1Refs"]
THEOREMS = [NS + t for t in [
    "C11_lib1_invariant_after_every_history",
    "C11_lib1_step_preserves_invariant",
    "C11_lib1_raw_check_after_every_history",
    "C11_lib1_no_failing_conjunct",
    "C11_lib1_foreign_key_check_clean",
    "C11_lib1_foreign_key_check_clean_reachable",
    "C11_lib1_dependent_rows_of_live_tracks",
    "C11_lib1_failed_call_changes_nothing",
    "C11_lib1_raw_check_rejects_known_damage",
    "C11_lib1_clean_after_every_history_partial",
    "C11_lib1_stored_blobs_decode",
    "C11_lib1_stored_blobs_decode_reachable",
]] + [NSR + t for t in [
    # work-package lib1plant: the library + the rows Engine DJ writes in PlaylistTrackList / HistorylistTrackList /
    # PreparelistTrackList / CopiedTrack (Lib/V1Refs.lean), which remove_track deletes explicitly
    "C11_lib1_refs_invariant_after_every_history",
    "C11_lib1_refs_step_preserves_invariant",
    "C11_lib1_refs_foreign_key_check_clean",
    "C11_lib1_refs_foreign_key_check_clean_reachable",
    "C11_lib1_refs_raw_check_after_every_history",
    "C11_lib1_refs_rows_of_live_tracks",
    "C11_lib1_refs_remove_track_deletes_rows",
    "C11_lib1_refs_library_projection",
    "C11_lib1_refs_every_delete_is_needed",
    "C11_lib1_refs_counterexample",
]]
ASSUMPTIONS = [
    "1.x composite: Lib1 holds the tracks package's per-track rows (TracksV1.Db) and the crates package's tables "
    "(CratesV1.Db) side by side; the flat tables of the two files are the projection `raw`, compared with the real dump "
    "(all tables that carry a key, full rows of every track) after every step on the sampled histories; the tables no public "
    "call INSERTS into but remove_track deletes from (PlaylistTrackList / HistorylistTrackList / PreparelistTrackList / "
    "CopiedTrack; from 1.9.1 the ListTrackList rows of type 1-3 behind the views) are state of the extended model "
    "Lib/V1Refs.lean (one (table, trackId) per row; other columns are not modelled), written by the environment step "
    "plantRefs = harness lib1.plantrefs (raw connection: parent rows Playlist / Historylist / Preparelist id 1 and one row per "
    "table with non-NULL trackIdInOriginDatabase / databaseUuid / trackNumber, as Engine writes them — the INSTEAD OF DELETE "
    "triggers of the 1.9.1+ views compare those columns with `=`, a row with a NULL there would not be matched and is "
    "outside the sampled inputs); the parent rows (Playlist / Historylist / Preparelist, List of type 1-3) are not modelled; ChangeLog / Pack / sqlite_sequence of other "
    "tables are bookkeeping outside the model (compared around observers only)",
    "1.x composite: a track handle is an id; after fix a5d64c8 no public call returns a handle of the NULL-path "
    "placeholder row, and the model answers `track_deleted` for such an id like for any id without rows",
    "TIE-ONLY for this part: PRAGMA integrity_check (b-tree consistency is not modelled) and verify() (C17); "
    "foreign_key_check over all declared keys is PROVED from the invariant (C11_lib1_foreign_key_check_clean) and "
    "additionally run on the real files",
]
TRUSTED_EXTRA = ["harness/djv_lib1.cpp (raw dump of all tables through the C API, qualified PRAGMAs), "
                 "lean/EngineModel/Driver/Cmds/Lib1.lean (mode lib1 = the composite step; mode lib1oracle = libInvRaw on the real dump)"]
MANIFEST_TEXT = ("Schema 1.x, whole library as ONE transition system (EngineModel/Lib/V1.lean: every public call of "
                 "database / crate / track over the Track, MetaData, MetaDataInteger, PerformanceData, crate, AlbumArt and "
                 "Information tables of both files, delegating to the crate and track models): the invariant LibInv = the "
                 "two packages' invariants + referential integrity across the table families holds after every history of "
                 "calls incl. failed ones (C11_lib1_invariant_after_every_history), implies the executable raw check "
                 "libInvRaw and foreign_key_check cleanliness over ALL declared foreign keys of the eleven 1.x creators "
                 "(C11_lib1_foreign_key_check_clean), no dependent row of a missing track, every Track row references the "
                 "default AlbumArt row, and every stored performance blob is the decoder's reading of the encoder's bytes "
                 "(C11_lib1_stored_blobs_decode, composing with the codec bridge); libInvRaw is evaluated by the Lean driver "
                 "on the raw dump of the real m.db / p.db after every step of interleaved crate / membership / track "
                 "histories.  With the rows Engine DJ writes in PlaylistTrackList / HistorylistTrackList / PreparelistTrackList / "
                 "CopiedTrack as state (Lib/V1Refs.lean, environment step plantRefs interleaved with the public calls in any "
                 "order): no row of the four tables names a missing track and foreign_key_check incl. those keys is clean after "
                 "every history (C11_lib1_refs_invariant_after_every_history, C11_lib1_refs_foreign_key_check_clean), "
                 "remove_track deletes exactly the rows of its track, and each of the four DELETEs is necessary "
                 "(C11_lib1_refs_every_delete_is_needed, C11_lib1_refs_counterexample); the tie plants those rows through "
                 "the raw connection on tracks removed later and on tracks that stay, on all eleven versions.")

PLAN_QUICK = [("mixed", 16, 8), ("members", 16, 5), ("forest", 10, 1)]
PLAN_THOROUGH = [("mixed", 30, 24), ("members", 30, 16), ("forest", 20, 6)]


def tie(ctx):
    r = _lib1.run_part(ctx, "C11", PLAN_QUICK if ctx.tier == "quick" else PLAN_THOROUGH, ("inv",), disk_share=0.25,
                       track_ops=0.5)
    r["rule"] = ("interleaved crate / membership / track histories (create_track with real snapshots, update, the 26 "
                 "setters, remove_track, every crate call; live and removed handles; lib1.plantrefs = Engine's rows in "
                 "PlaylistTrackList / HistorylistTrackList / PreparelistTrackList / CopiedTrack written through the raw "
                 "connection before removals and on tracks that stay) on %s; after EVERY call: PRAGMA "
                 "music.foreign_key_check clean and no row of those tables naming an id without Track row (direct),  crate "
                 "observation, per-track observation and a raw dump of ALL tables of m.db and p.db compared harness <-> "
                 "composite Lean model, and the executable LibInv (libInvRaw) evaluated by the Lean driver on the REAL dump "
                 "(direct oracle); qualified PRAGMA music./perfdata. foreign_key_check / integrity_check at the end of every "
                 "history; evaluations = dumps judged, non-trivial = distinct dumps" % ", ".join(sorted(r["histograms"]["schemas"])))
    return r


def replay(ctx, hdr, body):
    if hdr.get("oracle", "").startswith(("lib1.inv", "lib1.pragmas", "lib1.ub", "lib1.fk", "lib1.refs")) or not hdr.get("oracle"):
        return _lib1.replay(ctx, hdr, body)
    return None
