"""C01, schema 1.x part: a snapshot written by create_track / update reads back as `normalize` says,
the read-back is a fixed point, nothing is silently corrupted."""
import random
from common import *
import runner
from props.parts import _tracksv1_gen as G

NS = "EngineModel.Properties.C01V1."
LEAN_MODULES = ["Properties.C01V1"]
THEOREMS = [NS + t for t in [
    "v1_C01_roundtrip", "v1_C01_reject", "v1_C01_never_ub", "v1_C01_accepts", "v1_C01_fixed_point",
    "v1_C01_fixed_point_rows", "v1_C01_representable", "v1_C01_prior_irrelevant", "v1_C01_db_roundtrip"]]
ASSUMPTIONS = [
    "1.x: a PerformanceData blob column is modelled by the codec's value-level effect decode(encode v) (normTrack/"
    "normBeat/normCues/normLoops/normHires/normOvw); the driver re-checks it on every stored row against the byte-level "
    "codec model Impl/V1.lean, whose agreement with the C++ bytes is C02-C05's tie",
    "1.x: SQLite keeps INTEGER / TEXT / BLOB cells as bound; a double bound to the REAL column bpmAnalyzed reads back "
    "bit-identical except -0.0 -> +0.0 and NaN -> NULL (Fl.realCell); UNIQUE(path) from 1.11.1 on; validated by the raw "
    "row comparison on every case",
    "1.x: NaN is outside the quantifier (hypothesis NoNaN of the round-trip theorems); infinities are inside",
    "1.x: double arithmetic whose result only reaches raw columns (samples-per-entry, beat data's double sample count, "
    "ceil in set_bpm) is an opaque parameter of the Model (hardware doubles in the driver); no theorem depends on it",
]
MANIFEST_TEXT = (
    "1.x: theorems v1_C01_roundtrip / v1_C01_reject / v1_C01_never_ub / v1_C01_fixed_point / v1_C01_representable for all "
    "eleven legacy versions, all snapshots without NaN and all prior rows, about a statement-level Lean model of "
    "create_track / update / snapshot() over the four legacy tables; tied on every run by differential replay of "
    "generated snapshots (create and update-over-prior) with snapshot(), raw rows with decoded blobs and a second "
    "write of the read-back, plus the Spec `normalize` evaluated on the real library's own answers.")
TRUSTED_EXTRA = ["tools/props/parts/_tracksv1_gen.py (generators), harness/djv_tracksv1.cpp (raw row dump with the "
                 "library's own blob decoders)"]


def build_cases(rng, tier, schemas):
    """-> list of scripts; each script = (schema, lines, meta) where meta[i] describes line i."""
    per_schema = 300 if tier == "quick" else 1500
    shard_sz = 20 if tier == "quick" else 40
    scripts = []
    for si, sch in enumerate(schemas):
        cases = []
        for k in range(per_schema):
            c = rng.random()
            if c < 0.15:
                x = G.light_snapshot(rng, k)
            elif c < 0.55:
                x = G.g_snapshot(rng, k, tier, nan_ok=(rng.random() < 0.05), valid=True)
            else:
                x = G.g_snapshot(rng, k, tier, nan_ok=(rng.random() < 0.05), valid=False)
            mode = "create" if rng.random() < 0.5 else "update"
            prior = G.g_snapshot(rng, 100000 + k, "quick", valid=True) if mode == "update" else None
            dup = rng.random() < 0.04 and k > 0
            if dup:
                x["relative_path"] = b"dup/same.mp3"
            cases.append((mode, prior, x))
        for i in range(0, len(cases), shard_sz):
            lines, meta = ["#mode tracksv1", "create %s %s" % (sch, "disk" if rng.random() < 0.15 else "mem")], [None, None]
            for j, (mode, prior, x) in enumerate(cases[i:i + shard_sz]):
                v = "t%d" % j
                if mode == "create":
                    lines.append("mktrack %s %s" % (v, G.snap_txt(x))); meta.append(("write", sch, x, "create"))
                else:
                    lines.append("mktrack %s %s" % (v, G.snap_txt(prior))); meta.append(("prior", sch, prior, "create"))
                    lines.append("snap %s" % v); meta.append(("snap0",))
                    lines.append("update %s %s" % (v, G.snap_txt(x))); meta.append(("write", sch, x, "update"))
                lines.append("snap %s" % v); meta.append(("snap",))
                lines.append("v1.rows %s" % v); meta.append(("rows",))
                lines.append("v1.reupdate %s" % v); meta.append(("again",))
                lines.append("v1.rows %s" % v); meta.append(("rows",))
            scripts.append((sch, lines, meta))
    return scripts


def canon(l):
    if l.startswith("bad-op"):
        return "bad-op"
    return G.canon_ub(l)


def tie(ctx):
    rng = random.Random(ctx.seed * 7919 + 101)
    schemas = G.QUICK_SCHEMAS if ctx.tier == "quick" else G.SCHEMAS
    scripts = build_cases(rng, ctx.tier, schemas)
    hres, retried = G.run_harness_robust(runner, [s[1] for s in scripts], watchdog=30)
    mres = runner.run_model([s[1] for s in scripts])
    # Spec on every written snapshot (stateless driver commands)
    spec_lines = []
    for (sch, lines, meta) in scripts:
        for l, m in zip(lines, meta):
            if m and m[0] in ("write", "prior"):
                st = l.split(" ", 2)[2]
                spec_lines.append("v1spec.normalize %s %s" % (sch, st))
                spec_lines.append("v1spec.nonan %s" % st)
    sout = [o for outs in runner.run_model(runner.shard(spec_lines, NCPU)) for o in outs]
    sp = iter(sout)

    divergences, violations = [], []
    hist = {"writes": 0, "create": 0, "update": 0, "accepted": 0, "rejected_by_spec": 0, "threw": {}, "ub": 0,
            "nan_inputs": 0, "dup_path_conflicts": 0, "schemas": {}, "fixed_point_checked": 0, "rows_compared": 0,
            "watchdog_retries": retried}
    distinct = set()
    evals = 0
    for (sch, lines, meta), (hout, hrep), mout in zip(scripts, hres, mres):
        hist["schemas"][sch] = hist["schemas"].get(sch, 0) + 1
        for i, l in enumerate(lines):
            evals += 1
            if canon(hout[i]) != canon(mout[i]) and not hout[i].startswith("skipped-after-crash"):
                divergences.append({"input": "%s | %s" % (sch, l[:400]), "impl": hout[i][:400], "model": mout[i][:400]})
            if meta[i] and meta[i][0] == "rows":
                hist["rows_compared"] += 1
        # direct oracle on the implementation's own answers
        for i, m in enumerate(meta):
            if not m or m[0] not in ("write", "prior"):
                continue
            spec, nonan = next(sp), next(sp)
            x, kind = m[2], m[3]
            res = hout[i]
            if m[0] == "prior":
                # the snapshot an update case starts from is one every version must accept: judge it too
                # (accepted, read back as normalised), so that a failure is reported where it happens
                hist["priors"] = hist.get("priors", 0) + 1
                if res.startswith("ok") and spec.startswith("ok ") and spec != "ok reject":
                    if hout[i + 1] != spec:
                        violations.append({"tag": "oracle", "signature": None,
                                           "header": {"kind": "input", "what": "read-back differs from the normalised "
                                                      "snapshot after create on %s" % sch},
                                           "body": ["#mode tracksv1", lines[1], lines[i], lines[i + 1],
                                                    "want: " + spec[:600], "got:  " + hout[i + 1][:600]]})
                elif res.startswith("throw") or res.startswith("ub"):
                    violations.append({"tag": "oracle", "signature": None,
                                       "header": {"kind": "input", "what": "a snapshot the library must accept was "
                                                  "rejected (%s) by create on %s" % (res, sch)},
                                       "body": ["#mode tracksv1", lines[1], lines[i], "impl: " + res[:300]]})
                continue
            hist["writes"] += 1
            hist[kind] += 1
            if res.startswith("skipped") or res.startswith("missing") or res.startswith("bad-op"):
                continue
            def viol(what, extra=()):
                body = ["#mode tracksv1", lines[1]]
                if kind == "update":
                    body.append(lines[i - 2])
                body += [lines[i], "snap " + lines[i].split()[1], "v1.reupdate " + lines[i].split()[1]]
                violations.append({"tag": "oracle", "signature": None,
                                   "header": {"kind": "input", "what": what},
                                   "body": body + ["impl: " + res[:300]] + list(extra)})
            if res.startswith("ub"):
                hist["ub"] += 1
                viol("%s of a snapshot is undefined behaviour (%s) on %s" % (kind, res, sch))
                continue
            if nonan.strip() != "ok 1":
                hist["nan_inputs"] += 1
                continue
            if spec == "ok reject":
                hist["rejected_by_spec"] += 1
                if not res.startswith("throw"):
                    viol("a snapshot the library must reject was accepted by %s on %s" % (kind, sch))
                else:
                    c = res.split()[1]
                    hist["threw"][c] = hist["threw"].get(c, 0) + 1
                continue
            if not spec.startswith("ok "):
                viol("spec evaluation failed: " + spec[:80])
                continue
            want = spec[3:]
            if res.startswith("throw"):
                c = res.split()[1]
                if c == "sqlite_error" and x["relative_path"] == b"dup/same.mp3" and G.SCHEMAS.index(sch) >= G.UNIQUE_PATH_FROM:
                    hist["dup_path_conflicts"] += 1
                    continue
                viol("a snapshot the library must accept was rejected (%s) by %s on %s" % (c, kind, sch))
                continue
            hist["accepted"] += 1
            snap, again = hout[i + 1], hout[i + 3]
            if snap != "ok " + want:
                viol("read-back differs from the normalised snapshot after %s on %s" % (kind, sch),
                     ["want: " + want[:600], "got:  " + snap[:600]])
                continue
            hist["fixed_point_checked"] += 1
            if again != snap:
                viol("read-back is not a fixed point (second write/read changed it) after %s on %s" % (kind, sch),
                     ["first:  " + snap[:600], "second: " + again[:600]])
                continue
            distinct.add(want)
    crashes = [r for (_, reps) in hres for r in reps]
    return {
        "ok": not divergences and not violations,
        "evaluations": evals,
        "distinct_nontrivial": len(distinct),
        "rule": "1.x: seeded snapshots over all 25 fields (strings none/empty/multi-byte/300 bytes, ints at range edges, "
                "doubles from +-0/-1/subnormal/1e15/1e300/inf/ordinary, 0..9 cue and loop slots with labels 0..300 bytes "
                "and offset -1, grids of 0/1/2/many markers incl. unsorted and index gaps at 2^31, waveforms of "
                "0/1/1023/1024/1025/5000 entries, sample rate absent/0/(0,1)/209/210/>=2^63) x {create, update over a "
                "prior snapshot} x versions; per case: write, snap, raw rows with decoded blobs, second write of the "
                "read-back, raw rows; model vs implementation line by line, and Spec.normalize on the implementation's "
                "answers; non-trivial = distinct normalised snapshots accepted and read back",
        "samples": [scripts[0][1][2][:300], scripts[-1][1][-5][:300]],
        "histograms": hist,
        "divergences": divergences[:20],
        "violations": violations[:6],
        "extra": {"sanitizer_reports": [r["stderr"][-400:] for r in crashes[:3]]},
    }
