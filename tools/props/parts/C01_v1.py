"""C01, schema 1.x part: a snapshot written by create_track / update reads back as `normalize` says,
the read-back is a fixed point, nothing is silently corrupted."""
import random
from common import *
import runner
from props.parts import _tracksv1_gen as G
from props.parts import _v1bindings as B

NS = "EngineModel.Properties.C01V1."
LEAN_MODULES = ["Properties.C01V1", "Properties.C01V1Db", B.LEAN_MODULE]
THEOREMS = [NS + t for t in [
    "v1_C01_roundtrip", "v1_C01_reject", "v1_C01_never_ub", "v1_C01_accepts", "v1_C01_fixed_point",
    "v1_C01_fixed_point_rows", "v1_C01_representable", "v1_C01_representable_all", "v1_C01_prior_irrelevant",
    "v1_C01_db_roundtrip",
    # database level, statements, bytes, NaN (Properties/C01V1Db.lean)
    "v1_C01_db_create_roundtrip", "v1_C01_db_create_accepts", "v1_C01_db_update_accepts", "v1_C01_db_reject",
    "v1_C01_db_unique_path", "v1_C01_db_frame", "v1_C01_txn_create", "v1_C01_txn_update", "v1_C01_txn_prepare",
    "v1_C01_db_reject_unchanged", "v1_C01_codec_bridge", "v1_C01_codec_bridge_slots",
    "v1_C01_roundtrip_through_bytes", "v1_C01_nan_total", "v1_C01_nan_agrees", "v1_C01_nan_fields",
    "v1_C01_nan_grid_counterexample"]] + B.THEOREMS_C01   # regenerated storage bindings (Properties/C01V1Bindings.lean)
TRANSLATORS = B.TRANSLATORS
ASSUMPTIONS = [
    B.ASSUMPTION,
    "1.x: a PerformanceData blob column is modelled by the codec's value-level effect (normTrack/normBeat/normCues/"
    "normLoops/normHires/normOvw); v1_C01_codec_bridge / _slots prove this IS decode(encode v) of the byte-level codec "
    "model Impl/V1.lean (on top of the locked C03 read-back theorems; exception classes of the cue / loop encoders by the "
    "tie only), the driver re-checks it on every stored row, and Impl/V1.lean's agreement with the C++ bytes is C02-C05's tie",
    "1.x: `a failed call changes nothing` is proved on the statement sequence BEGIN; Track; MetaData; MetaDataInteger; "
    "PerformanceData; COMMIT over the connection model of Spec/Txn.lean (SQLite statement atomicity and rollback are the "
    "trusted SqliteSemantics) for a failure at any position (v1_C01_txn_create / _update / v1_C01_db_reject_unchanged); tied by "
    "fault injection at every statement of create_track / update on the real library",
    "1.x: SQLite keeps INTEGER / TEXT / BLOB cells as bound; a double bound to the REAL column bpmAnalyzed reads back "
    "bit-identical except -0.0 -> +0.0 and NaN -> NULL (Fl.realCell); UNIQUE(path) from 1.11.1 on; validated by the raw "
    "row comparison on every case",
    "1.x: NaN is outside the property's quantifier (hypothesis NoNaN of the round-trip theorems); infinities are inside. "
    "What the library does with NaN is nevertheless stated (v1_C01_nan_total: accepted iff Spec.libAccepted, every NaN "
    "survives bit for bit except a NaN BPM, which reads back absent) and tied by a NaN stream; a mismatch there is a "
    "model/implementation divergence, never a property violation",
    "1.x: double arithmetic whose result only reaches raw columns (samples-per-entry, beat data's double sample count, "
    "ceil in set_bpm) is an opaque parameter of the Model (hardware doubles in the driver); no theorem depends on it",
]
MANIFEST_TEXT = (
    "1.x: theorems v1_C01_roundtrip / v1_C01_reject / v1_C01_never_ub / v1_C01_fixed_point(_rows) / v1_C01_representable "
    "(14 fields verbatim + 11 under explicit arithmetic Repr... predicates, field by field) for all eleven legacy versions, "
    "all snapshots without NaN and all prior rows, about a statement-level Lean model of create_track / update / snapshot() "
    "over the four legacy tables; on the database of several tracks: round trip through both calls, acceptance converse "
    "(v1_C01_db_create_accepts / _update_accepts: Spec accepts and path free => written), reject, UNIQUE(path), frame; a "
    "failed call changes nothing on the statement sequence BEGIN; Track; MetaData; MetaDataInteger; PerformanceData; COMMIT "
    "with a failure at any position (v1_C01_txn_create / _update / v1_C01_db_reject_unchanged, via the transaction theory "
    "of C14); the blob columns are decode(encode v) of the byte-level codec model (v1_C01_codec_bridge(_slots), "
    "v1_C01_roundtrip_through_bytes, on the locked C03 theorems); NaN stated (v1_C01_nan_total / _fields).  Tied on every "
    "run by differential replay of generated snapshots (create and update-over-prior) with snapshot(), raw rows with "
    "decoded blobs and a second write of the read-back, plus Spec `normalize` on the real library's own answers; a "
    "fault-injection stream (failure at statement 0..7 of both calls: thrown => every observation of every track "
    "unchanged, other track never changed, UNIQUE(path) refusal) and a NaN stream.")
TRUSTED_EXTRA = [B.TRUSTED, "tools/props/parts/_tracksv1_gen.py (generators), harness/djv_tracksv1.cpp (raw row dump with the "
                 "library's own blob decoders)"]


def build_cases(rng, tier, schemas):
    """-> list of scripts; each script = (schema, lines, meta) where meta[i] describes line i."""
    per_schema = 300 if tier == "quick" else 1500
    shard_sz = 20 if tier == "quick" else 40
    scripts = []
    for si, sch in enumerate(schemas):
        cases = []
        for k in range(per_schema):
            c = rng.random()
            if c < 0.15:
                x = G.light_snapshot(rng, k)
            elif c < 0.55:
                x = G.g_snapshot(rng, k, tier, nan_ok=(rng.random() < 0.05), valid=True)
            else:
                x = G.g_snapshot(rng, k, tier, nan_ok=(rng.random() < 0.05), valid=False)
            mode = "create" if rng.random() < 0.5 else "update"
            prior = G.g_snapshot(rng, 100000 + k, "quick", valid=True) if mode == "update" else None
            dup = rng.random() < 0.04 and k > 0
            if dup:
                x["relative_path"] = b"dup/same.mp3"
            cases.append((mode, prior, x))
        # one large, poorly compressible beat grid per schema (every tier): its zlib stream needs several output
        # buffers on the final flush, so a blob truncated by the compression helper shows up as a snapshot that
        # was accepted but cannot be read back (the round trip of C01 passes through the real framing)
        xb = G.g_snapshot(rng, 777000 + si, "quick", valid=True)
        idx, off, big = 0, 0.0, []
        for _ in range(2500):
            big.append((idx, G.dbits(off)))
            idx += rng.choice([1, 2, 4, 8])
            off += rng.uniform(1000.0, 50000.0)
        xb["beatgrid"] = big
        cases.append(("create", None, xb))
        for i in range(0, len(cases), shard_sz):
            lines, meta = ["#mode tracksv1", "create %s %s" % (sch, "disk" if rng.random() < 0.15 else "mem")], [None, None]
            for j, (mode, prior, x) in enumerate(cases[i:i + shard_sz]):
                v = "t%d" % j
                if mode == "create":
                    lines.append("mktrack %s %s" % (v, G.snap_txt(x))); meta.append(("write", sch, x, "create"))
                else:
                    lines.append("mktrack %s %s" % (v, G.snap_txt(prior))); meta.append(("prior", sch, prior, "create"))
                    lines.append("snap %s" % v); meta.append(("snap0",))
                    lines.append("update %s %s" % (v, G.snap_txt(x))); meta.append(("write", sch, x, "update"))
                lines.append("snap %s" % v); meta.append(("snap",))
                lines.append("v1.rows %s" % v); meta.append(("rows",))
                lines.append("v1.reupdate %s" % v); meta.append(("again",))
                lines.append("v1.rows %s" % v); meta.append(("rows",))
            scripts.append((sch, lines, meta))
    return scripts


def canon(l):
    if l.startswith("bad-op"):
        return "bad-op"
    return G.canon_ub(l)


def canon_fault(l):
    """`fault.status` prints how many statements were seen: never compared (statement counts are not behaviour)."""
    if l.startswith("ok fired="):
        return l.split(" seen=")[0]
    return canon(l)


def fault_stream(ctx, rng, schemas):
    """create_track / update under a fault injected at the k-th non-read-only statement of the call, k = 0..7, on the real
    library and on the statement-level model (Txn.lean).  Oracle on the implementation's own answers: when the fault
    fired the call must throw and every observation of every track — the target included — must be what it was; when it
    did not fire the call behaves as without `fault`.  The model runs second: it is told `fault (k mod 6)` where the
    implementation reported `fired=1` and `fault 99` where it did not, so that the comparison does not depend on how many
    statements the implementation happens to use."""
    n_cases = 4 if ctx.tier == "quick" else 10
    scripts = []
    for sch in schemas:
        for c in range(n_cases):
            lines, meta = ["#mode tracksv1", "create %s %s" % (sch, "disk" if rng.random() < 0.2 else "mem")], [None, None]
            other = G.g_snapshot(rng, 500 + c, "quick", valid=True)
            other["relative_path"] = b"other/o%d.mp3" % c
            lines.append("mktrack o %s" % G.snap_txt(other)); meta.append(("mk",))
            upd = rng.random() < 0.5
            if upd:
                lines.append("mktrack t %s" % G.snap_txt(G.g_snapshot(rng, 600 + c, "quick", valid=True))); meta.append(("mk",))
            for k in range(8):
                x = G.g_snapshot(rng, 700 + 10 * c + k, "quick", valid=rng.random() < 0.85)
                if k == 7 and x["relative_path"] is not None:
                    x["relative_path"] = other["relative_path"]     # UNIQUE(path) from 1.11.1: refused, `o` untouched
                t = "t" if upd else "n%d" % k
                watch = ["o"] + (["t"] if upd else [])
                for w in watch:
                    lines.append("snap %s" % w); meta.append(("before", k, w, "snap"))
                    lines.append("v1.rows %s" % w); meta.append(("before", k, w, "rows"))
                lines.append("fault %d" % k); meta.append(("fault", k))
                lines.append("%s %s %s" % ("update" if upd else "mktrack", t, G.snap_txt(x)))
                meta.append(("call", k, "update" if upd else "create", t))
                lines.append("fault.status"); meta.append(("status", k))
                for w in watch:
                    lines.append("snap %s" % w); meta.append(("after", k, w, "snap"))
                    lines.append("v1.rows %s" % w); meta.append(("after", k, w, "rows"))
                if not upd:
                    lines.append("get %s valid" % t); meta.append(("newvalid", k))
            scripts.append((sch, lines, meta))
    hres, retried = G.run_harness_robust(runner, [s[1] for s in scripts], watchdog=30)
    mscripts = []
    for (sch, lines, meta), (hout, _) in zip(scripts, hres):
        ml = list(lines)
        for i, m in enumerate(meta):
            if m and m[0] == "fault":
                fired = hout[i + 2].startswith("ok fired=1")
                ml[i] = "fault %d" % ((m[1] % 6) if fired else 99)
        mscripts.append(ml)
    mres = runner.run_model(mscripts)
    div, viol = [], []
    hist = {"calls": 0, "fired": 0, "fired_at": {}, "threw_unchanged": 0, "not_fired_ok": 0, "not_fired_throw": 0}
    evals = 0
    for (sch, lines, meta), (hout, _), mout in zip(scripts, hres, mres):
        for i, l in enumerate(lines):
            evals += 1
            if meta[i] and meta[i][0] == "fault":
                continue
            if canon_fault(hout[i]) != canon_fault(mout[i]) and not hout[i].startswith("skipped-after-crash"):
                div.append({"input": "%s | fault stream | %s" % (sch, l[:300]), "impl": hout[i][:300], "model": mout[i][:300]})
        obs = {}
        for i, m in enumerate(meta):
            if m and m[0] in ("before", "after"):
                obs[(m[0], m[1], m[2], m[3])] = hout[i]
        for i, m in enumerate(meta):
            if not m or m[0] != "call":
                continue
            k, kind = m[1], m[2]
            res, status = hout[i], hout[i + 1]
            if res.startswith("skipped") or res.startswith("missing"):
                continue
            hist["calls"] += 1
            fired = status.startswith("ok fired=1")
            body = [l for l, mm in zip(lines[:i + 2], meta[:i + 2]) if not (mm and mm[0] in ("before", "after", "newvalid"))]
            if res.startswith("ub"):
                viol.append({"tag": "oracle", "signature": None,
                             "header": {"kind": "history", "part": "C01_v1",
                                        "what": "%s under an injected statement failure is undefined behaviour (%s) on %s" % (kind, res, sch)},
                             "body": body})
                continue
            if fired:
                hist["fired"] += 1
                hist["fired_at"][str(k)] = hist["fired_at"].get(str(k), 0) + 1
            # frame: whatever the outcome, the other track is observed exactly as before
            hist["frame_checks"] = hist.get("frame_checks", 0) + 1
            oth = [what for (ph, kk, w, what), val in obs.items()
                   if ph == "before" and kk == k and w == "o" and obs.get(("after", k, "o", what)) != val]
            if oth:
                viol.append({"tag": "oracle", "signature": None,
                             "header": {"kind": "history", "part": "C01_v1",
                                        "what": "%s (%s) changed another track (%s of it) on %s"
                                                % (kind, res.split()[0], oth[0], sch)},
                             "body": body + ["note: snap o", "note: v1.rows o"]})
                continue
            if k == 7 and not fired and G.SCHEMAS.index(sch) >= G.UNIQUE_PATH_FROM and res.startswith("throw sqlite_error"):
                hist["unique_path_refused"] = hist.get("unique_path_refused", 0) + 1
            if res.startswith("throw"):
                changed = [(w, what) for (ph, kk, w, what), val in obs.items()
                           if ph == "before" and kk == k and obs.get(("after", k, w, what)) != val]
                if changed:
                    viol.append({"tag": "oracle", "signature": None,
                                 "header": {"kind": "history", "part": "C01_v1",
                                            "what": "%s threw (%s, fault at statement %d %s) but the stored data changed: %s of track %s on %s"
                                                    % (kind, res.split()[1] if len(res.split()) > 1 else "?", k,
                                                       "fired" if fired else "not fired", changed[0][1], changed[0][0], sch)},
                                 "body": body + ["note: %s %s" % (("snap" if changed[0][1] == "snap" else "v1.rows"), changed[0][0])]})
                    continue
                if kind == "create" and hout[i + 2 + 2 * 1].startswith("ok 1"):
                    pass
                hist["threw_unchanged"] += 1
                if not fired:
                    hist["not_fired_throw"] += 1
            elif fired:
                viol.append({"tag": "oracle", "signature": None,
                             "header": {"kind": "history", "part": "C01_v1",
                                        "what": "%s returned normally although one of its statements failed (fault at statement %d) on %s"
                                                % (kind, k, sch)},
                             "body": body})
            else:
                hist["not_fired_ok"] += 1
    return div, viol, hist, evals, retried


def nan_stream(ctx, rng, schemas):
    """Snapshots with NaN in every place a double can stand.  Outside the property's quantifier: model vs implementation,
    and the executable statement of what the library does (Spec.normalizeNaN, theorem v1_C01_nan_total) on the
    implementation's own answers — any mismatch is a divergence, not a violation; undefined behaviour is a violation."""
    n = 30 if ctx.tier == "quick" else 150
    NaNs = [G.NAN, "fff8000000000000", "7ff0000000000001", "7fffffffffffffff"]
    scripts = []
    for sch in schemas:
        lines, meta = ["#mode tracksv1", "create %s mem" % sch], [None, None]
        for j in range(n):
            x = G.g_snapshot(rng, 900 + j, "quick", valid=rng.random() < 0.8)
            nan = rng.choice(NaNs)
            where = rng.choice(["average_loudness", "bpm", "main_cue", "sample_rate", "cue", "loop_start", "loop_end",
                                "grid", "bpm", "grid"])
            if where in ("average_loudness", "bpm", "main_cue", "sample_rate"):
                x[where] = nan
            elif where == "cue":
                x["hot_cues"] = [{"label": b"n", "off": nan, "color": "1 2 3 4"}] + x["hot_cues"][:7]
            elif where == "loop_start":
                x["loops"] = [{"label": b"n", "start": nan, "end": G.dbits(5.0), "color": "1 2 3 4"}] + x["loops"][:7]
            elif where == "loop_end":
                x["loops"] = [{"label": b"n", "start": G.dbits(5.0), "end": nan, "color": "1 2 3 4"}] + x["loops"][:7]
            else:
                g = [(0, G.dbits(0.0)), (4, G.dbits(1000.0)), (8, G.dbits(2000.0)), (12, G.dbits(3000.0))]
                g[rng.randrange(4)] = (g[0][0] + 4 * rng.randrange(4), nan)
                g = [(4 * i, o) for i, (_, o) in enumerate(g)]
                x["beatgrid"] = g
            v = "t%d" % j
            if rng.random() < 0.5:
                lines.append("mktrack %s %s" % (v, G.snap_txt(x))); meta.append(("write", sch, x, where))
            else:
                lines.append("mktrack %s %s" % (v, G.snap_txt(G.minimal(b"nan/p%d.mp3" % j)))); meta.append(("prior",))
                lines.append("update %s %s" % (v, G.snap_txt(x))); meta.append(("write", sch, x, where))
            lines.append("snap %s" % v); meta.append(("snap",))
            lines.append("v1.rows %s" % v); meta.append(("rows",))
        scripts.append((sch, lines, meta))
    hres, retried = G.run_harness_robust(runner, [s[1] for s in scripts], watchdog=30)
    mres = runner.run_model([s[1] for s in scripts])
    spec_lines = []
    for (sch, lines, meta) in scripts:
        for l, m in zip(lines, meta):
            if m and m[0] == "write":
                spec_lines.append("v1spec.normalizenan %s %s" % (sch, l.split(" ", 2)[2]))
    sout = [o for outs in runner.run_model(runner.shard(spec_lines, NCPU)) for o in outs]
    sp = iter(sout)
    div, viol = [], []
    hist = {"writes": 0, "by_place": {}, "accepted": 0, "rejected": 0, "bpm_read_back_absent": 0}
    evals = 0
    for (sch, lines, meta), (hout, _), mout in zip(scripts, hres, mres):
        for i, l in enumerate(lines):
            evals += 1
            if canon(hout[i]) != canon(mout[i]) and not hout[i].startswith("skipped-after-crash"):
                div.append({"input": "%s | NaN stream | %s" % (sch, l[:300]), "impl": hout[i][:300], "model": mout[i][:300]})
        for i, m in enumerate(meta):
            if not m or m[0] != "write":
                continue
            spec = next(sp)
            res = hout[i]
            hist["writes"] += 1
            hist["by_place"][m[3]] = hist["by_place"].get(m[3], 0) + 1
            if res.startswith("ub"):
                viol.append({"tag": "oracle", "signature": None,
                             "header": {"kind": "input", "what": "writing a snapshot with NaN is undefined behaviour (%s) on %s" % (res, sch)},
                             "body": ["#mode tracksv1", lines[1], lines[i]]})
                continue
            if res.startswith("skipped") or res.startswith("missing") or res.startswith("bad-op"):
                continue
            if spec == "ok reject":
                hist["rejected"] += 1
                if not res.startswith("throw"):
                    div.append({"input": "%s | NaN stream | %s" % (sch, lines[i][:300]), "impl": res[:100],
                                "model": "Spec.normalizeNaN: the library rejects this snapshot"})
            elif res.startswith("throw"):
                c = res.split()[1] if len(res.split()) > 1 else "?"
                if not (c == "sqlite_error"):
                    div.append({"input": "%s | NaN stream | %s" % (sch, lines[i][:300]), "impl": res[:100],
                                "model": "Spec.normalizeNaN: the library accepts this snapshot"})
            else:
                hist["accepted"] += 1
                if hout[i + 1] != spec:
                    div.append({"input": "%s | NaN stream | %s" % (sch, lines[i][:300]), "impl": hout[i + 1][:300],
                                "model": "Spec.normalizeNaN: " + spec[:300]})
                elif m[3] == "bpm":
                    hist["bpm_read_back_absent"] += 1
    return div, viol, hist, evals, retried


def tie(ctx):
    rng = random.Random(ctx.seed * 7919 + 101)
    schemas = G.QUICK_SCHEMAS if ctx.tier == "quick" else G.SCHEMAS
    scripts = build_cases(rng, ctx.tier, schemas)
    hres, retried = G.run_harness_robust(runner, [s[1] for s in scripts], watchdog=30)
    mres = runner.run_model([s[1] for s in scripts])
    # Spec on every written snapshot (stateless driver commands)
    spec_lines = []
    for (sch, lines, meta) in scripts:
        for l, m in zip(lines, meta):
            if m and m[0] in ("write", "prior"):
                st = l.split(" ", 2)[2]
                spec_lines.append("v1spec.normalize %s %s" % (sch, st))
                spec_lines.append("v1spec.nonan %s" % st)
    sout = [o for outs in runner.run_model(runner.shard(spec_lines, NCPU)) for o in outs]
    sp = iter(sout)

    divergences, violations = [], []
    hist = {"writes": 0, "create": 0, "update": 0, "accepted": 0, "rejected_by_spec": 0, "threw": {}, "ub": 0,
            "nan_inputs": 0, "dup_path_conflicts": 0, "schemas": {}, "fixed_point_checked": 0, "rows_compared": 0,
            "watchdog_retries": retried}
    distinct = set()
    evals = 0
    for (sch, lines, meta), (hout, hrep), mout in zip(scripts, hres, mres):
        hist["schemas"][sch] = hist["schemas"].get(sch, 0) + 1
        for i, l in enumerate(lines):
            evals += 1
            if canon(hout[i]) != canon(mout[i]) and not hout[i].startswith("skipped-after-crash"):
                divergences.append({"input": "%s | %s" % (sch, l[:400]), "impl": hout[i][:400], "model": mout[i][:400]})
            if meta[i] and meta[i][0] == "rows":
                hist["rows_compared"] += 1
        # direct oracle on the implementation's own answers
        for i, m in enumerate(meta):
            if not m or m[0] not in ("write", "prior"):
                continue
            spec, nonan = next(sp), next(sp)
            x, kind = m[2], m[3]
            res = hout[i]
            if m[0] == "prior":
                # the snapshot an update case starts from is one every version must accept: judge it too
                # (accepted, read back as normalised), so that a failure is reported where it happens
                hist["priors"] = hist.get("priors", 0) + 1
                if res.startswith("ok") and spec.startswith("ok ") and spec != "ok reject":
                    if hout[i + 1] != spec:
                        violations.append({"tag": "oracle", "signature": None,
                                           "header": {"kind": "input", "what": "read-back differs from the normalised "
                                                      "snapshot after create on %s" % sch},
                                           "body": ["#mode tracksv1", lines[1], lines[i], lines[i + 1],
                                                    "want: " + spec[:600], "got:  " + hout[i + 1][:600]]})
                elif res.startswith("throw") or res.startswith("ub"):
                    violations.append({"tag": "oracle", "signature": None,
                                       "header": {"kind": "input", "what": "a snapshot the library must accept was "
                                                  "rejected (%s) by create on %s" % (res, sch)},
                                       "body": ["#mode tracksv1", lines[1], lines[i], "impl: " + res[:300]]})
                continue
            hist["writes"] += 1
            hist[kind] += 1
            if res.startswith("skipped") or res.startswith("missing") or res.startswith("bad-op"):
                continue
            def viol(what, extra=()):
                body = ["#mode tracksv1", lines[1]]
                if kind == "update":
                    body.append(lines[i - 2])
                body += [lines[i], "snap " + lines[i].split()[1], "v1.reupdate " + lines[i].split()[1]]
                violations.append({"tag": "oracle", "signature": None,
                                   "header": {"kind": "input", "what": what},
                                   "body": body + ["impl: " + res[:300]] + list(extra)})
            if res.startswith("ub"):
                hist["ub"] += 1
                viol("%s of a snapshot is undefined behaviour (%s) on %s" % (kind, res, sch))
                continue
            if nonan.strip() != "ok 1":
                hist["nan_inputs"] += 1
                continue
            if spec == "ok reject":
                hist["rejected_by_spec"] += 1
                if not res.startswith("throw"):
                    viol("a snapshot the library must reject was accepted by %s on %s" % (kind, sch))
                else:
                    c = res.split()[1]
                    hist["threw"][c] = hist["threw"].get(c, 0) + 1
                continue
            if not spec.startswith("ok "):
                viol("spec evaluation failed: " + spec[:80])
                continue
            want = spec[3:]
            if res.startswith("throw"):
                c = res.split()[1]
                if c == "sqlite_error" and x["relative_path"] == b"dup/same.mp3" and G.SCHEMAS.index(sch) >= G.UNIQUE_PATH_FROM:
                    hist["dup_path_conflicts"] += 1
                    continue
                viol("a snapshot the library must accept was rejected (%s) by %s on %s" % (c, kind, sch))
                continue
            hist["accepted"] += 1
            snap, again = hout[i + 1], hout[i + 3]
            if snap != "ok " + want:
                viol("read-back differs from the normalised snapshot after %s on %s" % (kind, sch),
                     ["want: " + want[:600], "got:  " + snap[:600]])
                continue
            hist["fixed_point_checked"] += 1
            if again != snap:
                viol("read-back is not a fixed point (second write/read changed it) after %s on %s" % (kind, sch),
                     ["first:  " + snap[:600], "second: " + again[:600]])
                continue
            distinct.add(want)
    crashes = [r for (_, reps) in hres for r in reps]
    fd, fv, fh, fe, fr = fault_stream(ctx, random.Random(ctx.seed * 104729 + 7), schemas)
    nd, nv, nh, ne, nr = nan_stream(ctx, random.Random(ctx.seed * 15485863 + 11), schemas)
    divergences += fd + nd
    violations += fv + nv
    evals += fe + ne
    hist["fault_stream"] = fh
    hist["nan_stream"] = nh
    hist["watchdog_retries"] += fr + nr
    return {
        "ok": not divergences and not violations,
        "evaluations": evals,
        "distinct_nontrivial": len(distinct),
        "rule": "1.x: seeded snapshots over all 25 fields (strings none/empty/multi-byte/300 bytes, ints at range edges, "
                "doubles from +-0/-1/subnormal/1e15/1e300/inf/ordinary, 0..9 cue and loop slots with labels 0..300 bytes "
                "and offset -1, grids of 0/1/2/many markers incl. unsorted and index gaps at 2^31, waveforms of "
                "0/1/1023/1024/1025/5000 entries, sample rate absent/0/(0,1)/209/210/>=2^63) x {create, update over a "
                "prior snapshot} x versions; per case: write, snap, raw rows with decoded blobs, second write of the "
                "read-back, raw rows; model vs implementation line by line, and Spec.normalize on the implementation's "
                "answers; non-trivial = distinct normalised snapshots accepted and read back.  Fault stream: create_track / "
                "update with a failure injected at statement k = 0..7 (real library and statement-level model), thrown => "
                "every observation of every track unchanged.  NaN stream: NaN in every double position, model vs "
                "implementation vs Spec.normalizeNaN",
        "samples": [scripts[0][1][2][:300], scripts[-1][1][-5][:300]],
        "histograms": hist,
        "divergences": divergences[:20],
        "violations": violations[:6],
        "extra": {"sanitizer_reports": [r["stderr"][-400:] for r in crashes[:3]]},
    }
