"""Shared tie engine of the composite-v1 parts (C08_lib1, C10_lib1, C11_lib1, C16_lib1): the WHOLE schema-1.x library
as one transition system (lean/EngineModel/Lib/V1.lean, driver mode `lib1`) against the real library.

A script interleaves crate, membership and track calls (generators of _cratesv1 / _tracksv1_gen / C06_v1 reused), on
live and removed handles; after every call
    v1.obs    every public crate / membership query (crates package's observation, held handles included)
    lib1.tobs is_valid / filename / file_extension / snapshot() of every track (tracks() and held handles)
    lib1.dump raw dump of ALL tables of m.db and p.db (independent reader on the library's connection)
are compared line by line between the harness and the Lean composite step, and the DIRECT ORACLE judges the real
library alone:
    inv      driver mode `lib1oracle`: the executable whole-library invariant `libInvRaw` (the one
             `C11_lib1_raw_check_after_every_history` is about) evaluated on the REAL dump;
    members  the crates package's Spec oracle (mode `v1oracle`: Spec.Forest / Spec.Members stepped with the library's
             own answers) on the composite history, plus "every member is a live track" (is_valid, snapshot());
    observe  an observing call changes nothing (dump + bookkeeping tables before = after) and answers twice the same;
    reopen   close + load: the observation and the dump of the live objects are the same before and after;
    pragmas  qualified PRAGMA music./perfdata. foreign_key_check and integrity_check (supporting run-time checks);
    refs     (work-package lib1plant) `lib1.plantrefs <track>` = what Engine DJ writes when a track is put on a playlist, a
             history list, the prepare list and is a copied track (raw connection, no library code; model: the environment
             step `plantRefs` of Lib/V1Refs.lean) is woven into every history — on tracks that are removed later and on
             tracks that stay; after EVERY call `lib1.fk` (PRAGMA music.foreign_key_check) must be clean and no row of
             PlaylistTrackList / HistorylistTrackList / PreparelistTrackList / CopiedTrack (/ ListTrackList) in the real
             dump may name an id without a Track row."""
import random, re, time
import runner
from props.parts import _cratesv1 as CR
from props.parts import _tracksv1_gen as G
from props.parts import C06_v1 as C06

SCHEMAS = G.SCHEMAS
AUTOINC_FROM = SCHEMAS.index("schema_1_17_0")
PRAGMA_OK = "ok fkm () fkp () icm (s6f6b) icp (s6f6b)"
FK_OK = "ok fk ()"
# the stream of planted foreign rows (lib1plant).  Set to False ONLY to park a candidate defect of /repo (see design/Lib1.md).
PLANT_REFS = True
# CANDIDATE DEFECT, parked (design/Lib1.md "candidate defect"): with True the witness history plants the rows of t1 with NULL in the
# nullable columns trackIdInOriginDatabase / databaseUuid; on 1.9.1+ remove_track then leaves the ListTrackList rows behind
# (lib1.fk, lib1.inv.foreign-keys-clean, lib1.refs.dangling).  Nothing is listed as known; the stream is off so the branch is green.
PLANT_NULL_COLUMNS = False
HARNESS_ONLY = ("lib1.bk",)
OBS = ("v1.obs", "lib1.tobs", "lib1.dump", "lib1.fk", "lib1.bk", "lib1.pragmas", "lib1.mark", "#", "create", "reopen")


def quick_schemas(seed, n=3):
    """oldest, newest and rotating others: every version is visited within five seeds"""
    mid = [s for s in SCHEMAS if s not in ("schema_1_6_0", "schema_1_18_0_os")]
    pick = ["schema_1_6_0", "schema_1_18_0_os"] + [mid[(2 * seed + i) % len(mid)] for i in range(max(0, n - 2))]
    return pick


def schemas_for(ctx, n=3):
    return list(SCHEMAS) if ctx.tier != "quick" else quick_schemas(ctx.seed, n)


# ------------------------------------------------------------------ generation
class Weave:
    """Turns a crate/membership history of _cratesv1 into a whole-library history: track creations carry real
    snapshots, and track calls / observers on live and removed handles are woven in."""

    def __init__(self, rng, schema, tier, disk=False, reopen=0.0, observers=0.0, track_ops=0.5, plant=0.4):
        self.rng, self.schema, self.tier = rng, schema, tier
        self.plant = plant if PLANT_REFS else 0.0
        self.disk, self.reopen, self.observers, self.track_ops = disk, reopen, observers, track_ops
        self.tv, self.cv = [], []
        self.paths = []
        self.k = 0
        self.hist = {}

    def count(self, k):
        self.hist[k] = self.hist.get(k, 0) + 1

    def snapshot(self):
        self.k += 1
        r = self.rng.random()
        if r < 0.40:
            s, kind = G.light_snapshot(self.rng, self.k), "light"
        elif r < 0.68:
            s, kind = G.g_snapshot(self.rng, self.k, self.tier if self.rng.random() < 0.1 else "quick", valid=True), "valid"
        elif r < 0.78:
            # valid in everything except ONE thing that only the last blob encoders refuse (a ninth cue / loop, a
            # label the format cannot hold), with the track-data fields set: the call is refused after part of the
            # snapshot has already been encoded (round 5, seeded C10-4: a shared cache was filled before the refusal)
            s, kind = G.g_snapshot(self.rng, self.k, "quick", valid=True), "valid-but-refused-late"
            s["sample_rate"] = self.rng.choice([G.dbits(44100.0), G.dbits(48000.0), G.dbits(96000.0), G.dbits(22050.0)])
            s["sample_count"] = self.rng.randrange(100000, 10 ** 8)
            s["average_loudness"] = G.dbits(self.rng.choice([0.25, 0.5, 0.75, 0.125]))
            s["waveform"] = b""
            w = self.rng.randrange(4)
            mk = lambda lab: {"label": lab, "off": G.dbits(1000.0), "color": G.color(self.rng)}
            ml = lambda lab: {"label": lab, "start": G.dbits(1000.0), "end": G.dbits(2000.0), "color": G.color(self.rng)}
            if w == 0:
                s["hot_cues"] = [mk(b"c%d" % i) for i in range(9)]
            elif w == 1:
                s["loops"] = [ml(b"l%d" % i) for i in range(9)]
            elif w == 2:
                s["hot_cues"] = [mk(b"x" * 300)] + [None] * 7
            else:
                s["loops"] = [ml(b"")] + [None] * 7
        elif r < 0.9:
            s, kind = G.g_snapshot(self.rng, self.k, "quick", nan_ok=False, valid=False), "arbitrary"
        else:
            s, kind = G.light_snapshot(self.rng, self.k), "duplicate-path"
            if self.paths:
                s["relative_path"] = self.rng.choice(self.paths)
        if s.get("relative_path") is not None:
            self.paths.append(s["relative_path"])
        self.count("snapshot:" + kind)
        return G.snap_txt(s)

    def track_call(self):
        if not self.tv:
            return []
        v = self.rng.choice(self.tv)
        r = self.rng.random()
        if self.plant and self.rng.random() < 0.12:
            self.count("plantrefs:any-handle")       # live, removed, or a handle from track_by_id
            return ["lib1.plantrefs %s" % v]
        if r < 0.6:
            f = self.rng.choice(C06.SETTERS)
            self.count("set:" + f)
            return ["set %s %s %s" % (v, f, C06.value_txt(self.rng, f, "quick"))]
        if r < 0.8:
            self.count("update")
            return ["update %s %s" % (v, self.snapshot())]
        self.count("gettrack")
        g = "g%d" % self.rng.randrange(3)
        if g not in self.tv:
            self.tv.append(g)       # later setters / update / add_track go through the handle track_by_id returned
        return ["gettrack %s %d" % (g, self.rng.choice([0, 1, 2, 2, 3, 3, 4, 5, 7, -1]))]

    def observer(self):
        rng = self.rng
        c = rng.choice(self.cv) if self.cv else None
        t = rng.choice(self.tv) if self.tv else None
        pool = ["db.q crates", "db.q root_crates", "db.q tracks", "db.q crate_by_id %d" % rng.choice([0, 1, 2, 3, 9]),
                "db.q track_by_id %d" % rng.choice([0, 1, 2, 3, 4, 9]), "db.q crates_by_name " + CR.hx(rng.choice(["a", "b", "zz"])),
                "db.q root_by_name " + CR.hx(rng.choice(["a", "b", "zz"])),
                "db.q tracks_by_path " + (G.hexs(rng.choice(self.paths)) if self.paths and rng.random() < 0.7 else "7a7a"),
                "db.q uuid", "db.q version_name", "db.q verify", "db.q directory"]
        if c:
            pool += ["crate.q %s %s" % (c, q) for q in ("valid", "name", "parent", "children", "descendants", "tracks")]
            pool += ["crate.q %s sub_by_name %s" % (c, CR.hx(rng.choice(["a", "b", "zz"])))]
        if t:
            pool += ["get %s valid" % t, "get %s containing_crates" % t, "get %s filename" % t, "get %s file_extension" % t,
                     "snap %s" % t]
            pool += ["get %s %s" % (t, rng.choice(C06.GETTERS)) for _ in range(4)]
            pool += ["get %s hot_cue_at %d" % (t, rng.choice([0, 7, 8, -1])), "get %s loop_at %d" % (t, rng.choice([0, 7, 8]))]
        q = rng.choice(pool)
        self.count("observer:" + " ".join(q.split()[:1] + [w for w in q.split()[1:3] if not w[0].isdigit() and w not in (c, t)][:1]))
        return q

    def weave(self, base):
        """base: lines of _cratesv1.gen_history.  -> (lines, marks) ; marks[i] = kind of line i"""
        out = ["#mode lib1", "create %s %s" % (self.schema, "disk" if self.disk else "mem"), "lib1.mark"]
        names = "61 62 7a7a"

        def after_op():
            out.extend(["v1.obs " + names, "lib1.tobs", "lib1.dump", "lib1.fk"])
            if self.reopen and self.rng.random() < self.reopen:
                out.extend(["reopen", "v1.obs " + names, "lib1.tobs", "lib1.dump", "lib1.fk"])
                self.count("reopen")

        out.append("lib1.dump")
        for l in base[2:]:
            if l.startswith("v1.obs"):
                names = l[len("v1.obs "):]
                continue
            w = l.split()
            planted_after = None
            if w[0] == "v1.mktrack":
                l = "mktrack %s %s" % (w[1], self.snapshot())
                if w[1] not in self.tv:
                    self.tv.append(w[1])
                if self.plant and self.rng.random() < self.plant:
                    planted_after = w[1]
            elif w[0] == "rmtrack" and self.plant and self.rng.random() < 0.6:
                self.count("plantrefs:before-remove")
                out.append("lib1.plantrefs %s" % w[1])
                after_op()
            elif w[0] in ("mkroot", "mksub", "getcrate") and w[1] not in self.cv:
                self.cv.append(w[1])
            out.append(l)
            after_op()
            if planted_after:
                self.count("plantrefs:after-create")
                out.append("lib1.plantrefs %s" % planted_after)
                after_op()
            while self.rng.random() < self.track_ops:
                for x in self.track_call():
                    out.append(x)
                    after_op()
            if self.observers and self.rng.random() < self.observers:
                qs = [self.observer() for _ in range(self.rng.randrange(1, 5))]
                out.extend(["lib1.dump", "lib1.bk"] + qs + qs + ["lib1.dump", "lib1.bk"])
        out.append("lib1.pragmas")
        return out


def witness(schema, disk=False):
    """A fixed short whole-library history, run on ALL eleven versions in every tier: every table family is written,
    a track is removed while it is a member, the id after the removed highest track is asked for by track_by_id (the
    placeholder row of the AUTOINCREMENT schemas, fix a5d64c8) and written through, a path collides, a stale handle is used."""
    a = G.snap_txt(G.minimal(b"w/a.mp3"))
    b = G.snap_txt(dict(G.minimal(b"w/b.x.flac"), title=b"B", rating=7, key=5, sample_count=441000, sample_rate=G.dbits(44100.0)))
    obs = ["v1.obs 61 7a7a", "lib1.tobs", "lib1.dump", "lib1.fk"]
    P = (lambda v: ["lib1.plantrefs " + v]) if PLANT_REFS else (lambda v: [])
    # Engine's rows (playlist / history / prepare list / copied track) on: t0 (twice; removed at the very end), t1 (removed
    # while on the lists; planting through the stale handle afterwards is skipped), t2 (the highest id, removed: placeholder
    # row on the AUTOINCREMENT schemas; planting on it afterwards is skipped), t4 (stays to the end).
    ops = (["mkroot c0 61", "mktrack t0 " + a] + P("t0") + ["mksub c1 c0 62", "addtrack c1 t0", "mktrack t1 " + b] + P("t1 nulls" if PLANT_NULL_COLUMNS else "t1") +
           ["addtrack c0 t1", "set t1 title s5469", "set t0 year 1999"] + P("t0") + ["rmtrack t1"] + P("t1") +
           ["set t1 title s58", "update t1 " + b, "addtrack c0 t1",
            "gettrack g0 2", "set g0 title s5a", "set g0 rating 3", "addtrack c0 g0", "gettrack g1 3", "set g1 artist s41",
            "mktrack t2 " + b] + P("t2") + ["mktrack t3 " + a, "rmtrack t2"] + P("t2") + ["mktrack t4 " + b] + P("t4") +
           ["set t4 relative_path 772f612e6d7033", "rmcrate c0", "rmtrack t0", "mktrack t5 " + a])
    out = ["#mode lib1", "create %s %s" % (schema, "disk" if disk else "mem"), "lib1.mark", "lib1.dump"]
    for l in ops:
        out.append(l)
        out.extend(obs)
    out.append("lib1.pragmas")
    return out


def gen(rng, schema, tier, profile, nops, **kw):
    base, hist = CR.gen_history(rng, schema, profile, nops)
    w = Weave(rng, schema, tier, **kw)
    lines = w.weave(base)
    hist = dict(hist)
    hist.update(w.hist)
    return lines, hist


# ------------------------------------------------------------------ running
def oracle_inv_script(schema, script, hout):
    lines = ["#mode lib1oracle"]
    idx = []
    for i, (l, o) in enumerate(zip(script, hout)):
        if l == "lib1.dump" and o.startswith("ok raw "):
            lines.append("inv %s %s" % (schema, o[3:].split(" R ", 1)[0]))
            idx.append(i)
    return lines, idx


def oracle_members_script(script, hout):
    """the crates package's Spec oracle, fed with the composite history"""
    lines = ["#mode v1oracle"]
    idx = []
    for i, (l, o) in enumerate(zip(script, hout)):
        if i == 0:
            continue
        w = l.split()
        if w[0] == "create":
            lines.append(l + " => " + o); idx.append(i)
        elif w[0] == "mktrack":
            if o.startswith("ok id="):
                lines.append("v1.mktrack %s x => %s" % (w[1], o)); idx.append(i)
        elif w[0] in ("mkroot", "mksub", "rename", "setparent", "rmcrate", "getcrate", "rmtrack", "addtrack", "addtrackid",
                      "rmtrackfrom", "cleartracks", "v1.obs"):
            lines.append(l + " => " + o); idx.append(i)
        elif w[0] == "reopen":
            break        # handles are re-obtained: the Spec oracle's handle table no longer applies
    return lines, idx


def execute(scripts, schemas):
    hres = runner.run_harness(scripts, stateless=False, watchdog=30)
    houts = [o for (o, _) in hres]
    mouts = runner.run_model(scripts)
    inv = [oracle_inv_script(sch, s, h) for s, h, sch in zip(scripts, houts, schemas)]
    mem = [oracle_members_script(s, h) for s, h in zip(scripts, houts)]
    iouts = runner.run_model([x[0] for x in inv])
    oouts = runner.run_model([x[0] for x in mem])
    return houts, mouts, [(x[1], o[1:]) for x, o in zip(inv, iouts)], [(x[1], o[1:]) for x, o in zip(mem, oouts)]


TOBS_T = re.compile(r" T (-?\d+) (\S+) (\S+) (\S+) \{([^}]*)\}")


def parse_tobs(o):
    """-> {id: (valid, filename, ext, snapshot)}"""
    return {int(m.group(1)): m.groups()[1:] for m in TOBS_T.finditer(o)}


def parse_obs_crates(o):
    """v1.obs line -> {crate id: (valid, tracks list)} and {track id: (valid, containing)}"""
    toks = o.split()
    cr, tr = {}, {}
    i = 0
    while i < len(toks):
        if toks[i] == "C" and i + 9 < len(toks):
            n = int(toks[i + 9]) if toks[i + 9].lstrip("-").isdigit() else 0
            cr[int(toks[i + 1])] = (toks[i + 2], toks[i + 7])
            i += 10 + n
        elif toks[i] == "T" and i + 3 < len(toks):
            tr[int(toks[i + 1])] = (toks[i + 2], toks[i + 3])
            i += 4
        elif toks[i] == "raw":
            break
        else:
            i += 1
    return cr, tr


def live_part(o):
    """the part of an observation line that must survive close + load: listings, live objects, raw rows"""
    if " raw " in o and o.startswith("ok crates"):
        head, raw = o.split(" raw ", 1)
        toks = head.split()
        keep, i = [], 0
        while i < len(toks):
            if toks[i] == "C" and i + 9 < len(toks):
                n = int(toks[i + 9]) if toks[i + 9].isdigit() else 0
                if toks[i + 2] == "1":
                    keep.append(" ".join(toks[i:i + 10 + n]))
                i += 10 + n
            elif toks[i] == "T" and i + 3 < len(toks):
                if toks[i + 2] == "1":
                    keep.append(" ".join(toks[i:i + 4]))
                i += 4
            else:
                keep.append(toks[i])
                i += 1
        return " ".join(keep) + " raw " + raw
    if TOBS_T.search(o) or o.startswith("ok ["):
        head = o.split(" T ", 1)[0]
        return head + "".join(" T %d %s" % (k, " ".join(v)) for k, v in sorted(parse_tobs(o).items()) if v[0] == "1")
    return o


def judge(schema, script, hout, mout, inv, mem, families):
    """-> (divergence or None, [violations]) for one script.  `families`: which oracle families this part owns."""
    div = None
    for i, (l, h, m) in enumerate(zip(script, hout, mout)):
        if l.split()[0] in HARNESS_ONLY:
            continue
        if h.startswith("bad-op") and m.startswith("bad-op"):
            continue        # the line is outside the protocol on both sides (an unbound variable, a value out of range)
        if h != m:
            div = {"line": i, "input": l[:300], "impl": h[:700], "model": m[:700]}
            break
        if h.startswith("ub "):
            break
    vios = []

    def add(i, tag, what):
        vios.append({"line": i, "tag": tag, "what": what[:600]})

    for i, (l, h) in enumerate(zip(script, hout)):
        if h.startswith("ub ") and not l.startswith("#"):
            add(i, "lib1.ub", "%s -> %s" % (l[:80], h))
            break
    if "inv" in families:
        idx, outs = inv
        for i, o in zip(idx, outs):
            if o != "ok":
                conj = o.split()[2] if o.startswith("ok FAIL") and len(o.split()) > 2 else "protocol"
                add(i, "lib1.inv." + conj.split(",")[0], "whole-library invariant on the real dump: " + o)
                break
        for i, (l, h) in enumerate(zip(script, hout)):
            if l == "lib1.pragmas" and h != PRAGMA_OK and not h.startswith("ub"):
                add(i, "lib1.pragmas", "qualified PRAGMA checks answered " + h)
        for i, (l, h) in enumerate(zip(script, hout)):
            if l == "lib1.fk" and h != FK_OK and not h.startswith("ub"):
                add(i, "lib1.fk", "PRAGMA music.foreign_key_check after the call answered " + h)
                break
        for i, (l, h) in enumerate(zip(script, hout)):
            if l == "lib1.dump" and h.startswith("ok raw "):
                bad = dangling_refs(h)
                if bad:
                    add(i, "lib1.refs.dangling", "rows naming a track id without a Track row (table code, trackId): %s" % bad)
                    break
    if "members" in families:
        idx, outs = mem
        for i, o in zip(idx, outs):
            if o.startswith("violation"):
                tags = CR.tags_of(o)
                mine = [t for t in tags if t.startswith("members.")] or tags
                add(i, "lib1." + mine[0], o)
                break
        # every member of every crate is a live track in the sense of the TRACK calls
        last_obs = None
        for i, (l, h) in enumerate(zip(script, hout)):
            if l.startswith("v1.obs") and h.startswith("ok "):
                last_obs = parse_obs_crates(h)
            elif l == "lib1.tobs" and h.startswith("ok ") and last_obs:
                tob = parse_tobs(h)
                cr, tr = last_obs
                bad = None
                for c, (valid, tl) in cr.items():
                    for t in ([] if tl in ("-",) or tl.startswith("!") else [int(x) for x in tl.split(",")]):
                        st = tob.get(t)
                        if st is None or st[0] != "1" or st[3].startswith("!track_deleted"):
                            bad = "crate %d lists track %d, whose track handle answers %s" % (c, t, st)
                if bad:
                    add(i, "lib1.members.live-track", bad)
                    break
    if "observe" in families:
        i = 0
        while i < len(script):
            if script[i] == "lib1.dump" and i + 1 < len(script) and script[i + 1] == "lib1.bk":
                j = i + 2
                while j < len(script) and script[j] != "lib1.dump":
                    j += 1
                if j + 1 < len(script):
                    qs = script[i + 2:j]
                    n = len(qs) // 2
                    if hout[i] != hout[j] or hout[i + 1] != hout[j + 1]:
                        add(j, "lib1.observe.modified", "observers %s changed the stored tables: %s -> %s | %s -> %s" % (
                            "; ".join(qs[:n])[:200], hout[i + 1], hout[j + 1], hout[i][:150], hout[j][:150]))
                    else:
                        for k in range(n):
                            if hout[i + 2 + k] != hout[i + 2 + n + k]:
                                add(i + 2 + n + k, "lib1.observe.answer", "observer %s answered %s, then %s" % (
                                    qs[k][:80], hout[i + 2 + k][:120], hout[i + 2 + n + k][:120]))
                                break
                    i = j + 1
                    continue
            i += 1
    if "reopen" in families:
        for i, l in enumerate(script):
            if l == "reopen" and i >= 4 and i + 4 < len(script):
                if not hout[i].startswith("ok " + schema + " "):
                    add(i, "lib1.reopen.schema", "created as %s, load answers %s" % (schema, hout[i]))
                    break
                for d in (1, 2, 3, 4):       # v1.obs, lib1.tobs, lib1.dump, lib1.fk before / after
                    a, b = live_part(hout[i - 5 + d]), live_part(hout[i + d])
                    if a != b:
                        add(i + d, "lib1.reopen.observation", "%s before closing: %s | after loading: %s" % (
                            script[i + d].split()[0], a[:400], b[:400]))
                        break
                else:
                    continue
                break
    return div, vios


DUMP_SEC = re.compile(r" (Track|OT) (\S+)")
OT_NAMES = {1: "PlaylistTrackList", 2: "HistorylistTrackList", 3: "PreparelistTrackList", 5: "CopiedTrack", 6: "ListTrackList"}


def dump_pairs(tok):
    return [] if tok in ("()", "-") else [tuple(x.split(",")) for x in tok.strip("()").split(")(")]


def dangling_refs(dump):
    """direct oracle on the REAL dump: every (table, trackId) of the OT section names an id of the Track section"""
    head = dump.split(" R ", 1)[0]
    sec = {}
    for m in DUMP_SEC.finditer(head):
        sec.setdefault(m.group(1), m.group(2))
    tids = {x[0] for x in dump_pairs(sec.get("Track", "()"))}
    return ["%s:%s" % (OT_NAMES.get(int(x[0]), x[0]), x[1]) for x in dump_pairs(sec.get("OT", "()")) if x[1] not in tids]


def planted_count(script, hout):
    return sum(1 for l, h in zip(script, hout) if l.startswith("lib1.plantrefs") and h.startswith("ok planted"))


def cut(script, line):
    """the prefix of a script up to the observation block after `line`"""
    j = line + 1
    while j < len(script) and script[j].split()[0] in ("v1.obs", "lib1.tobs", "lib1.dump", "lib1.fk", "lib1.bk", "lib1.pragmas"):
        j += 1
    return script[:j]


def shrink(schema, script, tag, families, budget=40):
    """drop whole (call + observation block) groups while the same oracle tag is still reported"""
    def fails(s):
        h, m, iv, mm = execute([s], [schema])
        _, v = judge(schema, s, h[0], m[0], iv[0], mm[0], families)
        return any(x["tag"] == tag for x in v)
    head = script[:4]
    groups, cur = [], []
    for l in script[4:]:
        if cur and l.split()[0] not in OBS:
            groups.append(cur)
            cur = []
        cur.append(l)
    if cur:
        groups.append(cur)
    i = len(groups) - 2
    while i >= 0 and budget > 0:
        cand = groups[:i] + groups[i + 1:]
        budget -= 1
        if fails(head + [x for g in cand for x in g]):
            groups = cand
        i -= 1
    return head + [x for g in groups for x in g]


def run_part(ctx, pid, plan, families, **kw):
    """plan: [(profile, nops, count)] per schema."""
    t0 = time.time()
    rng = random.Random(1000003 * ctx.seed + sum(map(ord, pid)) + (0 if ctx.tier == "quick" else 7))
    scripts, meta, hist = [], [], {}
    for sch in schemas_for(ctx, kw.pop("nschemas", 3)):
        for (profile, nops, count) in plan:
            for k in range(count):
                disk = kw.get("disk", False) or (kw.get("disk_share", 0) and rng.random() < kw["disk_share"])
                lines, h = gen(rng, sch, ctx.tier, profile, nops, disk=disk, reopen=kw.get("reopen", 0.0),
                               observers=kw.get("observers", 0.0), track_ops=kw.get("track_ops", 0.45))
                scripts.append(lines)
                meta.append(sch)
                for a, b in h.items():
                    hist[a] = hist.get(a, 0) + b
    if kw.get("witness", True):
        for sch in SCHEMAS:
            scripts.append(witness(sch, disk=kw.get("disk", False)))
            meta.append(sch)
            hist["witness"] = hist.get("witness", 0) + 1
    houts, mouts, invs, mems = execute(scripts, meta)
    divergences, violations = [], []
    outcomes, distinct, steps = {}, set(), 0
    for s, h, m, iv, mm, sch in zip(scripts, houts, mouts, invs, mems, meta):
        for l, r in zip(s, h):
            w = l.split()[0]
            if w == "lib1.dump":
                distinct.add(r)
                steps += 1
            elif w not in OBS:
                k = w + (":" + l.split()[2] if w in ("set", "get") and len(l.split()) > 2 else "") + " -> " + (
                    " ".join(r.split()[:2]) if r.startswith(("throw", "ub")) or w == "lib1.plantrefs" else r.split()[0] if r else "?")
                outcomes[k] = outcomes.get(k, 0) + 1
        div, vios = judge(sch, s, h, m, iv, mm, families)
        if div:
            div["schema"] = sch
            div["script"] = cut(s, div["line"])
            divergences.append(div)
        for v in vios:
            v["schema"] = sch
            v["script"] = cut(s, v["line"])
            violations.append(v)
    vout, seen = [], set()
    for v in violations:
        if v["tag"] in seen:
            continue
        seen.add(v["tag"])
        body = shrink(v["schema"], v["script"], v["tag"], families) if len(seen) <= 4 else v["script"]
        vout.append({"tag": "oracle", "signature": {"family": "v1-lib1", "effect": v["tag"]},
                     "header": {"kind": "history", "what": v["what"][:300], "schema": v["schema"], "oracle": v["tag"]},
                     "body": body})
    divs = [{"input": "%s: line %d: %s  (after: %s)" % (d["schema"], d["line"], d["input"][:200], " / ".join(
                 x[:100] for x in d["script"][:d["line"]] if x.split()[0] not in OBS)[-300:]),
             "impl": d["impl"], "model": d["model"]} for d in divergences[:8]]
    return {"ok": not vout and not divergences, "evaluations": steps, "distinct_nontrivial": len(distinct),
            "samples": [], "histograms": {"generated": hist, "impl_outcomes": outcomes,
                                          "schemas": {s: meta.count(s) for s in sorted(set(meta))}},
            "divergences": divs, "violations": vout,
            "extra": {"scripts": len(scripts), "wall_s": round(time.time() - t0, 1)}}


def replay(ctx, hdr, body, families=("inv", "members", "observe", "reopen")):
    script = [l for l in body if l.strip()]
    if not script or script[0].strip() != "#mode lib1":
        return None
    schema = script[1].split()[1]
    h, m, iv, mm = execute([script], [schema])
    div, vios = judge(schema, script, h[0], m[0], iv[0], mm[0], families)
    out = []
    bad_lines = {v["line"]: v for v in vios}
    for i, (l, a, b) in enumerate(zip(script, h[0], m[0])):
        bad = (a != b and l.split()[0] not in HARNESS_ONLY) or i in bad_lines
        out.append("%s\n   impl:   %s\n   model:  %s%s" % (l[:200], a[:500], b[:500],
                                                          ("   <-- " + (bad_lines[i]["tag"] + ": " + bad_lines[i]["what"][:300] if i in bad_lines else "model differs")) if bad else ""))
    return (div is None and not vios), "\n".join(out)
