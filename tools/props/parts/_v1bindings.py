"""Shared by the 1.x parts of C01 and C06: the regenerated storage bindings (tools/tr_v1bindings.py ->
lean/EngineModel/Gen/BindingsV1.lean) and the theorems decided on them (Properties/C01V1Bindings.lean)."""
import os, subprocess, sys
from common import VERIF

NS = "EngineModel.Properties.C01V1Bindings."
LEAN_MODULE = "Properties.C01V1Bindings"
# decided on the regenerated tables / proved of the hand model for all rows, snapshots, values
THEOREMS_C01 = [NS + t for t in [
    "v1_bindings_aligned", "v1_meta_types_injective", "v1_same_type_read_write", "v1_model_uses_regenerated_bindings",
    "v1_model_snapshot_meta", "v1_model_write_tables"]]
THEOREMS_C06 = [NS + t for t in [
    "v1_meta_types_injective", "v1_same_type_read_write", "v1_model_uses_regenerated_bindings",
    "v1_model_str_accessors", "v1_model_int_accessors", "v1_model_getters_read_only"]]
ASSUMPTION = (
    "1.x: the storage bindings (which SQL column / MetaData type number each operand of create_track, update_track, the bulk "
    "MetaData / MetaDataInteger statements, set_performance_data, the SELECTs of get_track / get_performance_data, every "
    "getter, setter and snapshot() uses) are regenerated from clang's typed AST of engine_storage.cpp / engine_track_impl.cpp "
    "/ metadata_types.hpp on every run (tools/tr_v1bindings.py -> Gen/BindingsV1.lean) and DECIDED by the kernel to be aligned "
    "and equal to the tables of the hand model (Properties/C01V1Bindings.lean); the translator fails closed (unsupported "
    "shape => the committed tables stay, `unsupported-node` in the evidence, the differential replay alone decides); "
    "trusted: clang's AST, the SQL-text splitter of the translator, the naming tables eval* / put* / locEq of "
    "TracksV1/Bindings.lean (column / helper name -> model projection), which the differential replay of raw rows samples")
TRUSTED = "tools/tr_v1bindings.py (clang-AST translator of the 1.x storage statements and accessors to Lean binding tables)"


def translate():
    r = subprocess.run([sys.executable, os.path.join(VERIF, "tools", "tr_v1bindings.py")],
                       stdout=subprocess.PIPE, stderr=subprocess.PIPE, text=True)
    return (r.stdout.strip() or r.stderr.strip()[-200:])


TRANSLATORS = {"v1bindings": translate}
