"""C08, whole-library 2.x part (composite-v2) — crate contents are exactly the LIVE tracks (rows of the Track table)
added and not removed, on the composite model of all 2.x tables."""
import random
from common import *
import runner
from props.parts import _lib2 as L

NS = "EngineModel.Properties.C08Lib2."
LEAN_MODULES = ["Properties.C08Lib2"]
THEOREMS = [NS + t for t in [
    "C08Lib2_composition", "C08Lib2_refines", "C08Lib2_tracks_exactly_live_members", "C08Lib2_membership_rows",
    "C08Lib2_frame_track_calls", "C08Lib2_frame", "C08Lib2_remove_track_erases", "C08Lib2_noops",
    "C08Lib2_add_requires_live_track", "C08Lib2_removed_crate_gone"]]
ASSUMPTIONS = [
    "2.x composite (C08): as C11_lib2; entries of other databases are written by the harness through "
    "playlist_entity_table::add_back with a synthetic uuid (what other software sharing the library does)",
]
MANIFEST_TEXT = ("Schema 2.x, whole library (composite model Lib/V2.lean): after ANY interleaving of create_track (arbitrary "
                 "snapshots, refused ones included), update, the 26 setters, remove_track, crate creation / renaming / "
                 "re-parenting / removal, add / remove / clear tracks, observers and entries of other databases, the crate "
                 "tables of the composite ARE the crate package's tables on the history as that package sees it "
                 "(C08Lib2_composition), the Spec.Members judge never objects (C08Lib2_refines), and crate.tracks() lists, "
                 "without duplicates, exactly the Spec's contents, every listed id being the id of a ROW of table Track of "
                 "the same state that track_by_id finds (C08Lib2_tracks_exactly_live_members); memberships are entity rows "
                 "referencing live Playlist and Track rows; track calls change no membership (frame across table families), "
                 "crate calls only the pairs they are about; remove_track erases the track from the Track table, every "
                 "crate and the ChangeLog in one transaction or changes nothing; add of a present / remove of an absent "
                 "track are no-ops; add_track of an id without a Track row is refused.")
TRUSTED_EXTRA = []
replay = L.replay
WANT = ("spec", "live", "failed", "inv_core")


def tie(ctx):
    rng = random.Random(ctx.seed * 104729 + 8)
    schemas = L.schemas_for(ctx)
    n = 6 if ctx.tier == "quick" else 60
    scripts = []
    hid = 500
    for s in schemas:
        for _ in range(n):
            hid += 1
            ops = L.gen_history(rng, ctx.tier, hid, rng.choice([40, 70]), foreign=True)
            scripts.append(L.wrap(s, ops, "mem", rows_every=1000, create="v2.create"))
    results = L.run_all(scripts)
    return L.finish(ctx, "C08_lib2", results,
                    "2.x whole library: seeded histories on %s interleaving real track calls (create_track with full "
                    "snapshots incl. refused ones, update, setters, remove_track) with crate and membership calls and entries "
                    "of OTHER databases sharing numeric track ids; after every call the full crate observation and the dump of "
                    "all tables vs the composite Model; direct oracles on the library's own answers: Spec.Forest / Spec.Members "
                    "(contents = added and not removed, no duplicates), every id crate.tracks() lists is the id of a row of "
                    "table Track in the dump of the same state, database.tracks() = the Track table, a call that threw "
                    "changed nothing" % ", ".join(schemas),
                    [" ; ".join(l for l in scripts[0][1:40] if not l.startswith(("v2.obs", "lib2.")))[:400]],
                    WANT, extra_hist={"schemas": schemas, "scripts": len(scripts)})
