"""C15, part faults: no public call has undefined behaviour on states left behind by FAILED calls.

A state is "reachable through the API" also when a mutating call before it failed half-way: an SQLite statement
failing at any statement position of the call (BEGIN and COMMIT included), or a statement refused by a constraint
(UNIQUE (title, parentListId) on the last UPDATE of a 2.x crate move, a name already taken, a missing id).

Stream (both crate generations; the model side is the statement program of the call under a fault plan —
Api/FaultsV2.callF, Api/FaultsV1.callF — driver modes `c15fv2`, `c15fv1`):

  pass 1 (harness only)  a reachable prefix (sibling lists with a first / middle / last element at the root and below,
                         crates with several tracks, tracks in several crates, stale handles), then a list of mutating
                         calls (every crate / membership / track operation of the crate API at first / middle / last
                         positions, the constraint refusals, calls through stale handles, seeded adversarial calls),
                         each bracketed by `fault 1000000` / `fault.status`: the number n of faultable statements the
                         real call issues on that state is OBSERVED, not predicted;
  pass 2 (both sides)    the same calls; before each, for EVERY k < n: `fault k n`, the call (must throw), `fault.status`
                         (must have fired), then the observation block: v*.obs (every query of every crate and track
                         from the database, raw tables) and every query through the live and stale handles the script
                         holds; then the call without fault and the block again.

Direct oracle (on the implementation's own answers): no line ends in `ub …` / `missing-output`; a faulted call
throws.  The observation after a thrown call is compared with the one before: a difference is a PARTIAL UPDATE —
C14's subject, counted in the histograms here, not a C15 violation; from that point on the model (which rolled
back) and the library are in different states, so the rest of that script is judged by the direct oracle only.
Tie: outcome of every line equal to the model's (`ok <text>` literally, `throw` as a class, `ub` must match).
"""
import json, random
from common import *
import runner
from props.parts import _c15 as K
import gen_lib as GL

NS = "EngineModel.Properties.C15Faults."
NST = "EngineModel.Properties.C15FaultsTracks."
NST1 = "EngineModel.Properties.C15FaultsTracksV1."
LEAN_MODULES = ["Properties.C15Faults", "Properties.C15FaultsTracks", "Properties.C15FaultsTracksV1"]
THEOREMS_TRACKS = [NST + t for t in [
    "v2t_C15_failed_call_restores", "v2t_C15_fault_inside_throws", "v2t_C15_call_under_faults",
    "v2t_C14_failed_call_unchanged", "v2t_C15_bridge", "v2t_C15_after_faults_inv", "v2t_C15_after_faults_reachable",
    "v2t_C15_after_faults_no_ub", "v2t_C15_after_faults_no_ub_from", "v2t_C15_after_faults_stale_handle",
    "v2t_C15_without_scope_counterexample"]] + [NST1 + t for t in [
    "v1t_C15_failed_call_restores", "v1t_C15_fault_inside_throws", "v1t_C15_call_under_faults",
    "v1t_C14_failed_call_unchanged", "v1t_C15_after_faults_inv", "v1t_C15_after_faults_reachable",
    "v1t_C15_after_faults_no_ub"]]
THEOREMS = [NS + t for t in [
    "v2c_C15_failed_call_restores", "v2c_C15_fault_inside_throws", "v2c_C15_call_under_faults",
    "v2c_C15_after_faults_inv", "v2c_C15_after_faults_no_ub", "v2c_C15_after_faults_prefix_queries_no_ub",
    "v2c_C15_without_scope_counterexample",
    "v1c_C15_failed_call_restores", "v1c_C15_fault_inside_throws", "v1c_C15_call_under_faults",
    "v1c_C15_after_faults_inv", "v1c_C15_after_faults_no_ub", "v1c_C15_without_scope_counterexample"]] + THEOREMS_TRACKS
ASSUMPTIONS = [
    "faults: a failed call is the statement program of the call (the programs C14 proves all-or-nothing: "
    "Db/V2CratesStmts.stmts, Api/CratesV1Stmts.stmts) on the connection model of Spec/Txn.lean under a fault plan — "
    "statement-level atomicity and BEGIN / COMMIT / ROLLBACK of SQLite are assumed (SqliteSemantics); faults are at "
    "statement granularity; which real statement corresponds to which model statement is not compared (first ↦ first, "
    "last ↦ last, the others in between), only that every real position k < n raises and leaves the state as it was",
    "faults: a call that throws by itself from a guard issues a prefix of the program of the successful call; under a "
    "plan the model answers `throw` with the API model's state (the guard's or the fault's exception — the class is "
    "not part of C15); a statement refused by a constraint is a write function answering `none` inside the program",
    "faults, 2.x tracks: the programs are TracksV2/Stmts.topStmts over the statement-level Track table (C14's: the five "
    "scoped setters and remove_track at UPDATE / DELETE granularity, the other calls one write); the bridge to the C15 "
    "track model (v2t_C15_bridge: TDb.step = C15TracksV2.step on the row store the getters read) is a theorem; the "
    "memberships of a removed track are outside the Track-table model (remove_track = the scope of its DELETE); 1.x "
    "tracks: the programs are TracksV1/Stmts.topStmts at CALL granularity (one write = the joint effect of the call inside "
    "the scope engine_track_impl.cpp gives it: the model has no statement level, so a fault between two statements of a "
    "scoped call is not a position of the 1.x theorem — C14's scope table + the harness fault stream cover it); the model "
    "side of the fault stream exists for 2.x tracks only (mode c15ftv2)",
]
MANIFEST_TEXT = ("Failed calls: for ALL histories of crate / membership calls x ALL fault plans (a statement failing at any "
                 "position of any call, BEGIN / COMMIT included, or refused by a constraint) x ALL arguments the state "
                 "after the history satisfies the invariant the no-ub theorems need, so every query and every later call "
                 "is free of `ub` (v2c_C15_after_faults_no_ub, v1c_C15_after_faults_no_ub: composition of C14's "
                 "all-or-nothing with the reachable-state theorems); without the transaction scope the same move leaves "
                 "a sibling list without a tail and the ordered walk is `ub` (v2c_C15_without_scope_counterexample). "
                 "Tied by a fault stream: every statement position of every mutating crate call on the sanitizer harness, "
                 "every query through live and stale handles after each failure.  2.x TRACKS: create_track / update / every "
                 "setter / remove_track as their C14 statement programs under any fault plans — a failed call leaves the "
                 "Track table equal to the prior one (v2t_C14_failed_call_unchanged), the statement-level table model IS "
                 "the C15 track model on the row store the getters read (v2t_C15_bridge), so the state after any history "
                 "with failures is a state of the fault-free model (v2t_C15_after_faults_reachable) and every getter, "
                 "snapshot(), every later call under any plan is free of `ub`, removed handles stay invalid "
                 "(v2t_C15_after_faults_no_ub, v2t_C15_after_faults_stale_handle); without the scope set_relative_path "
                 "leaves a half-written row (v2t_C15_without_scope_counterexample).  Tracks of both generations are tied "
                 "by the fault stream on the harness (create / update / setters / remove, duplicate path: a fault at every "
                 "statement position, then snapshot() and getters of every track; 2.x also on the model, line by line).  1.x "
                 "TRACKS: the same composition at call granularity over the tables of the C15 1.x track model itself "
                 "(v1t_C15_after_faults_no_ub, v1t_C14_failed_call_unchanged, v1t_C15_after_faults_reachable; fault "
                 "positions BEGIN / the call's joint write / COMMIT).")
TRUSTED_EXTRA = []

FAMILIES = {
    "v2": dict(mode="c15fv2", schemas=GL.SCHEMAS_V2, create="v2.create %s mem", mktrack="v2.mktrack %s %s", obs="v2.obs",
               extra_obs=["v2.raw"]),
    "v1": dict(mode="c15fv1", schemas=GL.SCHEMAS_V1, create="create %s mem", mktrack="v1.mktrack %s %s", obs="v1.obs 41 42 4141 58",
               extra_obs=[]),
}


def hx(b):
    return K.hexs(b)


def prefix(fam, schema):
    F = FAMILIES[fam]
    mk = lambda v, i: F["mktrack"] % (v, hx(b"m/%s.mp3" % v.encode()) if fam == "v2" else str(i))
    return ["#mode " + F["mode"], F["create"] % schema,
            # roots a, d, g (first / middle / last); a has children b, e, f; c under b; d has a child named like b
            "mkroot a 41", "mksub b a 42", "mksub c b 43", "mkroot d 44", "mksub e a 45", "mksub f a 46", "mkroot g 47",
            "mksub h d 42", "mksub i d 48",
            mk("t1", 1), mk("t2", 2), mk("t3", 3), mk("tx", 4),
            "addtrack a t1", "addtrack a t2", "addtrack a t3", "addtrack b t2", "addtrack c t2", "addtrack d t2",
            "addtrack a tx", "addtrack d tx", "addtrack e t3",
            # stale handles: x, y (crates), tx (track)
            "mkroot x 58", "mksub y x 59", "addtrack y t1", "rmcrate x", "rmtrack tx"]


CRATES0 = ["a", "b", "c", "d", "e", "f", "g", "h", "i", "x", "y"]
TRACKS0 = ["t1", "t2", "t3", "tx"]


def fixed_calls(fam):
    """every mutating operation of the crate API at first / middle / last positions, the constraint refusals,
    stale handles.  (name, line, new crate var, new track var)"""
    mk = (lambda v, i: "v2.mktrack %s %s" % (v, hx(b"m/%s.mp3" % v.encode()))) if fam == "v2" else \
         (lambda v, i: "v1.mktrack %s %d" % (v, i))
    L = [
        # moves: refused by a name collision (b first sibling of a; d already has a `42`), then real ones
        "setparent b d",            # UNIQUE (title, parent) refuses the last statement of the move (first sibling)
        "setparent e d",            # middle sibling, succeeds: e last under d
        "setparent e a",            # back: e now last under a
        "setparent f -",            # last sibling to the root list
        "setparent d a",            # middle root becomes a sub-crate (with its sub-tree and tracks)
        "setparent d -",
        "setparent h a",            # refused: a has a `42` (b); h first sibling under d
        "setparent a c",            # refused by the descendant test (a guard, no statement)
        "setparent a a",
        # renames: refused (a sibling has the name), real (with a sub-tree: 1.x rewrites every path below)
        "rename e 42", "rename b 4242", "rename a 4141", "rename g 41", "rename g 4747",
        # creations: taken name (guard), first / middle / last positions
        "mksub n1 a 4242", "mkroot n2 4141", "mksub n3 a 61", "mkroot n4 62",
    ]
    if fam == "v2":
        L += ["mksub_after n5 a 63 b", "mksub_after n6 a 64 n3", "mkroot_after n7 65 a", "mkroot_after n8 66 b",
              "mksub_after n9 a 4242 e"]
    L += [
        # memberships: new, already a member, missing track id, stale track, first / middle / last entry
        "addtrack e t1", "addtrack e t1", "addtrackid e 999", "addtrack e tx", "addtrack y t1",
        "rmtrackfrom a t2", "rmtrackfrom a t1", "rmtrackfrom a t2", "rmtrackfrom g t1", "cleartracks a", "cleartracks g",
        "addtrack a t3", "addtrack a t1",
        mk("u1", 11), "rmtrack t2",  # a track held by several crates
        "rmtrack tx",               # stale track
        # removal: a leaf with tracks, a sub-tree with tracks, stale
        "rmcrate e", "rmcrate b", "rmcrate x", "rename y 70", "setparent y a", "rmcrate a", "rmcrate d",
    ]
    return L


def new_vars(line):
    t = line.split()
    if t[0] in ("mkroot", "mksub", "mkroot_after", "mksub_after", "getcrate"):
        return [t[1]], []
    if t[0] in ("v1.mktrack", "v2.mktrack"):
        return [], [t[1]]
    return [], []


MUTATORS = ("mkroot", "mksub", "mkroot_after", "mksub_after", "rename", "setparent", "rmcrate", "v1.mktrack", "v2.mktrack",
            "rmtrack", "addtrack", "addtrackid", "rmtrackfrom", "cleartracks")


def random_calls(fam, rng, uid, n):
    """seeded adversarial mutating calls (the generator of the crate part of this family, queries dropped)"""
    from props.parts import C15_crates_v2, C15_crates_v1
    G = C15_crates_v2 if fam == "v2" else C15_crates_v1
    crates, tracks = list(CRATES0) + ["n3", "n4"], list(TRACKS0)
    out = []
    j = 0
    while len(out) < n and j < 40 * n:
        j += 1
        l = G.adversarial(rng, uid * 1000 + j, crates, tracks)
        if l.split()[0] in MUTATORS:
            out.append(l)
    return out


def obs_block(fam, crates, tracks, rng=None):
    """the observation after a call: everything from the database, and every query through every handle held"""
    F = FAMILIES[fam]
    L = [F["obs"]] + F["extra_obs"] + ["db.q root_crates", "db.q crates", "db.q tracks", "db.q crate_by_id 1",
                                       "db.q crates_by_name 42", "db.q root_by_name 41"]
    for c in crates:
        for q in ("valid", "name", "parent", "children", "descendants", "tracks", "sub_by_name 42"):
            L.append("crate.q %s %s" % (c, q))
    for t in tracks:
        L.append("get %s valid" % t)
    return L


def pass1_script(fam, schema, calls):
    L = prefix(fam, schema)
    idx = []
    for c in calls:
        L.append("fault 1000000 0")
        idx.append(len(L))
        L.append(c)
        L.append("fault.status")
    return L, idx


def seen_of(status_line):
    for tok in status_line.split():
        if tok.startswith("seen="):
            return int(tok[5:])
    return None


class Shadow:
    """parents of the crates the script holds, maintained from the outcomes of the recording pass (which runs
    without faults) — used only to choose the probing calls after a failed move"""

    def __init__(self):
        self.parent = {}

    def apply(self, line, outcome):
        if not outcome.startswith("ok"):
            return
        t = line.split()
        if t[0] in ("mkroot", "mkroot_after"):
            self.parent[t[1]] = "-"
        elif t[0] in ("mksub", "mksub_after"):
            self.parent[t[1]] = t[2]
        elif t[0] == "setparent" and t[1] in self.parent:
            self.parent[t[1]] = t[2]
        elif t[0] == "rmcrate" and t[1] in self.parent:
            gone = {t[1]}
            changed = True
            while changed:
                changed = False
                for c, q in list(self.parent.items()):
                    if q in gone and c not in gone:
                        gone.add(c); changed = True
            for c in gone:
                self.parent.pop(c, None)

    def probes(self, line):
        """further mutating calls after a FAILED move of c under p: the reverse move (p under c) and p back to where it
        was.  On a library that rolled the failed move back both are ordinary moves; on one that kept a part of it (the
        parent link without the ancestor closure, a sibling list without a tail) the reverse move is where a cycle would
        be accepted."""
        t = line.split()
        if t[0] == "setparent" and len(t) == 3 and t[2] != "-" and t[1] != t[2] and t[1] in self.parent and t[2] in self.parent:
            return ["setparent %s %s" % (t[2], t[1]), "setparent %s %s" % (t[2], self.parent[t[2]])]
        return []


def pass2_script(fam, schema, calls, counts, outcomes):
    """tags: (kind, call index, k, observation block id)"""
    L = prefix(fam, schema)
    tags = [("prefix", -1, -1, -1)] * len(L)
    crates, tracks = list(CRATES0), list(TRACKS0)
    sh = Shadow()
    for l in L:
        sh.apply(l, "ok")
    bid = [0]

    def block(ci, k):
        bid[0] += 1
        for l in obs_block(fam, crates, tracks):
            L.append(l)
            tags.append(("obs", ci, k, bid[0]))
    block(-1, -1)
    for ci, (c, n, oc) in enumerate(zip(calls, counts, outcomes)):
        for k in range(n):
            L.append("fault %d %d" % (k, n)); tags.append(("arm", ci, k, bid[0]))
            L.append(c); tags.append(("faulted", ci, k, bid[0]))
            L.append("fault.status"); tags.append(("status", ci, k, bid[0]))
            block(ci, k)
            pr = sh.probes(c)
            if pr:
                for l in pr:
                    L.append(l); tags.append(("probe", ci, k, bid[0]))
                block(ci, k)
        L.append(c); tags.append(("call", ci, -1, bid[0]))
        sh.apply(c, oc)
        nc, nt = new_vars(c)
        crates += [v for v in nc if v not in crates]
        tracks += [v for v in nt if v not in tracks]
        block(ci, n)
    return L, tags


def opkey(l):
    t = l.split()
    if t[0] in ("crate.q", "get") and len(t) > 2:
        return "%s %s" % (t[0], t[2])
    if t[0] == "db.q":
        return "db.q " + t[1]
    return t[0]


def judge(fam, runs, hist):
    """runs: list of (script, tags, impl outputs, model outputs, reports, pass-1 outcome per call)"""
    divergences, violations = [], {}
    evals = 0
    seen = set()
    for script, tags, ho, mo, reports, p1 in runs:
        desync = False
        last_obs = None      # observation block (impl) before the current call
        cur = []
        cur_key = None
        blocks = {}
        # observation blocks by id
        for l, tg, h in zip(script, tags, ho):
            if tg[0] == "obs":
                blocks.setdefault(tg[3], []).append(h)
        done_div = False
        for k, (l, tg, h, m) in enumerate(zip(script, tags, ho, mo)):
            if l.startswith("#") or h == "skipped-after-crash":
                continue
            evals += 1
            kind, ci, pos, bid = tg
            if kind != "prefix":
                seen.add((script[1], l, kind if kind != "obs" else "obs%d" % min(pos, 99)))
            c = K.cls(h)
            if kind in ("faulted", "call", "probe"):
                hist["outcome_" + kind][c] = hist["outcome_" + kind].get(c, 0) + 1
            if kind == "faulted":
                op = opkey(l)
                hist["fault_positions_per_op"][op] = hist["fault_positions_per_op"].get(op, 0) + 1
            # ---- direct oracle: no undefined behaviour
            if h.startswith("ub") or h.startswith("missing-output"):
                failed = next((script[j] for j in range(k, -1, -1) if tags[j][0] in ("faulted", "call")), "")
                fpos = next((tags[j] for j in range(k, -1, -1) if tags[j][0] in ("faulted", "call")), ("", -1, -1, -1))
                sig = {"family": fam, "part": "faults", "op": opkey(l), "ub": h, "after": opkey(failed) if failed else "-"}
                key = json.dumps(sig, sort_keys=True)
                if key not in violations:
                    rep = next((r for r in reports if r.get("line") == l), None)
                    what = "public call ended in undefined behaviour: %s   call: %s   (after `%s`%s)" % (
                        h, l[:120], failed[:80], " failed at statement %d" % fpos[2] if fpos[0] == "faulted" else "")
                    violations[key] = {"tag": "ub_faults_" + fam, "signature": sig,
                                       "header": {"kind": "script", "part": "faults", "what": what},
                                       "body": minimal_replay(script, tags, k) + ["impl(last): " + h, "model(last): " + m] +
                                               (["stderr: " + x for x in rep["stderr"].split("\n")[-12:]] if rep else [])}
                break
            # ---- direct oracle: a faulted call throws, the fault fired
            if kind == "faulted" and c != "throw" and not desync:
                divergences.append({"input": " ; ".join(script[max(1, k - 2):k + 1])[-600:], "script": script[1],
                                    "impl": "a call with a fault injected inside it did not throw: " + h[:200], "model": m[:200]})
            if kind == "status" and "fired=1" not in h and not desync:
                divergences.append({"input": " ; ".join(script[max(1, k - 3):k + 1])[-600:], "script": script[1],
                                    "impl": "fault did not fire (the call's statement sequence is not a function of state "
                                            "and arguments?): " + h[:200], "model": m[:200]})
            # ---- partial update (C14's subject): observation after a thrown call differs from the one before
            if kind == "status":
                before = blocks.get(bid)          # the block before the armed call
                after = blocks.get(bid + 1)       # the block right after fault.status
                if before is not None and after is not None and before != after and not desync:
                    desync = True
                    hist["partial_updates"] += 1
                    if len(hist["partial_update_examples"]) < 4:
                        hist["partial_update_examples"].append("%s: `%s` failed at statement %d" % (script[1], script[k - 1][:80], pos))
            if kind == "call" and ci < len(p1) and K.cls(h) != K.cls(p1[ci]) and not desync:
                divergences.append({"input": l, "script": script[1],
                                    "impl": "the call without fault answers %s here, %s in the recording pass" % (h[:100], p1[ci][:100]),
                                    "model": m[:200]})
            # ---- tie
            if not done_div and not desync:
                if kind == "status":
                    same = ("fired=1" in h) == ("fired=1" in m)
                elif K.const_query(l):
                    same = (c in ("ok", "throw")) == (K.cls(m) in ("ok", "throw"))
                else:
                    same = K.canon(h, fam == "v1") == K.canon(m, fam == "v1")
                if not same:
                    divergences.append({"input": " ; ".join(script[max(1, k - 4):k + 1])[-900:], "script": script[1],
                                        "impl": h[:400], "model": m[:400]})
                    done_div = True
            elif desync and K.cls(m) == "ub":
                divergences.append({"input": l, "script": script[1], "impl": h[:200], "model": m[:200]})
    return divergences, list(violations.values()), evals, len(seen)


def minimal_replay(script, tags, k):
    """the script up to the failing line without the observation blocks and the spent fault rounds of earlier calls:
    prefix + every earlier call once (without fault) + the failing call's faulted rounds up to the failing one + the line"""
    ci, pos = tags[k][1], tags[k][2]
    out = []
    for j in range(k):
        kind, cj, pj, _ = tags[j]
        if kind == "prefix":
            out.append(script[j])
        elif kind == "call" and cj < ci:
            out.append(script[j])
        elif cj == ci and kind in ("arm", "faulted", "status", "call", "probe"):
            if kind == "call" or pj == pos:
                out.append(script[j])
    cand = out + [script[k]]
    try:
        o, _ = runner.run_harness_script(cand, watchdog=15, stateless=False)
        if o and (o[-1].startswith("ub") or o[-1].startswith("missing-output")) and all(not x.startswith("ub") for x in o[:-1]):
            return cand
    except Exception:
        pass
    return script[:k + 1]


# ---------------------------------------------------------------------------------------------------------------
# tracks (both generations).  2.x: harness and model (mode c15ftv2 = Api/FaultsTracksV2.callF, the semantics of
# v2t_C15_after_faults_no_ub; design/C15_faults.md §6); 1.x: harness only (no history-with-failures theorem yet).
# The direct oracle is the same: after a fault at EVERY statement position of every
# create / update / setter / remove call (and after a duplicate relative path: UNIQUE(path)), every getter, snapshot()
# and a further mutating call must complete or throw.

TRACK_MUT = ("set", "update", "mktrack", "rmtrack")
TRACK_MODE_V2 = "c15ftv2"


def track_plan(fam, rng, tier, schema, hid, nadv):
    from props.parts import C15_tracks_v2, C15_tracks_v1
    if fam == "v2":
        L = C15_tracks_v2.gen_script(rng, tier, schema, hid, nadv)
        npre = 5        # mode, create, 3 x mktrack
    else:
        L = C15_tracks_v1.gen_script(rng, tier, schema, hid, nadv, "create")
        npre = 5
    pre = [L[0]] + L[1:npre]      # `#mode c15tv2` / `#mode c15tv1`: the harness skips it; names the replay
    if fam == "v2":
        pre[0] = "#mode " + TRACK_MODE_V2     # the model side: Api/FaultsTracksV2.callF (Driver/Cmds/C15FaultsTracks.lean)
    first = next(l for l in pre if l.startswith("mktrack ta "))
    calls = [l for l in L[npre:] if l.split()[0] in TRACK_MUT]
    # duplicate relative path (UNIQUE(path)): the snapshot of `ta` again, under a new handle; then a setter moving tb onto it
    calls.insert(len(calls) // 2, "mktrack dup%d %s" % (hid, first.split(" ", 2)[2]))
    return pre, calls


def track_obs(tracks):
    L = ["db.q tracks"]
    for t in tracks:
        L += ["get %s valid" % t, "snap %s" % t, "get %s hot_cues" % t, "get %s loops" % t, "get %s waveform" % t,
              "get %s beatgrid" % t, "get %s duration" % t, "get %s relative_path" % t]
    return L


def track_stream(ctx, hist):
    rng = random.Random(ctx.seed * 6007 + 1508)
    thorough = ctx.tier == "thorough"
    from props.parts import _tracksv2_gen as G2
    plans = []
    hid = 0
    for fam, schemas in (("v2", GL.SCHEMAS_V2), ("v1", GL.SCHEMAS_V1)):
        for s in K.rotate(schemas, ctx.seed + (5 if fam == "v1" else 2), len(schemas) if thorough else 2):
            hid += 1
            pre, calls = track_plan(fam, rng, ctx.tier, s, hid, 60 if thorough else 40)
            plans.append((fam, s, pre, calls))
    # pass 1
    p1 = []
    for fam, s, pre, calls in plans:
        L = list(pre)
        idx = []
        for c in calls:
            L.append("fault 1000000 0"); idx.append(len(L)); L.append(c); L.append("fault.status")
        p1.append((L, idx))
    r1 = runner.run_harness([x[0] for x in p1], watchdog=15, stateless=False)
    violations, divergences = [], []
    scripts2 = []
    for (fam, s, pre, calls), (L1, idx), (ho, reports) in zip(plans, p1, r1):
        bad = next((k for k, h in enumerate(ho) if h.startswith("ub") or h.startswith("missing-output")), None)
        if bad is not None:
            violations.append(ub_violation(fam, "tracks", L1, bad, ho[bad], reports, "recording pass"))
            continue
        L = list(pre)
        tags = [("prefix", -1, -1, -1)] * len(L)
        tracks = ["ta", "tb", "tx"]
        bid = [0]

        def block(ci, k):
            bid[0] += 1
            for l in track_obs(tracks):
                L.append(l); tags.append(("obs", ci, k, bid[0]))
        block(-1, -1)
        for ci, (c, i) in enumerate(zip(calls, idx)):
            n = min(seen_of(ho[i + 1]) or 0, 30)
            hist["track_positions_per_call"][str(n)] = hist["track_positions_per_call"].get(str(n), 0) + 1
            for k in range(n):
                L.append("fault %d %d" % (k, n)); tags.append(("arm", ci, k, bid[0]))
                L.append(c); tags.append(("faulted", ci, k, bid[0]))
                L.append("fault.status"); tags.append(("status", ci, k, bid[0]))
                block(ci, k)
                hist["track_fault_experiments"] += 1
            L.append(c); tags.append(("call", ci, -1, bid[0]))
            if c.startswith("mktrack ") and ho[i].startswith("ok"):
                tracks.append(c.split()[1])
            block(ci, n)
        scripts2.append((fam, L, tags))
    hres = runner.run_harness([x[1] for x in scripts2], watchdog=20, stateless=False)
    # 2.x: the model runs the same fault histories (each call as its statement program under the corresponding plan)
    v2idx = [i for i, x in enumerate(scripts2) if x[0] == "v2"]
    mres = dict(zip(v2idx, runner.run_model([scripts2[i][1] for i in v2idx]))) if v2idx else {}
    evals = 0
    seen = set()
    for si, ((fam, L, tags), (ho, reports)) in enumerate(zip(scripts2, hres)):
        mo = mres.get(si)
        done_div = False
        blocks = {}
        for tg, h in zip(tags, ho):
            if tg[0] == "obs":
                blocks.setdefault(tg[3], []).append(h)
        desync = False
        for k, (l, tg, h) in enumerate(zip(L, tags, ho)):
            if l.startswith("#") or h == "skipped-after-crash":
                continue
            evals += 1
            seen.add((L[1], l[:80], tg[0], min(tg[2], 99)))
            if tg[0] in ("faulted", "call"):
                key = "track_outcome_" + tg[0]
                hist[key][K.cls(h)] = hist[key].get(K.cls(h), 0) + 1
            if tg[0] == "faulted":
                op = " ".join(l.split()[:1] + l.split()[2:3]) if l.split()[0] == "set" else l.split()[0]
                hist["track_fault_positions_per_op"][op] = hist["track_fault_positions_per_op"].get(op, 0) + 1
            if h.startswith("ub") or h.startswith("missing-output"):
                violations.append(ub_violation(fam, "tracks", minimal_replay(L, tags, k) , None, h, reports, "fault round", last=l))
                break
            if tg[0] == "faulted" and K.cls(h) != "throw" and not desync:
                divergences.append({"input": " ; ".join(L[max(1, k - 1):k + 1])[-600:], "script": L[1],
                                    "impl": "a call with a fault injected inside it did not throw: " + h[:200], "model": "-"})
            if tg[0] == "status":
                if "fired=1" not in h and not desync:
                    divergences.append({"input": " ; ".join(L[max(1, k - 2):k + 1])[-600:], "script": L[1],
                                        "impl": "fault did not fire: " + h[:100], "model": "-"})
                b, a = blocks.get(tg[3]), blocks.get(tg[3] + 1)
                if b is not None and a is not None and a != b and not desync:
                    desync = True
                    hist["partial_updates"] += 1
                    if len(hist["partial_update_examples"]) < 6:
                        hist["partial_update_examples"].append("%s tracks: `%s` failed at statement %d" % (L[1], L[k - 1][:60], tg[2]))
            # ---- tie (2.x): every line equal to the model's (`ok <text>` literally, `throw` as a class, fired flag)
            if mo is not None and k < len(mo):
                m = mo[k]
                hist["track_model_lines"] += 1
                if desync:
                    if K.cls(m) == "ub":
                        divergences.append({"input": l, "script": L[1], "impl": h[:200], "model": m[:200]})
                elif not done_div:
                    if tg[0] == "status":
                        same = ("fired=1" in h) == ("fired=1" in m)
                    else:
                        same = K.canon(h) == K.canon(m)
                    if not same:
                        divergences.append({"input": " ; ".join(L[max(1, k - 4):k + 1])[-900:], "script": L[1],
                                            "impl": h[:400], "model": m[:400]})
                        done_div = True
    return violations, divergences, evals, len(seen)


def ub_violation(fam, what, script, bad, h, reports, where, last=None):
    body = script if bad is None else script[:bad + 1]
    l = last if last is not None else body[-1]
    rep = next((r for r in reports if r.get("line") == l), None)
    sig = {"family": fam, "part": "faults_" + what, "op": " ".join(l.split()[:1] + l.split()[2:3]) if l.split()[0] in ("get", "set") else l.split()[0],
           "ub": h, "after": where}
    return {"tag": "ub_faults_%s_%s" % (what, fam), "signature": sig,
            "header": {"kind": "script", "part": "faults", "what": "public call ended in undefined behaviour: %s   call: %s" % (h, l[:160])},
            "body": body + ["impl(last): " + h] + (["stderr: " + x for x in rep["stderr"].split("\n")[-12:]] if rep else [])}



def tie(ctx):
    rng = random.Random(ctx.seed * 7919 + 1507)
    hist = {"outcome_faulted": {}, "outcome_call": {}, "outcome_probe": {}, "fault_positions_per_op": {}, "positions_per_call": {},
            "partial_updates": 0, "partial_update_examples": [], "schemas": {}, "calls": 0, "fault_experiments": 0}
    divergences, violations = [], []
    plans = []
    for fam, F in FAMILIES.items():
        thorough = ctx.tier == "thorough"
        schemas = K.rotate(F["schemas"], ctx.seed + (3 if fam == "v1" else 0), len(F["schemas"]) if thorough else 3)
        for si, s in enumerate(schemas):
            calls = fixed_calls(fam) + random_calls(fam, rng, si + 1, 30 if thorough else 12)
            plans.append((fam, s, calls))
            hist["schemas"][s] = len(calls)
    # ---- pass 1: observe the number of faultable statements of every call (harness only)
    p1 = [pass1_script(fam, s, calls) for fam, s, calls in plans]
    r1 = runner.run_harness([x[0] for x in p1], watchdog=15, stateless=False)
    scripts2 = []
    for (fam, s, calls), (script, idx), (ho, reports) in zip(plans, p1, r1):
        bad = next((k for k, h in enumerate(ho) if h.startswith("ub") or h.startswith("missing-output")), None)
        if bad is not None:
            rep = next((r for r in reports if r.get("line") == script[bad]), None)
            sig = {"family": fam, "part": "faults", "op": opkey(script[bad]), "ub": ho[bad], "after": "recording pass"}
            violations.append({"tag": "ub_faults_" + fam, "signature": sig,
                               "header": {"kind": "script", "part": "faults",
                                          "what": "public call ended in undefined behaviour: %s   call: %s" % (ho[bad], script[bad][:160])},
                               "body": script[:bad + 1] + ["impl(last): " + ho[bad]] +
                                       (["stderr: " + x for x in rep["stderr"].split("\n")[-12:]] if rep else [])})
            continue
        counts, outcomes = [], []
        for c, i in zip(calls, idx):
            n = seen_of(ho[i + 1]) or 0
            counts.append(min(n, 40))
            outcomes.append(ho[i])
            hist["positions_per_call"][str(n)] = hist["positions_per_call"].get(str(n), 0) + 1
        hist["calls"] += len(calls)
        hist["fault_experiments"] += sum(counts)
        script2, tags = pass2_script(fam, s, calls, counts, outcomes)
        scripts2.append((fam, script2, tags, outcomes))
    # ---- pass 2: every position of every call, on the harness and on the model
    hres = runner.run_harness([x[1] for x in scripts2], watchdog=20, stateless=False)
    mres = runner.run_model([x[1] for x in scripts2])
    evals = distinct = 0
    for fam in FAMILIES:
        runs = [(sc, tg, h[0], m, h[1], oc) for (f, sc, tg, oc), h, m in zip(scripts2, hres, mres) if f == fam]
        d, v, e, n = judge(fam, runs, hist)
        divergences += d
        violations += v
        evals += e
        distinct += n
    hist.update({"track_positions_per_call": {}, "track_fault_experiments": 0, "track_outcome_faulted": {},
                 "track_outcome_call": {}, "track_fault_positions_per_op": {}, "track_model_lines": 0})
    tv, td, te, tn = track_stream(ctx, hist)
    violations += tv
    divergences += td
    evals += te
    distinct += tn
    return {"ok": not divergences and not violations, "evaluations": evals, "distinct_nontrivial": distinct,
            "rule": "faults: per schema %d+ mutating calls of the crate API (every operation, first / middle / last sibling and "
                    "entry positions, name collisions on create / rename / move, missing ids, stale handles, seeded adversarial "
                    "calls); the number n of faultable statements of each call observed in a recording pass; then `fault k` for "
                    "EVERY k < n, the call, and after each failure v*.obs + raw tables + every query through every live and stale "
                    "handle; model = the call's statement program under the corresponding fault plan (Api/Faults*.callF); "
                    "oracle: no `ub` line, a faulted call throws; distinct = distinct (schema, line, position).  Tracks: the "
                    "create / update / setter / remove calls of the track parts' adversarial generators and a duplicate "
                    "relative path, a fault at every statement position, then snapshot() and getters of every track; 2.x: model = "
                    "Api/FaultsTracksV2.callF on the statement-level Track table, getters on its row store (mode c15ftv2), every "
                    "line compared; 1.x: harness only"
                    % len(fixed_calls("v2")),
            "samples": [" ; ".join(x[1][-3:])[:200] for x in scripts2[:2]],
            "histograms": hist, "divergences": divergences[:10], "violations": violations[:6]}


def replay(ctx, hdr, body):
    return K.replay([F["mode"] for F in FAMILIES.values()] + [TRACK_MODE_V2], hdr, body)
