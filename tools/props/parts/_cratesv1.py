"""Shared engine of the schema-1.x crate parts (C07_v1, C08_v1, C11_v1).

One set of operation histories is generated per (tier, seed); every history is
executed by
  * the C++ harness (real library objects built from /repo's working tree),
  * the Lean Model (driver mode `cratesv1`),
and the two outputs are compared line by line: call results, the full
structural observation and the raw rows of Crate / CrateParentList /
CrateHierarchy / CrateTrackList / Track after EVERY step.  Then the harness's
answers alone are given to the DIRECT ORACLE (driver mode `v1oracle`):
Spec.Forest / Spec.Members stepped with the implementation's own ids, and the
executable WfRaw evaluated on the real dump.  The three parts pick their share
of the oracle's findings by tag.
"""
import os, random, subprocess, sys, time
from concurrent.futures import ThreadPoolExecutor
from common import *
import runner

V1_SCHEMAS = ["schema_1_6_0", "schema_1_7_1", "schema_1_9_1", "schema_1_11_1", "schema_1_13_0", "schema_1_13_1",
              "schema_1_13_2", "schema_1_15_0", "schema_1_17_0", "schema_1_18_0_desktop", "schema_1_18_0_os"]
QUICK_SCHEMAS = ["schema_1_6_0", "schema_1_9_1", "schema_1_18_0_os"]

NAMES_VALID = ["a", "b", "c", "Prepare", "d e", "\xc3\xa9t\xc3\xa9", "x/y.z", "L" * 40]
NAMES_INVALID = ["", "x;y", ";", "a;"]


def hx(s):
    b = s.encode("latin-1") if isinstance(s, str) else s
    return b.hex() if b else "-"


class Gen:
    """Steers generation with a rough picture of the forest (never used as an oracle)."""

    def __init__(self, rng, schema, profile):
        self.rng, self.schema, self.profile = rng, schema, profile
        self.lines = ["#mode cratesv1", "create %s mem" % schema]
        self.ops = []               # indices of op lines
        self.cv = []                # crate vars assumed bound
        self.parent = {}            # var -> parent var or None (rough)
        self.name = {}
        self.gone = set()
        self.tv = []
        self.tgone = set()
        self.names_used = []
        self.nc = 0
        self.nt = 0
        self.hist = {}

    def count(self, k):
        self.hist[k] = self.hist.get(k, 0) + 1

    def probe(self):
        ns = self.names_used[-5:] + ["zz"]
        out, seen = [], set()
        for n in ns:
            if n not in seen:
                seen.add(n)
                out.append(hx(n))
        return " ".join(out)

    def emit(self, line, kind):
        self.lines.append(line)
        self.lines.append("v1.obs " + self.probe())
        self.count(kind)

    # ---- helpers on the rough picture
    def live(self):
        return [v for v in self.cv if v not in self.gone]

    def depth(self, v):
        d = 0
        while self.parent.get(v) is not None and d < 50:
            v = self.parent[v]
            d += 1
        return d

    def descendants(self, v):
        out = []
        for w in self.live():
            x, k = w, 0
            while self.parent.get(x) is not None and k < 50:
                x = self.parent[x]
                k += 1
                if x == v:
                    out.append(w)
                    break
        return out

    def pick_name(self, allow_invalid=True):
        r = self.rng.random()
        if allow_invalid and r < 0.08:
            return self.rng.choice(NAMES_INVALID)
        if r < 0.55:
            return self.rng.choice(NAMES_VALID[:3])
        if r < 0.8:
            return self.rng.choice(NAMES_VALID)
        return "n%d" % self.rng.randrange(1000)

    def pick_crate(self, prefer_deep=False, allow_gone=True):
        if not self.cv:
            return None
        if allow_gone and self.gone and self.rng.random() < 0.12:
            return self.rng.choice(sorted(self.gone))
        lv = self.live() or self.cv
        if prefer_deep and self.rng.random() < 0.6:
            m = max(self.depth(v) for v in lv)
            lv = [v for v in lv if self.depth(v) >= m - 1]
        return self.rng.choice(lv)

    def drop(self, v):
        for w in [v] + self.descendants(v):
            self.gone.add(w)

    # ---- operations
    def mkroot(self):
        n = self.pick_name()
        v = "c%d" % self.nc
        self.nc += 1
        self.emit("mkroot %s %s" % (v, hx(n)), "mkroot")
        if n and ";" not in n:
            dup = any(self.parent.get(w) is None and self.name.get(w) == n for w in self.live())
            if not dup or self.profile.get("dups_succeed"):
                self.cv.append(v); self.parent[v] = None; self.name[v] = n
            if n not in self.names_used:
                self.names_used.append(n)

    def mksub(self):
        p = self.pick_crate(prefer_deep=self.rng.random() < 0.7)
        if p is None:
            return self.mkroot()
        n = self.pick_name()
        v = "c%d" % self.nc
        self.nc += 1
        self.emit("mksub %s %s %s" % (v, p, hx(n)), "mksub" + ("(removed parent)" if p in self.gone else ""))
        if n and ";" not in n and p not in self.gone:
            dup = any(self.parent.get(w) == p and self.name.get(w) == n for w in self.live())
            if not dup or self.profile.get("dups_succeed"):
                self.cv.append(v); self.parent[v] = p; self.name[v] = n
            if n not in self.names_used:
                self.names_used.append(n)

    def rename(self):
        lv = self.live()
        # prefer crates with grandchildren
        cands = [v for v in lv if any(self.depth(w) - self.depth(v) >= 2 for w in self.descendants(v))]
        v = self.rng.choice(cands) if cands and self.rng.random() < 0.6 else self.pick_crate()
        if v is None:
            return self.mkroot()
        n = self.pick_name()
        self.emit("rename %s %s" % (v, hx(n)), "rename" + ("(removed)" if v in self.gone else ""))
        if n and ";" not in n and v not in self.gone:
            self.name[v] = n
            if n not in self.names_used:
                self.names_used.append(n)

    def setparent(self):
        v = self.pick_crate()
        if v is None:
            return self.mkroot()
        r = self.rng.random()
        desc = self.descendants(v)
        if r < 0.15:
            q, kind = "-", "setparent(root)"
        elif r < 0.25:
            q, kind = v, "setparent(self)"
        elif r < 0.45 and desc:
            q, kind = self.rng.choice(desc), "setparent(descendant)"
        else:
            q = self.pick_crate()
            kind = "setparent"
            if q in self.gone:
                kind = "setparent(removed parent)"
            elif q in desc:
                kind = "setparent(descendant)"
            elif q == v:
                kind = "setparent(self)"
            elif desc:
                kind = "setparent(subtree)"
        if v in self.gone:
            kind = "setparent(removed)"
        self.emit("setparent %s %s" % (v, q), kind)
        if v not in self.gone and q != v and q not in desc and q not in self.gone:
            self.parent[v] = None if q == "-" else q

    def rmcrate(self):
        v = self.pick_crate()
        if v is None:
            return self.mkroot()
        kind = "rmcrate(removed)" if v in self.gone else ("rmcrate(subtree)" if self.descendants(v) else "rmcrate")
        self.emit("rmcrate %s" % v, kind)
        if v not in self.gone:
            self.drop(v)

    def getcrate(self):
        i = self.rng.randrange(0, self.nc + 2)
        v = "g%d" % self.nc
        self.nc += 1
        self.emit("getcrate %s %d" % (v, i), "getcrate")

    def pad_crates(self):
        # id-desynchronising padding: create and remove
        v = "c%d" % self.nc
        self.nc += 1
        self.emit("mkroot %s %s" % (v, hx("pad%d" % self.nc)), "pad(crate)")
        self.emit("rmcrate %s" % v, "pad(crate)")
        self.gone.add(v); self.cv.append(v); self.parent[v] = None

    def mktrack(self):
        v = "t%d" % self.nt
        self.emit("v1.mktrack %s %d" % (v, self.nt), "mktrack")
        self.nt += 1
        self.tv.append(v)

    def pad_tracks(self):
        v = "t%d" % self.nt
        self.emit("v1.mktrack %s %d" % (v, self.nt), "pad(track)")
        self.nt += 1
        self.emit("rmtrack %s" % v, "pad(track)")
        self.tv.append(v); self.tgone.add(v)

    def pick_track(self):
        if not self.tv:
            return None
        if self.tgone and self.rng.random() < 0.12:
            return self.rng.choice(sorted(self.tgone))
        lv = [t for t in self.tv if t not in self.tgone] or self.tv
        return self.rng.choice(lv)

    def addtrack(self):
        c, t = self.pick_crate(), self.pick_track()
        if c is None or t is None:
            return self.mktrack() if c is not None else self.mkroot()
        kind = "addtrack"
        if c in self.gone:
            kind = "addtrack(removed crate)"
        elif t in self.tgone:
            kind = "addtrack(removed track)"
        self.emit("addtrack %s %s" % (c, t), kind)

    def addtrackid(self):
        c = self.pick_crate()
        if c is None:
            return self.mkroot()
        self.emit("addtrackid %s %d" % (c, self.rng.choice([0, -1, 1, 2, 3, self.nt + 5, 99])), "addtrackid")

    def rmtrackfrom(self):
        c, t = self.pick_crate(), self.pick_track()
        if c is None or t is None:
            return self.mkroot()
        self.emit("rmtrackfrom %s %s" % (c, t), "rmtrackfrom")

    def cleartracks(self):
        c = self.pick_crate()
        if c is None:
            return self.mkroot()
        self.emit("cleartracks %s" % c, "cleartracks")

    def rmtrack(self):
        t = self.pick_track()
        if t is None:
            return self.mktrack()
        self.emit("rmtrack %s" % t, "rmtrack" + ("(removed)" if t in self.tgone else ""))
        self.tgone.add(t)


PROFILES = {
    # weights of operations
    "creates": dict(w=dict(mkroot=3, mksub=6)),
    "forest": dict(w=dict(mkroot=3, mksub=7, rename=3, setparent=5, rmcrate=2, getcrate=1)),
    "deep": dict(w=dict(mkroot=1, mksub=9, rename=3, setparent=3, rmcrate=1)),
    "members": dict(w=dict(mkroot=2, mksub=2, mktrack=3, addtrack=8, rmtrackfrom=3, cleartracks=1, rmtrack=2,
                           rmcrate=1, pad_tracks=2, pad_crates=2, addtrackid=1, setparent=1)),
    "mixed": dict(w=dict(mkroot=2, mksub=5, rename=2, setparent=4, rmcrate=2, mktrack=2, addtrack=5, rmtrackfrom=2,
                         cleartracks=1, rmtrack=1, pad_tracks=1, pad_crates=1, addtrackid=1, getcrate=1)),
}


def gen_history(rng, schema, profile_name, nops, max_crates=12):
    prof = PROFILES[profile_name]
    g = Gen(rng, schema, prof)
    ops, weights = zip(*sorted(prof["w"].items()))
    while sum(1 for l in g.lines if not l.startswith(("v1.obs", "#", "create"))) < nops:
        op = rng.choices(ops, weights)[0]
        if op in ("mkroot", "mksub", "pad_crates") and len(g.live()) >= max_crates:
            op = rng.choice(["rmcrate", "setparent", "rename"]) if "rmcrate" in prof["w"] else "mksub"
            if op == "mksub":
                break
        getattr(g, op)()
    return g.lines, g.hist


# ------------------------------------------------------------------ running
def run_oracle(scripts, houts):
    """Feed the implementation's answers to the Spec oracle."""
    osc = []
    for s, h in zip(scripts, houts):
        lines = ["#mode v1oracle"]
        for l, o in zip(s[1:], h[1:]):
            lines.append(l + " => " + o)
        osc.append(lines)
    return runner.run_model(osc)


def classify_tag(tag):
    if tag.startswith("forest."):
        return "C07"
    if tag.startswith("members."):
        return "C08"
    if tag.startswith("wfraw."):
        return "C11"
    return "all"          # ub / protocol problems concern every part


def op_kind(line):
    return line.split()[0] if line else "?"


def execute(scripts):
    """-> per script: (harness outputs, model outputs, oracle outputs)"""
    hres = runner.run_harness(scripts, stateless=False)
    houts = [o for (o, _) in hres]
    mouts = runner.run_model(scripts)
    oouts = run_oracle(scripts, houts)
    return houts, mouts, oouts


def first_problem(script, hout, mout, oout):
    """-> (divergence or None, violation or None) for one script"""
    div = None
    for i, (l, h, m) in enumerate(zip(script, hout, mout)):
        if h != m:
            div = {"line": i, "input": l, "impl": h[:600], "model": m[:600]}
            break
        if h.startswith("ub "):
            break           # both sides agree the call is undefined behaviour: the real process is gone
    vio = None
    for i, o in enumerate(oout):
        if o.startswith("violation"):
            tag = o.split()[1]
            # the operation that preceded
            j = i
            while j > 0 and script[j].startswith("v1.obs"):
                j -= 1
            vio = {"line": i, "tag": tag, "op": op_kind(script[j]), "text": o[:600]}
            break
    return div, vio


def still_fails(script, want_tag):
    h, m, o = execute([script])
    _, vio = first_problem(script, h[0], m[0], o[0])
    return vio is not None and vio["tag"] == want_tag


def shrink(script, tag, budget=60):
    """Greedy removal of (op, obs) pairs keeping the same oracle tag."""
    head, body = script[:2], script[2:]
    pairs = [body[i:i + 2] for i in range(0, len(body), 2)]
    # cut after the failing step first
    h, m, o = execute([script])
    _, vio = first_problem(script, h[0], m[0], o[0])
    if vio:
        keep = (vio["line"] - 2) // 2 + 1
        pairs = pairs[:max(1, keep)]
    i = len(pairs) - 2
    while i >= 0 and budget > 0:
        cand = pairs[:i] + pairs[i + 1:]
        budget -= 1
        if still_fails(head + [x for p in cand for x in p], tag):
            pairs = cand
        i -= 1
    return head + [x for p in pairs for x in p]


_CACHE = {}


def histories(ctx):
    rng = random.Random(ctx.seed * 7919 + 107)
    quick = ctx.tier == "quick"
    schemas = QUICK_SCHEMAS if quick else V1_SCHEMAS
    scripts, hist, meta = [], {}, []
    plan = [("forest", 30, 10 if quick else 30), ("deep", 40, 5 if quick else 15),
            ("members", 40, 8 if quick else 25), ("mixed", 50, 8 if quick else 25)]
    for sch in schemas:
        for (prof, nops, count) in plan:
            for _ in range(count):
                lines, h = gen_history(rng, sch, prof, nops)
                scripts.append(lines)
                meta.append((sch, prof))
                for k, v in h.items():
                    hist[k] = hist.get(k, 0) + v
    return scripts, hist, meta


# ------------------------------------------------------------------ bounded-exhaustive exploration (BFS)
# The Lean driver mode `v1explore` (lean/EngineModel/Driver/Cmds/CratesV1Explore.lean) searches the state space
# of the Model breadth first over DISTINCT states (raw rows + handle bindings) and prints, for every expanded
# state, one script: shortest path from the empty library, `v1.save`, then EVERY operation of the alphabet, each
# followed by an observation and `v1.restore`.  The scripts are schema-parametric (`create $SCHEMA mem`).
BFS_MAX_HANDLES = 4
# With 4 handles and the names {a, b, "", x;y} the Model has 3441 reachable states; the last new one appears at
# depth 8, so depth 9 expands every reachable state: the exploration is complete for that alphabet.
BFS_CLOSURE_DEPTH = 9
BFS_MAIN_SCHEMAS = ["schema_1_6_0", "schema_1_9_1", "schema_1_18_0_os"]
_EXPLORE_CACHE = {}


def bfs_depths(tier):
    """-> {schema: depth}"""
    if tier == "quick":
        return {sch: 5 for sch in QUICK_SCHEMAS}
    return {sch: (BFS_CLOSURE_DEPTH if sch in BFS_MAIN_SCHEMAS else 6) for sch in V1_SCHEMAS}


def explore_scripts(depth, max_handles=BFS_MAX_HANDLES):
    """-> (scripts with `$SCHEMA` in place, one per expanded state, first line `#mode cratesv1`; stats)"""
    key = (depth, max_handles, file_sha(MODELDRV))
    if key in _EXPLORE_CACHE:
        return _EXPLORE_CACHE[key]
    cdir = os.path.join(BUILD, "cache")
    path = os.path.join(cdir, "v1explore-d%d-h%d-%s.txt" % (depth, max_handles, key[2][:16]))
    text = None
    if os.path.exists(path):
        with open(path) as f:
            text = f.read()
        if not text.rstrip("\n").rsplit("\n", 1)[-1].startswith("#end "):
            text = None
    if text is None:
        p = subprocess.run([MODELDRV], input="#mode v1explore\nexplore %d %d\n" % (depth, max_handles),
                           stdout=subprocess.PIPE, stderr=subprocess.PIPE, text=True, timeout=1800)
        text = p.stdout
        if p.returncode != 0 or not text.rstrip("\n").rsplit("\n", 1)[-1].startswith("#end "):
            raise RuntimeError("v1explore failed rc=%d: %s %s" % (p.returncode, text[-300:], p.stderr[-300:]))
        os.makedirs(cdir, exist_ok=True)
        tmp = "%s.%d.tmp" % (path, os.getpid())
        with open(tmp, "w") as f:
            f.write(text)
        os.replace(tmp, path)
    scripts, depths, stats = [], [], {}
    for l in text.split("\n"):
        if l.startswith("#script "):
            scripts.append([])
            depths.append(int(l.split("depth=")[1]))
        elif l.startswith("#end "):
            kv = dict(t.split("=", 1) for t in l.split()[1:])
            stats = {"states": int(kv["states"]), "expanded": int(kv["expanded"]), "edges": int(kv["edges"]),
                     "new_states_per_depth": [int(x) for x in kv["levels"].split(",")]}
        elif l and scripts:                     # (the first output line is the `skip` answering `#mode v1explore`)
            scripts[-1].append(sys.intern(l))
    if len(scripts) != stats.get("expanded") or sum(s.count("v1.restore") for s in scripts) != stats.get("edges"):
        raise RuntimeError("v1explore output inconsistent with its #end line")
    per = {}
    for d, s in zip(depths, scripts):
        e = per.setdefault(d, [0, 0])
        e[0] += 1
        e[1] += s.count("v1.restore")
    stats.update({"depth": depth, "max_handles": max_handles, "script_depth": depths,
                  "expanded_per_depth": [per[d][0] for d in sorted(per)],
                  "edges_per_depth": [per[d][1] for d in sorted(per)],
                  "complete": stats["new_states_per_depth"][-1] == 0})
    _EXPLORE_CACHE[key] = (scripts, stats)
    return scripts, stats


def bfs_histories(ctx):
    """-> (scripts, meta, stats): the exploration scripts instantiated for every schema of the tier.
    meta[i] = (schema, "bfs", depth of the expanded state)."""
    depths = bfs_depths(ctx.tier)
    scripts, meta = [], []
    stats = {"max_handles": BFS_MAX_HANDLES, "depth": depths, "states": 0, "expanded": 0, "edges": 0,
             "per_depth": {}, "complete_on": []}
    for sch, d in depths.items():
        tmpl, st = explore_scripts(d, BFS_MAX_HANDLES)
        create = "create %s mem" % sch
        for s, sd in zip(tmpl, st["script_depth"]):
            scripts.append([create if l == "create $SCHEMA mem" else l for l in s])
            meta.append((sch, "bfs", sd))
        for k in ("states", "expanded", "edges"):
            stats[k] += st[k]
        stats["per_depth"][str(d)] = {k: st[k] for k in ("states", "expanded", "edges", "new_states_per_depth",
                                                           "expanded_per_depth", "edges_per_depth", "complete")}
        if st["complete"]:
            stats["complete_on"].append(sch)
    return scripts, meta, stats


def bfs_pack(scripts, target):
    """Concatenate consecutive scripts into chunks of about `target` lines (one process per chunk: `create`
    resets the harness, the Model and the oracle).  -> list of lists of script indices"""
    chunks, cur, n = [], [], 0
    for i, s in enumerate(scripts):
        cur.append(i)
        n += len(s)
        if n >= target:
            chunks.append(cur)
            cur, n = [], 0
    if cur:
        chunks.append(cur)
    return chunks


def bfs_execute(scripts, target=None):
    """execute() for exploration scripts, several states per process.  A state whose `create` line was not
    answered `ok` by all three sides (an earlier state of its chunk crashed the harness, or killed the oracle
    on a path step) is run again in a process of its own.  -> per script (harness, model, oracle) outputs"""
    total = sum(len(s) for s in scripts)
    target = target or min(6000, max(600, total // (NCPU * 8)))
    chunks = bfs_pack(scripts, target)
    big = [[l for i in c for l in scripts[i]] for c in chunks]
    H, M, O = execute(big)
    out = [None] * len(scripts)
    again = []
    for c, h, m, o in zip(chunks, H, M, O):
        pos = 0
        for k, i in enumerate(c):
            n = len(scripts[i])
            r = (h[pos:pos + n], m[pos:pos + n], o[pos:pos + n])
            pos += n
            if k > 0 and not (r[0][1] == "ok" and r[1][1] == "ok" and r[2][1] == "ok"):
                again.append(i)
            out[i] = r
    if again:
        h, m, o = execute([scripts[i] for i in again])
        for k, i in enumerate(again):
            out[i] = (h[k], m[k], o[k])
    return out, {"processes": len(chunks), "rerun_alone": len(again)}


def bfs_problems(script, hout, mout, oout):
    """Every edge of an exploration script starts from the saved state, so every edge is judged on its own.
    -> (divergences, violations); each carries a SELF-CONTAINED replay script: the path, `v1.save` and the one
    failing edge (or the path prefix when a path step fails)."""
    isave = script.index("v1.save")
    n = isave + 1
    divs, vios = [], []
    div, vio = first_problem(script[:n], hout[:n], mout[:n], oout[:n])
    if div:
        div["script"] = script[:div["line"] + 1]
        divs.append(div)
    if vio:
        vio["script"] = script[:vio["line"] + 1]
        vios.append(vio)
    if div or any(h.startswith("ub ") for h in hout[:n]):
        return divs, vios               # the saved state itself is not the one the Model explored
    head = script[:n]
    for j in range(n, len(script) - 2, 3):
        edge = script[j:j + 3]          # operation, observation, v1.restore
        for k in range(3):
            h, m = hout[j + k], mout[j + k]
            if h != m:
                divs.append({"line": n + k, "input": edge[k], "impl": h[:600], "model": m[:600],
                             "script": head + edge[:k + 1]})
                break
            if h.startswith("ub "):
                break                   # agreed undefined behaviour
        for k in range(2):
            if oout[j + k].startswith("violation"):
                vios.append({"line": n + k, "tag": oout[j + k].split()[1], "op": op_kind(edge[0]),
                             "text": oout[j + k][:600], "script": head + edge[:k + 1]})
                break
        if any(hout[j + k].startswith(("ub ", "skipped-after-crash", "missing-output")) for k in range(3)):
            break                       # the real process is gone: the remaining edges were not run
    return divs, vios


BFS_KEEP = 200          # recorded problems per kind (all are counted)


def run_bfs(ctx, distinct):
    """Run the exploration scripts schema by schema (bounds the memory held in observations)."""
    t0 = time.time()
    scripts, meta, stats = bfs_histories(ctx)
    divergences, violations, outcomes = [], [], {}
    steps = ndiv = nvio = procs = rerun = 0
    seen_d, seen_v = set(), set()
    per_schema_wall = {}
    for sch in stats["depth"]:
        t1 = time.time()
        idx = [i for i, m in enumerate(meta) if m[0] == sch]
        group = [scripts[i] for i in idx]
        res, info = bfs_execute(group)
        procs += info["processes"]
        rerun += info["rerun_alone"]
        for s, (h, m, o) in zip(group, res):
            for l, r in zip(s, h):
                if l.startswith("v1.obs"):
                    steps += 1
                    distinct.add(r.split(" raw ", 1)[-1])
                elif not l.startswith(("#", "create", "v1.")):
                    k = op_kind(l) + ":" + (" ".join(r.split()[:2]) if r.startswith("throw") else r.split()[0])
                    outcomes[k] = outcomes.get(k, 0) + 1
            divs, vios = bfs_problems(s, h, m, o)
            for d in divs:
                k = (sch, tuple(d["script"]))
                if k in seen_d:
                    continue            # the same failing path prefix is shared by all states behind it
                seen_d.add(k)
                ndiv += 1
                if len(divergences) < BFS_KEEP:
                    d["schema"], d["bfs"] = sch, True
                    divergences.append(d)
            for v in vios:
                k = (sch, tuple(v["script"]))
                if k in seen_v:
                    continue
                seen_v.add(k)
                nvio += 1
                if len(violations) < BFS_KEEP or (v["op"], v["tag"]) not in {(x["op"], x["tag"]) for x in violations}:
                    v["schema"], v["bfs"] = sch, True
                    violations.append(v)
        per_schema_wall[sch] = round(time.time() - t1, 1)
    stats.update({"scripts": len(scripts), "steps": steps, "processes": procs, "rerun_alone": rerun,
                  "divergences": ndiv, "violations": nvio, "wall_s": round(time.time() - t0, 1),
                  "wall_s_per_schema": per_schema_wall})
    return stats, divergences, violations, outcomes


def run_all(ctx):
    key = (ctx.tier, ctx.seed)
    if key in _CACHE:
        return _CACHE[key]
    t0 = time.time()
    distinct = set()
    # 1. bounded-exhaustive exploration (its failing scripts are minimal: they come first)
    bfs, divergences, violations, bfs_outcomes = run_bfs(ctx, distinct)
    # 2. random histories
    scripts, hist, meta = histories(ctx)
    houts, mouts, oouts = execute(scripts)
    steps = 0
    outcome_hist = {}
    for s, h, m, o, (sch, prof) in zip(scripts, houts, mouts, oouts, meta):
        steps += sum(1 for l in s if l.startswith("v1.obs"))
        for l, r in zip(s, h):
            if l.startswith("v1.obs"):
                distinct.add(r.split(" raw ", 1)[-1])
            elif not l.startswith(("#", "create")):
                k = op_kind(l) + ":" + (" ".join(r.split()[:2]) if r.startswith("throw") else r.split()[0])
                outcome_hist[k] = outcome_hist.get(k, 0) + 1
        div, vio = first_problem(s, h, m, o)
        if div:
            div["schema"] = sch
            div["script"] = s[:div["line"] + 1]
            divergences.append(div)
        if vio:
            vio["schema"] = sch
            vio["script"] = s
            violations.append(vio)
    res = {"scripts": len(scripts) + bfs["scripts"], "steps": steps + bfs["steps"], "random_scripts": len(scripts),
           "random_steps": steps, "distinct_raw_states": len(distinct), "hist": hist,
           "outcomes": outcome_hist, "bfs_outcomes": bfs_outcomes, "bfs": bfs,
           "divergences": divergences, "violations": violations,
           "wall_s": round(time.time() - t0, 1),
           "schemas": sorted({m[0] for m in meta})}
    _CACHE[key] = res
    return res


def part_result(ctx, pid):
    """The tie() result of one part: every model/implementation divergence counts for
    every part (they share the Model); oracle violations are split by tag."""
    r = run_all(ctx)
    vios = []
    seen = set()
    for v in r["violations"]:
        owner = classify_tag(v["tag"])
        if owner not in (pid, "all"):
            continue
        sig = {"family": "v1", "op": v["op"], "effect": v["tag"]}
        key = (v["op"], v["tag"])
        if key in seen:
            continue
        seen.add(key)
        # an exploration script is already minimal (shortest path + the one failing edge)
        script = shrink(v["script"], v["tag"]) if len(seen) <= 6 and not v.get("bfs") else v["script"]
        vios.append({"tag": "oracle", "signature": sig,
                     "header": {"kind": "history", "what": v["text"][:300], "schema": v["schema"]},
                     "body": script})
    divs = [{"input": "%s: %s" % (d["schema"], " / ".join(d["script"][-3:])[:400]), "impl": d["impl"],
             "model": d["model"]} for d in r["divergences"][:10]]
    b = r["bfs"]
    bfs_summary = {k: b[k] for k in ("max_handles", "depth", "states", "expanded", "edges", "per_depth", "complete_on",
                                     "scripts", "steps", "divergences", "violations", "wall_s")}
    return {
        "ok": not vios and not r["divergences"],
        "evaluations": r["steps"],
        "distinct_nontrivial": r["distinct_raw_states"],
        "rule": "two streams on schemas %s.  (1) bounded-exhaustive exploration: the Lean driver searches the state "
                "space of the Model breadth first over distinct states (raw rows + handle bindings; at most %d crate "
                "handles, names a / b / empty / x;y, depth per schema %s; depth %d expands EVERY reachable state) and "
                "from every expanded state EVERY operation of the alphabet (create root/sub, rename, set_parent to "
                "every handle or none, remove; handles of removed crates included) is run on the real library from a "
                "restored image of that state: %d edges from %d expanded states.  (2) random operation histories "
                "(forest / deep / membership / mixed profiles).  In both, after every operation the call result, the "
                "full structural observation (every public crate / membership query on every live crate, every "
                "handle of a removed crate, every track, every probe name) and the raw rows of Crate/CrateParentList/"
                "CrateHierarchy/CrateTrackList/Track are compared between the real library and the Lean Model, and "
                "the Spec oracle judges the real library's answers; evaluations = observed steps, non-trivial = "
                "distinct raw table states reached by the real library" % (
                    ",".join(r["schemas"]), b["max_handles"],
                    ",".join("%s:%d" % (k.replace("schema_", ""), v) for k, v in b["depth"].items()),
                    BFS_CLOSURE_DEPTH, b["edges"], b["expanded"]),
        "samples": [],
        "histograms": {"generated_ops": r["hist"], "impl_outcomes": r["outcomes"],
                       "bfs_impl_outcomes": r["bfs_outcomes"]},
        "divergences": divs,
        "violations": vios,
        "exhaustive": {"bounded_exhaustive_bfs": bfs_summary},
        "extra": {"scripts": r["scripts"], "random_scripts": r["random_scripts"], "random_steps": r["random_steps"],
                  "bfs_steps": b["steps"], "bfs_processes": b["processes"],
                  "bfs_wall_s_per_schema": b["wall_s_per_schema"], "wall_s": r["wall_s"]},
    }


def replay(ctx, hdr, body):
    script = [l for l in body if l.strip()]
    if not script or script[0].strip() != "#mode cratesv1":
        return None
    h, m, o = execute([script])
    ok = True
    out = []
    for l, a, b, c in zip(script, h[0], m[0], o[0]):
        bad = (a != b) or c.startswith("violation")
        ok = ok and not bad
        out.append("%s\n   impl:   %s\n   model:  %s\n   oracle: %s%s" % (l[:200], a[:400], b[:400], c[:400],
                                                                          "   <-- " if bad else ""))
    return ok, "\n".join(out)
