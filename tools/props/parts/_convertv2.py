"""Shared by the 2.x parts of C01 and C06: the conversion helpers regenerated from the source
(tools/tr_convert_v2.py -> lean/EngineModel/Gen/ConvertV2Gen.lean), the theorems that each regenerated
function is the corresponding component of the hand model (Properties/C01V2Convert.lean, proofs in
Proofs/ConvertV2GenEq.lean) and the execution stream that runs the regenerated functions and the real
`convert::` functions on the same values."""
import os, random, struct, subprocess, sys
from common import VERIF, NCPU

NS = "EngineModel.Properties.C01V2Convert."
LEAN_MODULE = "Properties.C01V2Convert"
EQ = ["cv_track_eq_hand", "cv_cues_eq_hand", "cv_loops_eq_hand", "cv_grid_eq_hand"]
THEOREMS_C01 = [NS + t for t in EQ + [
    "cv_album_art_id", "cv_grid_roundtrip", "cv_rating_roundtrip", "cv_rating_stored_range", "cv_duration_roundtrip", "cv_bpm_roundtrip",
    "cv_bpm_truncated", "cv_key_roundtrip", "cv_loudness_roundtrip", "cv_sample_rate_roundtrip",
    "cv_sample_count_roundtrip", "cv_main_cue_roundtrip", "cv_hot_cues_roundtrip", "cv_hot_cues_overflow",
    "cv_hot_cues_eight", "cv_loops_roundtrip", "cv_loops_overflow", "cv_loops_eight", "cv_write_total",
    "cv_read_duration_ub"]]
THEOREMS_C06 = [NS + t for t in EQ + ["cv_hot_cues_eight", "cv_loops_eight", "cv_write_total"]]
ASSUMPTION = (
    "2.x: the pure conversions convert::read::* / convert::write::* of convert_track.hpp, convert_hot_cues.hpp, "
    "convert_loops.hpp and convert_beatgrid.hpp (32 functions incl. quick_cue_blob::empty(), loop_blob::empty(), + 5 constants) are regenerated from clang's "
    "typed AST of v2/track_impl.cpp on every run (tools/tr_convert_v2.py -> Gen/ConvertV2Gen.lean) and PROVED equal, for every "
    "input, to the components writeRating, readDuration, writeBpm, writeHotCues, ... of the hand model that writeSnap / readSnap "
    "/ applySetter are made of (Properties/C01V2Convert.lean); the translator fails closed (a shape outside its fragment keeps "
    "the committed block, `unsupported-node` in the evidence, the differential replay alone decides); trusted: clang's AST, the "
    "AST -> Lean mapping of design/convert_v2.md with its vocabulary Pure/ConvertCxx.lean (exercised on every run by the "
    "cv.* execution stream against the real functions); NOT regenerated: convert_waveform.hpp and the "
    "bodies of track_impl.cpp that call the conversions (hand model + differential replay as before)")
MANIFEST_SENTENCE = ("The pure conversions convert::read / convert::write of convert_track.hpp, convert_hot_cues.hpp, "
                     "convert_loops.hpp, convert_beatgrid.hpp are regenerated from clang's typed AST on every run and proved equal, for every input, to "
                     "the corresponding components of the hand model (cv_*_eq_hand), with the per-field clauses restated on the "
                     "regenerated pairs and an execution stream against the real functions.")
TRUSTED = "tools/tr_convert_v2.py (clang-AST translator of the 2.x convert::read / convert::write helpers) + lean/EngineModel/Pure/ConvertCxx.lean (its vocabulary)"


def translate():
    r = subprocess.run([sys.executable, os.path.join(VERIF, "tools", "tr_convert_v2.py")],
                       stdout=subprocess.PIPE, stderr=subprocess.PIPE, text=True)
    out = (r.stdout.strip() or r.stderr.strip()[-300:])
    return out[len("translator: "):] if out.startswith("translator: ") else out


TRANSLATORS = {"v2/convert_*.hpp": translate}


# ---------------------------------------------------------------- execution stream (cv.*)
def _bits(x):
    return "%016x" % struct.unpack(">Q", struct.pack(">d", x))[0]


I32 = [-2 ** 31, -101, -100, -1, 0, 1, 50, 99, 100, 101, 250, 2 ** 31 - 1]
I64 = [0, 1, -1, 999, -999, 1000, -1000, 1999, -1999, 2 ** 63 - 1, -2 ** 63, 9223372036854775, 9223372036854776,
       -9223372036854775, -9223372036854776, 2 ** 31, -2 ** 31 - 1, 2 ** 32 + 5, 100, 101, 4294967296 * 3]
U64 = [0, 1, 2 ** 63 - 1, 2 ** 63, 2 ** 64 - 1, 44100 * 300]
F64 = ["0000000000000000", "8000000000000000", _bits(1.0), _bits(-1.0), _bits(0.5), _bits(120.5), _bits(-120.5), _bits(1e15),
       "43e0000000000000", "c3e0000000000000", "43dfffffffffffff", "c3e0000000000001", "c3dfffffffffffff", _bits(1e300),
       "7ff0000000000000", "fff0000000000000", "7ff8000000000000", "fff8000000000001", "0000000000000001", "800fffffffffffff",
       _bits(44100.0), _bits(2.0 ** 53 + 2)]


def _f(rng):
    c = rng.random()
    if c < 0.6:
        return rng.choice(F64)
    if c < 0.8:
        return "%016x" % rng.getrandbits(64)
    return _bits(rng.uniform(-1e6, 1e6))


def _opt(rng, g, p=0.15):
    return "none" if rng.random() < p else g(rng)


def _i32(rng):
    return str(rng.choice(I32) if rng.random() < 0.7 else rng.randint(-2 ** 31, 2 ** 31 - 1))


def _i64(rng):
    return str(rng.choice(I64) if rng.random() < 0.7 else rng.randint(-2 ** 63, 2 ** 63 - 1))


def _u64(rng):
    return str(rng.choice(U64) if rng.random() < 0.7 else rng.getrandbits(64))


def _label(rng):
    n = rng.choice([0, 0, 1, 3, 10, 255, 256, 300])
    return "".join("%02x" % rng.randrange(256) for _ in range(n)) or "-"


def _color(rng):
    return " ".join(str(rng.randrange(256)) for _ in range(4))


def _ocue(rng):
    if rng.random() < 0.35:
        return "none"
    return "some %s %s %s" % (_label(rng), _f(rng), _color(rng))


def _oloop(rng):
    if rng.random() < 0.35:
        return "none"
    return "some %s %s %s %s" % (_label(rng), _f(rng), _f(rng), _color(rng))


def _cue(rng):
    return "%s %s %s" % (_label(rng), _f(rng), _color(rng))


def _loop(rng):
    return "%s %s %s %d %d %s" % (_label(rng), _f(rng), _f(rng), rng.choice([0, 0, 1, 1, 2, 255]), rng.choice([0, 0, 1, 1, 7]), _color(rng))


def _gm(rng):
    return "%s %s" % (_i32(rng), _f(rng))


def _marker(rng):
    return "%s %s %s %s" % (_f(rng), _i64(rng), _i32(rng), _i32(rng))


def _grid(rng, g):
    n = rng.choice([0, 1, 2, 3, 5, 40])
    return " ".join([str(n)] + [g(rng) for _ in range(n)])


def _list(rng, g):
    n = rng.choice([0, 1, 2, 7, 8, 8, 9, 10, rng.randrange(0, 12)])
    return " ".join([str(n)] + [g(rng) for _ in range(n)])


GENS = {
    "write_rating": lambda r: _opt(r, _i32), "read_rating": _i64,
    "write_duration": lambda r: _opt(r, _i64), "read_duration": _i64,
    "write_bpm": lambda r: _opt(r, _f), "read_bpm": lambda r: _opt(r, _f, 0.5) + " " + _opt(r, _i64, 0.3),
    "write_key": lambda r: _opt(r, _i32), "read_key": lambda r: _opt(r, _i32),
    "write_average_loudness": lambda r: _opt(r, _f), "read_average_loudness": _f,
    "write_sample_rate": lambda r: _opt(r, _f), "read_sample_rate": _f,
    "write_sample_count": lambda r: _opt(r, _u64), "read_sample_count": _i64,
    "write_album_art_id": lambda r: _opt(r, _i64), "read_album_art_id": _i64,
    "write_main_cue": lambda r: _opt(r, _f), "read_main_cue": _f,
    "write_hot_cue": _ocue, "read_hot_cue": _cue,
    "write_hot_cues": lambda r: _list(r, _ocue), "read_hot_cues": lambda r: _list(r, _cue),
    "write_loop": _oloop, "read_loop": _loop,
    "write_loops": lambda r: _list(r, _oloop), "read_loops": lambda r: _list(r, _loop),
    "empty_cue": lambda r: "", "empty_loop": lambda r: "",
    "read_beatgrid_marker": _marker, "read_beatgrid_markers": lambda r: _grid(r, _marker),
    "write_beatgrid_markers": lambda r: _grid(r, _gm), "write_beatgrid": lambda r: _grid(r, _gm),
}


def gen_stream(ctx):
    """Run the REGENERATED conversions (driver `cv.*`) and the real convert:: functions (harness `cv.*`) on the
    same generated arguments; any difference of the two answers is a divergence.  Boundary values first
    (every element of the edge tables once per scalar function), then random ones."""
    import runner
    rng = random.Random(ctx.seed * 104729 + 77)
    per = 40 if ctx.tier == "quick" else 600
    lines = []
    edge = {"write_rating": I32, "write_key": I32, "read_key": I32, "read_rating": I64, "write_duration": I64, "read_duration": I64,
            "read_sample_count": I64, "read_album_art_id": I64, "write_album_art_id": I64, "write_sample_count": U64,
            "write_bpm": F64, "write_average_loudness": F64, "read_average_loudness": F64, "write_sample_rate": F64,
            "read_sample_rate": F64, "write_main_cue": F64, "read_main_cue": F64}
    for fn, vals in sorted(edge.items()):
        lines += ["cv.%s %s" % (fn, v) for v in vals]
        if fn.startswith("write_"):
            lines.append("cv.%s none" % fn)
    for fn in sorted(GENS):
        for _ in range(1 if fn.startswith("empty") else per):
            lines.append(("cv.%s %s" % (fn, GENS[fn](rng))).rstrip())
    ho = [o for (outs, _) in runner.run_harness(runner.shard(lines, NCPU), stateless=True, watchdog=20) for o in outs]
    mo = [o for outs in runner.run_model(runner.shard(lines, NCPU)) for o in outs]
    div, hist = [], {"lines": len(lines), "equal": 0, "by_outcome": {}, "by_function": {}}
    for l, h, m in zip(lines, ho, mo):
        fn = l.split()[0][3:]
        hist["by_function"][fn] = hist["by_function"].get(fn, 0) + 1
        k = " ".join(h.split()[:2]) if not h.startswith("ok") else "ok"
        hist["by_outcome"][k] = hist["by_outcome"].get(k, 0) + 1
        if h == m and not h.startswith("bad-op"):
            hist["equal"] += 1
        else:
            div.append({"input": l[:400], "impl": h[:400], "model": "regenerated: " + m[:400]})
    if len(ho) != len(lines) or len(mo) != len(lines):
        div.append({"input": "cv stream", "impl": "%d answers" % len(ho), "model": "%d answers for %d lines" % (len(mo), len(lines))})
    return {"lines": len(lines), "divergences": div, "hist": hist, "distinct": len(set(lines))}
