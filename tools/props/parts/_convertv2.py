"""Shared by the 2.x parts of C01 and C06: the conversion helpers regenerated from the source
(tools/tr_convert_v2.py -> lean/EngineModel/Gen/ConvertV2Gen.lean), the theorems that each regenerated
function is the corresponding component of the hand model (Properties/C01V2Convert.lean, proofs in
Proofs/ConvertV2GenEq.lean) and the execution stream that runs the regenerated functions and the real
`convert::` functions on the same values."""
import os, random, struct, subprocess, sys
from common import VERIF, NCPU

NS = "EngineModel.Properties.C01V2Convert."
LEAN_MODULE = "Properties.C01V2Convert"
EQ = ["cv_track_eq_hand", "cv_cues_eq_hand", "cv_loops_eq_hand"]
THEOREMS_C01 = [NS + t for t in EQ + [
    "cv_album_art_id", "cv_rating_roundtrip", "cv_rating_stored_range", "cv_duration_roundtrip", "cv_bpm_roundtrip",
    "cv_bpm_truncated", "cv_key_roundtrip", "cv_loudness_roundtrip", "cv_sample_rate_roundtrip",
    "cv_sample_count_roundtrip", "cv_main_cue_roundtrip", "cv_hot_cues_roundtrip", "cv_hot_cues_overflow",
    "cv_hot_cues_eight", "cv_loops_roundtrip", "cv_loops_overflow", "cv_loops_eight", "cv_write_total",
    "cv_read_duration_ub"]]
THEOREMS_C06 = [NS + t for t in EQ + ["cv_hot_cues_eight", "cv_loops_eight", "cv_write_total"]]
ASSUMPTION = (
    "2.x: the pure conversions convert::read::* / convert::write::* of convert_track.hpp, convert_hot_cues.hpp and "
    "convert_loops.hpp (29 functions / constants incl. quick_cue_blob::empty(), loop_blob::empty()) are regenerated from clang's "
    "typed AST of v2/track_impl.cpp on every run (tools/tr_convert_v2.py -> Gen/ConvertV2Gen.lean) and PROVED equal, for every "
    "input, to the components writeRating, readDuration, writeBpm, writeHotCues, ... of the hand model that writeSnap / readSnap "
    "/ applySetter are made of (Properties/C01V2Convert.lean); the translator fails closed (a shape outside its fragment keeps "
    "the committed block, `unsupported-node` in the evidence, the differential replay alone decides); trusted: clang's AST, the "
    "AST -> Lean mapping of design/convert_v2.md with its vocabulary Pure/ConvertCxx.lean (exercised on every run by the "
    "cv.* execution stream against the real functions); NOT regenerated: convert_beatgrid.hpp, convert_waveform.hpp and the "
    "bodies of track_impl.cpp that call the conversions (hand model + differential replay as before)")
TRUSTED = "tools/tr_convert_v2.py (clang-AST translator of the 2.x convert::read / convert::write helpers) + lean/EngineModel/Pure/ConvertCxx.lean (its vocabulary)"


def translate():
    r = subprocess.run([sys.executable, os.path.join(VERIF, "tools", "tr_convert_v2.py")],
                       stdout=subprocess.PIPE, stderr=subprocess.PIPE, text=True)
    out = (r.stdout.strip() or r.stderr.strip()[-300:])
    return out[len("translator: "):] if out.startswith("translator: ") else out


TRANSLATORS = {"v2/convert_*.hpp": translate}
