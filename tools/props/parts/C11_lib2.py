"""C11, whole-library 2.x part (composite-v2) — LibInv on the composite model of all 2.x tables."""
import random
from common import *
import runner
from props.parts import _lib2 as L

NS = "EngineModel.Properties.C11Lib2."
LEAN_MODULES = ["Properties.C11Lib2", "Properties.C11Lib2Blobs"]
THEOREMS = [NS + t for t in [
    "C11Lib2_step_preserves", "C11Lib2_reachable", "C11Lib2_reachable_exec", "C11Lib2_exec_iff",
    "C11Lib2_from_any_wellformed", "C11Lib2_referential_integrity", "C11Lib2_foreign_key_check_clean",
    "C11Lib2_reachable_foreign_key_check_clean", "C11Lib2_failed_call_unchanged", "C11Lib2_unscoped_counterexample",
    "C11Lib2_prepare_list_counterexample",
    "C11Lib2_stored_blobs_decode", "C11Lib2_framed_blobs_decode", "C11Lib2_reachable_rows_encodable"]]
ASSUMPTIONS = [
    "2.x composite (Lib/V2.lean): SqliteSemantics as in the track and crate packages, plus: trigger_after_update_Track "
    "(schemas before 2.20.3) appends one ChangeLog row per UPDATE of a Track row, the nested UPDATE of the fix_origin "
    "triggers included, inside the statement / transaction of the call; `UPDATE ChangeLog SET trackId = NULL` and the "
    "membership loop of database::remove_track run in the same transaction as the DELETE of the track; foreign keys are "
    "not enforced on the connection (no cascade); AlbumArt holds the default row 1 and PreparelistEntity is never "
    "written.  Validated by comparing the dump of ALL modelled tables (Track incl. every column, Playlist, PlaylistEntity, "
    "ChangeLog, AlbumArt, PreparelistEntity, Information, the AUTOINCREMENT counters) with the Model's after every call "
    "on all seven 2.x versions",
    "2.x composite: PRAGMA integrity_check is SQLite's own (run as a supporting run-time check, not modelled)",
]
MANIFEST_TEXT = ("Schema 2.x, whole library (composite model Lib/V2.lean: ONE state with the statement-level Track table, "
                 "Playlist, PlaylistEntity, Information, ChangeLog, AlbumArt, PreparelistEntity; ONE alphabet with every public "
                 "operation of database / crate / track; step delegates to the track and crate models and adds "
                 "remove_track's transaction, add_track's existence test, the library's uuid in every entry and the ChangeLog "
                 "trigger): LibInv = the package invariants + cross-table referential integrity is inductive over every call, "
                 "failed calls included (C11Lib2_step_preserves / _reachable), equivalent to the executable libInv the driver "
                 "evaluates on the REAL dump after every call (C11Lib2_exec_iff), implies a clean foreign_key_check over all "
                 "four declared foreign keys (C11Lib2_foreign_key_check_clean) and holds from any loaded library that passes "
                 "the check (C11Lib2_from_any_wellformed); a call that does not return normally leaves every table untouched "
                 "(C11Lib2_failed_call_unchanged).")
TRUSTED_EXTRA = ["harness/djv_lib2.cpp (dumps of all tables through the C API), lean/EngineModel/Driver/Cmds/Lib2.lean "
                 "(parser of the dump), tools/props/parts/_lib2.py (generators, oracles)"]
replay = L.replay
WANT = ("inv", "fk", "live", "failed", "blobs", "pragma")


def tie(ctx):
    rng = random.Random(ctx.seed * 7919 + 11)
    schemas = L.schemas_for(ctx)
    n = 6 if ctx.tier == "quick" else 60
    scripts = []
    hid = 0
    for s in schemas:
        for _ in range(n):
            hid += 1
            ops = L.gen_history(rng, ctx.tier, hid, rng.choice([40, 60]), prepare=True)
            scripts.append(L.wrap(s, ops, "disk" if rng.random() < 0.15 else "mem"))
    # fault stream: database::remove_track of a track in two crates with ChangeLog rows, a fault at every statement
    nf = 0
    for s in schemas:
        for k in range(7):
            hid += 1
            ops = L.gen_history(rng, ctx.tier, hid, 14)
            pre, post = L.fault_suffix(rng, k, "%d" % k)
            scripts.append(L.wrap(s, ops + pre, "mem", rows_every=1000) + post)
            nf += 1
    results = L.run_all(scripts)
    return L.finish(ctx, "C11_lib2", results,
                    "2.x whole library: seeded histories on %s interleaving create_track / update / the 26 setters / "
                    "remove_track (full snapshots, colliding and rejected paths) with crate creation / renaming / re-parenting "
                    "/ removal and add_track / remove_track / clear_tracks (handles of removed tracks and crates stay in use; "
                    "create-and-remove padding de-synchronises the ids); after EVERY call the dump of all tables is compared "
                    "with the composite Model's and the executable LibInv is evaluated by the Lean driver on the REAL dump; "
                    "PRAGMA foreign_key_check / integrity_check, the modelled foreign_key_check on the real dump, every "
                    "stored blob decoded, and 'a call that threw left the dump untouched' as supporting checks" % ", ".join(schemas),
                    [" ; ".join(l for l in scripts[0][1:40] if not l.startswith(("v2.obs", "lib2.")))[:400]],
                    WANT, extra_hist={"schemas": schemas, "scripts": len(scripts), "fault_scripts": nf})
