"""Shared machinery of the composite-v2 work-package (parts C08_lib2, C10_lib2, C11_lib2, C16_lib2).

One op script = interleaved track, crate and membership calls on ONE 2.x library; three executions:
  * the REAL library (harness; djv_db.cpp + djv_lib2.cpp),
  * the Lean composite MODEL (driver mode `lib2`, lean/EngineModel/Lib/V2.lean) — correspondence: results,
    the whole crate / membership observation (`v2.obs`) and the dump of ALL modelled tables (`lib2.raw`, every
    column of every Track row `lib2.rows`) after every call, line by line;
  * the DIRECT ORACLES, judged on the implementation's own answers:
      - `lib2.inv`: the executable LibInv of Lib/V2.lean evaluated by the Lean driver on the REAL dump,
      - `lib2.fk`:  the modelled foreign_key_check on the real dump vs the real `PRAGMA foreign_key_check`,
      - `#mode cratesv2spec`: Spec.Forest / Spec.Members (C07/C08 spec, independent of every model) fed with the
        real library's answers,
      - Python: crate.tracks() only lists ids of rows of the real Track table; a call that threw left the dump
        untouched; every stored blob decodes; integrity_check.
"""
import random, re
from common import *
import runner
from props.parts import cratesv2 as cv
from props.parts import _tracksv2_gen as TG

SCHEMAS = list(cv.SCHEMAS)
MODE = "#mode lib2"
PROBES = cv.PROBES
hx = cv.hx

# paths: a small pool so that UNIQUE(path) refuses create / update / set_relative_path regularly
POOL = [b"m/a.mp3", b"m/b.flac", b"m/c.wav", b"m/a.mp3", b"d.e/f.ogg", b"x.tar.gz", b"M/A.MP3", "ü/ñ.m4a".encode()]
ODD = [b"m/c", b".hidden", b"trailing.", b"", b"noext"]      # rejected: no extension


def schemas_for(ctx):
    if ctx.tier == "thorough":
        return list(SCHEMAS)
    # quick: the oldest (ChangeLog table), one rotating, the newest
    mid = SCHEMAS[1 + (ctx.seed % 5)]
    return [SCHEMAS[0], mid, SCHEMAS[-1]]


def small_snapshot(rng, tier, uniq, path, rich=0.15):
    if rng.random() < rich:
        s = TG.gen_snapshot(rng, tier, uniq, valid_bias=1.0)
        s["waveform"], s["beatgrid"] = b"", []
        for f in TG.STR_FIELDS:
            if s.get(f) and len(s[f]) > 40:
                s[f] = s[f][:40]
    else:
        s = {"title": b"t%d" % uniq, "rating": rng.choice([None, 40, 100]), "year": rng.choice([None, 1999])}
        if rng.random() < 0.3:
            s["hot_cues"] = [None, (b"c", 1000.0, (255, 1, 2, 3))]
    s["relative_path"] = path
    return TG.fmt_snapshot(s)


class Gen(cv.Gen):
    """cratesv2's history generator with REAL tracks: create_track / update / setters / remove_track on full
    snapshots, interleaved with the crate and membership calls (handles of removed things stay in use)."""

    def __init__(self, rng, tier, hid, foreign=False, prepare=False, **kw):
        super().__init__(rng, **kw)
        self.foreign = foreign
        self.prepare = prepare
        self.tier = tier
        self.uniq = hid * 1000
        self.fresh = 0

    def _dead(self):
        dc = {o.split()[1] for o in self.ops if o.startswith("rmcrate ")}
        dt = {o.split()[1] for o in self.ops if o.startswith("rmtrack ")}
        return dc, dt

    def anyc(self):
        # mostly handles of crates that were not removed (a removed parent takes its subtree along: approximate)
        dc, _ = self._dead()
        live = [c for c in self.crates if c not in dc]
        if live and self.rng.random() < 0.85:
            return self.rng.choice(live)
        return self.rng.choice(self.crates)

    def anyt(self):
        _, dt = self._dead()
        live = [t for t in self.tracks if t not in dt]
        if live and self.rng.random() < 0.8:
            return self.rng.choice(live)
        return self.rng.choice(self.tracks)

    def path(self, collide=0.25):
        r = self.rng
        self.fresh += 1
        k = r.random()
        if k < collide:
            return r.choice(POOL)
        if k < collide + 0.04:
            return r.choice(ODD)
        return b"music/t%d.%s" % (self.fresh, r.choice([b"mp3", b"flac", b"wav"]))

    def mktrack(self, fresh_only=False):
        self.nt += 1
        v = "t%d" % self.nt
        self.tracks.append(v)
        p = (b"new/%d.mp3" % self.nt) if fresh_only else self.path()
        self.uniq += 1
        self.ops.append("mktrack %s %s" % (v, small_snapshot(self.rng, self.tier, self.uniq, p, rich=0.0 if fresh_only else 0.15)))

    def remktrack(self):
        """create_track onto an existing handle variable (the old handle is dropped by the script)"""
        v = self.rng.choice(self.tracks)
        self.uniq += 1
        self.ops.append("mktrack %s %s" % (v, small_snapshot(self.rng, self.tier, self.uniq, self.path(0.4))))

    def track_op(self):
        r = self.rng
        if not self.tracks:
            return self.mktrack(fresh_only=True)
        v = self.anyt()
        k = r.random()
        self.uniq += 1
        if self.prepare and r.random() < 0.12:
            # Engine puts a track on its prepare list (a PreparelistEntity row; not a call of the library)
            self.ops.append("lib2.plantprep %s" % v)
            return
        if k < 0.30:
            self.ops.append("update %s %s" % (v, small_snapshot(r, self.tier, self.uniq, self.path(0.35))))
        elif k < 0.55:
            p = r.choice(POOL) if r.random() < 0.6 else self.path(0.0)
            self.ops.append("set %s relative_path %s" % (v, TG.hx(p)))
        elif k < 0.85:
            f, val = TG.gen_setter(r, self.tier, self.uniq)
            if f in ("waveform", "beatgrid"):
                f, val = "title", TG.ostr(b"t%d" % self.uniq)
            self.ops.append("set %s %s %s" % (v, f, val))
        elif k < 0.93:
            self.ops.append("rmtrack %s" % v)
        else:
            self.remktrack()

    def member_op(self):
        r = self.rng
        if not self.tracks or (len(self.tracks) < self.max_tracks and r.random() < 0.12):
            return self.mktrack()
        if not self.crates:
            return self.create()
        k = r.random()
        if self.foreign and k < 0.10:
            # other software adds an entry for a track of ANOTHER database with the same numeric id
            self.ops.append("addforeign %s %s %d" % (self.anyc(), self.anyt(), r.choice([1, 1, 2])))
        elif k < 0.50:
            self.ops.append("addtrack %s %s" % (self.anyc(), self.anyt()))
        elif k < 0.55:
            self.ops.append("addtrackid %s %d" % (self.anyc(), r.choice([0, -1, 99, 1, 2, 3, 7])))
        elif k < 0.75:
            self.ops.append("rmtrackfrom %s %s" % (self.anyc(), self.anyt()))
        elif k < 0.80:
            self.ops.append("cleartracks %s" % self.anyc())
        elif k < 0.92:
            self.ops.append("rmtrack %s" % self.anyt())
        else:
            self.ops.append("crate.q %s tracks" % self.anyc())

    def cname(self):
        r = self.rng
        k = r.random()
        if k < 0.75:
            return "n%d" % self.nc
        if k < 0.80:
            self.crates.pop()          # certainly rejected: do not use the handle later
            return r.choice(cv.NAMES_INVALID)
        return r.choice(cv.NAMES_VALID[:4] if r.random() < 0.7 else cv.NAMES_VALID)


def gen_history(rng, tier, hid, nops, foreign=False, prepare=False):
    g = Gen(rng, tier, hid, foreign=foreign, prepare=prepare, max_crates=7, max_tracks=8)
    # every handle variable is bound by a creation that cannot fail (fresh path, valid name)
    for _ in range(rng.randrange(2, 4)):
        g.mktrack(fresh_only=True)
    g.padding()
    for _ in range(rng.randrange(3, 5)):
        v = g.newc()
        others = g.crates[:-1]
        if others and rng.random() < 0.5:
            g.ops.append("mksub %s %s %s" % (v, rng.choice(others), hx("n%d" % g.nc)))
        else:
            g.ops.append("mkroot %s %s" % (v, hx("n%d" % g.nc)))
    for _ in range(rng.randrange(1, 3)):
        g.mktrack(fresh_only=True)
        if rng.random() < 0.5:
            g.padding()
    while len(g.ops) < nops:
        k = rng.random()
        if k < 0.40:
            g.member_op()
        elif k < 0.70:
            g.track_op()
        elif k < 0.78:
            g.padding()
        else:
            g.forest_op()
    # padding() calls cratesv2's mktrack through self.mktrack → already real snapshots
    return g.ops


OBS_Q = ("crate.q", "db.q", "snap", "get")


def wrap(schema, ops, storage="mem", rows_every=6, create="create"):
    """Full script: after every call the crate observation and the dump of all tables."""
    lines = [MODE, "%s %s %s" % (create, schema, storage), "lib2.raw"]
    n = 0
    for op in ops:
        lines.append(op)
        if op.startswith(OBS_Q):
            continue
        n += 1
        lines.append("v2.obs " + " ".join(PROBES))
        lines.append("lib2.raw")
        if n % rows_every == 0:
            lines.append("lib2.rows")
            lines.append("lib2.pragma")
    lines.append("lib2.rows")
    lines.append("lib2.pragma")
    return lines


NOCOMPARE = "#nocompare"


def fault_suffix(rng, k, tag):
    """A track that is in two crates and has ChangeLog rows is removed while the k-th faultable statement
    (BEGIN, each DELETE / UPDATE, COMMIT) of database::remove_track fails: the call must throw and leave every table
    untouched.  Judged by the oracles on the real dumps only (the model cannot know how many statements there are)."""
    t, c1, c2 = "tf%s" % tag, "cf%sa" % tag, "cf%sb" % tag
    pre = ["mktrack %s %s" % (t, TG.fmt_snapshot({"relative_path": b"fault/%s.mp3" % tag.encode(), "title": b"f"})),
           "mkroot %s %s" % (c1, hx("F1" + tag)), "mkroot %s %s" % (c2, hx("F2" + tag)),
           "addtrack %s %s" % (c1, t), "addtrack %s %s" % (c2, t), "set %s title s41" % t]
    post = [NOCOMPARE, "fault %d" % k, "rmtrack %s" % t, "fault.status", "v2.obs " + " ".join(PROBES), "lib2.raw", "lib2.pragma",
            "crate.q %s tracks" % c1, "rmtrack %s" % t, "v2.obs " + " ".join(PROBES), "lib2.raw", "lib2.pragma"]
    return pre, post


def schema_of(lines):
    return lines[1].split()[1]


def spec_feed(lines, hout):
    """the crate / membership lines for the Spec oracle of the crates package (`cratesv2spec`)"""
    sp = ["#mode cratesv2spec"]
    idx = [None]
    for i, (l, h) in enumerate(zip(lines, hout)):
        if i == 0:
            continue
        t = l.split()
        if not t:
            continue
        c = t[0]
        if c == "mktrack":
            if h.startswith("ok id="):
                sp.append("v2.mktrack %s x => %s" % (t[1], h))
                idx.append(i)
            continue
        if c in ("update", "set", "snap", "get", "lib2.raw", "lib2.rows", "lib2.pragma", "lib2.plantprep", "gettrack", "fault", "fault.status"):
            continue
        sp.append("%s => %s" % (l, h))
        idx.append(i)
    return sp, idx


def run_all(scripts, watchdog=30):
    hres = runner.run_harness(scripts, watchdog=watchdog, stateless=False)
    mres = runner.run_model(scripts)
    cut, spec_scripts, spec_idx, inv_scripts, inv_idx = [], [], [], [], []
    for lines, (hout, _) in zip(scripts, hres):
        n = len(lines)
        for i, h in enumerate(hout):
            if h.startswith("ub "):
                n = i + 1
                break
        cut.append(n)
        sp, idx = spec_feed(lines[:n], hout[:n])
        spec_scripts.append(sp)
        spec_idx.append(idx)
        sch = schema_of(lines)
        iv, ii = [], []
        for i, (l, h) in enumerate(zip(lines[:n], hout[:n])):
            if l == "lib2.raw" and h.startswith("ok "):
                iv.append("lib2.inv %s %s" % (sch, h))
                ii.append(i)
                iv.append("lib2.fk %s %s" % (sch, h))
                ii.append(i)
        inv_scripts.append(iv)
        inv_idx.append(ii)
    sres = runner.run_model(spec_scripts)
    ires = runner.run_model(inv_scripts)
    out = []
    for k, (lines, (hout, rep), mout) in enumerate(zip(scripts, hres, mres)):
        n = cut[k]
        spec = [""] * n
        for j, i in enumerate(spec_idx[k]):
            if i is not None and j < len(sres[k]):
                spec[i] = sres[k][j]
        inv, fk = [""] * n, [""] * n
        for j, i in enumerate(inv_idx[k]):
            if j < len(ires[k]):
                if j % 2 == 0:
                    inv[i] = ires[k][j]
                else:
                    fk[i] = ires[k][j]
        out.append({"lines": lines[:n], "impl": hout[:n], "model": mout[:n], "spec": spec, "inv": inv, "fk": fk, "reports": rep})
    return out


def same(h, m):
    if h == m:
        return True
    return h.startswith("bad-op") and m.startswith("bad-op")


def track_ids_of_raw(raw):
    m = re.search(r" Track(\S+) Playlist", raw)
    if not m or m.group(1) == "()":
        return []
    return [int(r.split(",")[0]) for r in m.group(1)[1:-1].split(")(")]


def obs_contents(obs):
    """v2.obs answer -> {crate id: [track ids]}, database tracks"""
    d = {}
    for m in re.finditer(r"\{(-?\d+) n=\S+ p=\S+ ch=\S+ de=\S+ tr=\[([^\]]*)\]", obs):
        d[int(m.group(1))] = [int(x) for x in m.group(2).split(",") if x]
    m = re.search(r" tracks=\[([^\]]*)\]", obs)
    return d, ([int(x) for x in m.group(1).split(",") if x] if m else None)


MUTATORS = ("mktrack", "update", "set", "rmtrack", "mkroot", "mkroot_after", "mksub", "mksub_after", "rename",
            "setparent", "rmcrate", "addtrack", "addtrackid", "rmtrackfrom", "cleartracks", "addforeign", "lib2.plantprep")


def judge(results, part, want=("inv", "fk", "spec", "live", "failed", "blobs", "pragma", "stale")):
    """-> divergences (model != implementation), violations (implementation contradicts an oracle), stats"""
    divergences, violations = [], []
    st = {"evaluations": 0, "states": set(), "outcomes": {}, "ops": {}, "inv_evaluated": 0, "fk_evaluated": 0,
          "failed_calls_checked": 0, "rows_checked": 0, "tracks_per_state": {}, "entities_per_state": {}, "changelog_rows": {}}

    def viol(r, i, tag, what):
        violations.append({"tag": "%s_%s" % (part, tag), "signature": None,
                           "header": {"kind": "script", "what": what[:500], "part": part, "schema": schema_of(r["lines"])},
                           "body": list(r["lines"][:i + 1]) + ["impl(last): " + r["impl"][i][:800], "model(last): " + r["model"][i][:800]]})

    for r in results:
        lines, impl, model = r["lines"], r["impl"], r["model"]
        first_div = None
        prev_raw = None
        last_call = None
        found = False
        compare = True
        tvar, dead = {}, set()
        for i, l in enumerate(lines):
            if l == NOCOMPARE:
                compare = False
            t_ = l.split()
            if t_ and i < len(impl):
                if ("stale" in want and not found and t_[0] in ("update", "set", "rmtrack", "addtrack", "rmtrackfrom") and
                        len(t_) > 2 - (t_[0] == "rmtrack") and impl[i].startswith("ok")):
                    v_ = t_[2] if t_[0] in ("addtrack", "rmtrackfrom") else t_[1]
                    if tvar.get(v_) in dead and t_[0] != "rmtrackfrom":
                        # a write through the handle of a REMOVED track must be rejected (C01: never silently dropped)
                        viol(r, i, "stale_write", "`%s` through the handle of a removed track (id %d) returned normally: the write "
                             "was silently dropped instead of being rejected with an exception" % (" ".join(t_[:3])[:60], tvar[v_]))
                        found = True
                if t_[0] == "mktrack" and impl[i].startswith("ok id="):
                    tvar[t_[1]] = int(impl[i][6:])
                if t_[0] == "rmtrack" and impl[i].startswith("ok") and t_[1] in tvar:
                    dead.add(tvar[t_[1]])
            if l.startswith("#"):
                continue
            st["evaluations"] += 1
            h, m = impl[i], model[i]
            if compare and not same(h, m) and first_div is None:
                first_div = i
            if l.startswith("fault.status"):
                k = "fault " + ("fired" if "fired=1" in h else "not-fired")
                st["outcomes"][k] = st["outcomes"].get(k, 0) + 1
            c = l.split()[0]
            if c in MUTATORS:
                o = " ".join(h.split()[:2]) if not h.startswith("ok") else "ok"
                st["outcomes"][o] = st["outcomes"].get(o, 0) + 1
                k = c + (":" + l.split()[2] if c == "set" else "")
                st["ops"][k] = st["ops"].get(k, 0) + 1
                last_call = i
            if found:
                continue
            if l == "lib2.raw":
                st["states"].add(h)
                nt = len(track_ids_of_raw(h))
                st["tracks_per_state"][str(nt)] = st["tracks_per_state"].get(str(nt), 0) + 1
                ne = h.count("(", h.find(" PlaylistEntity"), h.find(" ChangeLog")) if " PlaylistEntity()" not in h else 0
                st["entities_per_state"][str(ne)] = st["entities_per_state"].get(str(ne), 0) + 1
                if "inv" in want and r["inv"][i]:
                    st["inv_evaluated"] += 1
                    if not r["inv"][i].startswith("ok"):
                        viol(r, i, "libinv", "LibInv fails on the real database after `%s` (%s): %s" % (
                            lines[last_call][:80] if last_call else "create", impl[last_call][:40] if last_call else "", r["inv"][i][:300]))
                        found = True
                        continue
                if "failed" in want and last_call is not None and prev_raw is not None and not impl[last_call].startswith("ok"):
                    st["failed_calls_checked"] += 1
                    if h != prev_raw:
                        viol(r, i, "failed_call", "the call `%s` did not return normally (%s) but the stored tables changed" % (
                            lines[last_call][:80], impl[last_call][:60]))
                        found = True
                        continue
                prev_raw = h
                if "live" in want and i > 0 and lines[i - 1].startswith("v2.obs") and impl[i - 1].startswith("ok"):
                    cont, dbt = obs_contents(impl[i - 1])
                    ids = set(track_ids_of_raw(h))
                    bad = [(c_, t) for c_, ts in cont.items() for t in ts if t not in ids]
                    if bad:
                        viol(r, i, "not_live", "crate.tracks() lists a track that is no row of table Track: (crate, track) %s" % bad[:4])
                        found = True
                        continue
                    if dbt is not None and sorted(dbt) != sorted(ids):
                        viol(r, i, "db_tracks", "database.tracks() = %s but table Track holds %s" % (sorted(dbt), sorted(ids)))
                        found = True
                        continue
            elif l == "lib2.pragma" and "pragma" in want and h.startswith("ok "):
                st["fk_evaluated"] += 1
                if "fk=()" not in h:
                    viol(r, i, "fk", "PRAGMA foreign_key_check reports rows: %s" % h[:200])
                    found = True
                elif "integrity=(s6f6b)" not in h:
                    viol(r, i, "integrity", "PRAGMA integrity_check: %s" % h[:200])
                    found = True
                else:
                    # the modelled foreign_key_check on the last real dump agrees (0 violations)
                    j = max((k for k in range(i) if lines[k] == "lib2.raw"), default=None)
                    if j is not None and r["fk"][j] and not r["fk"][j].startswith("ok 0"):
                        viol(r, i, "fk_model", "the modelled foreign_key_check finds violations on the real dump: %s" % r["fk"][j][:200])
                        found = True
            elif l == "lib2.rows" and "blobs" in want and h.startswith("ok "):
                st["rows_checked"] += 1
                if "undecodable" in h or "not-a-blob" in h:
                    viol(r, i, "blob", "a stored performance blob does not decode")
                    found = True
            if "spec" in want and not found and r["spec"][i].startswith("VIOLATION"):
                viol(r, i, "spec", r["spec"][i][len("VIOLATION "):])
                found = True
            elif r["spec"][i] and not r["spec"][i].startswith(("ok", "skip", "VIOLATION")):
                divergences.append({"input": "spec oracle line %d: %s" % (i, l[:200]), "impl": h[:200], "model": r["spec"][i][:200]})
        if first_div is not None:
            i = first_div
            divergences.append({"input": " ; ".join(x for x in lines[1:i + 1] if not x.startswith(("v2.obs", "lib2.")))[-1500:] + " ; " + lines[i],
                                "impl": impl[i][:600], "model": model[i][:600], "schema": schema_of(lines)})
    return divergences, violations, st


def shrink(v, part, want):
    """Delta-debug a violating script: drop calls while some oracle of `want` still objects."""
    body = [l for l in v["body"] if not l.startswith(("impl(", "model("))]
    if len(body) < 4 or NOCOMPARE in body:
        return v
    create, schema, storage = body[1].split()[0], body[1].split()[1], body[1].split()[2]
    ops = [l for l in body[2:] if not l.startswith(("v2.obs", "lib2.raw", "lib2.rows", "lib2.pragma"))]

    def bad(cand):
        res = run_all([wrap(schema, cand, storage, create=create)])
        _, viol, _ = judge(res, part, want)
        return viol[0] if viol else None
    cur, best = ops, None
    changed, rounds = True, 0
    while changed and rounds < 5 and len(cur) > 1:
        changed = False
        rounds += 1
        for i in range(len(cur) - 1, -1, -1):
            cand = cur[:i] + cur[i + 1:]
            if not cand:
                continue
            b = bad(cand)
            if b:
                cur, best, changed = cand, b, True
    return best or v


def finish(ctx, part, results, rule, samples, want, extra_hist=None):
    div, viol, st = judge(results, part, want)
    viol = [shrink(v, part, want) for v in viol[:2]] + viol[2:6]
    hist = {"outcomes": st["outcomes"], "ops": st["ops"], "libinv_evaluated_on_real_dumps": st["inv_evaluated"],
            "pragma_checks": st["fk_evaluated"], "failed_calls_checked_unchanged": st["failed_calls_checked"],
            "full_row_dumps": st["rows_checked"], "tracks_per_state": st["tracks_per_state"],
            "entities_per_state": st["entities_per_state"]}
    if extra_hist:
        hist.update(extra_hist)
    return {"ok": not div and not viol, "evaluations": st["evaluations"], "distinct_nontrivial": len(st["states"]),
            "rule": rule + "; non-trivial = distinct dumps of all tables reached on the real library",
            "samples": samples, "histograms": hist, "divergences": div[:20], "violations": viol}


def replay(ctx, hdr, body):
    lines = [l for l in body if not l.startswith(("impl(", "model(", "# "))]
    if not lines or lines[0] != MODE:
        return None
    res = run_all([lines])[0]
    ok = True
    text = []
    div, viol, _ = judge([res], hdr.get("part", "lib2"))
    for l, h, m in zip(res["lines"], res["impl"], res["model"]):
        flag = ""
        if not same(h, m):
            flag = "   <-- model differs"
            ok = False
        text.append("%s\n   impl:  %s\n   model: %s%s" % (l[:300], h[:600], m[:600], flag))
    for v in viol:
        ok = False
        text.append("PROBLEM " + v["header"]["what"])
    text.append("recorded verdict: %s" % hdr.get("what", "(none)"))
    return ok, "\n".join(text)
