"""C08, whole-library part for schema 1.x (composite-v1): membership over histories that interleave crate, membership
and TRACK calls (real snapshots, setters, update) on one model."""
from props.parts import _lib1

NS = "EngineModel.Properties.C08Lib1."
LEAN_MODULES = ["Properties.C08Lib1"]
THEOREMS = [NS + t for t in [
    "C08_lib1_crates_projection",
    "C08_lib1_refines",
    "C08_lib1_members_are_live_tracks",
    "C08_lib1_frame_between_families",
    "C08_lib1_track_removal_erases_everything",
    "C08_lib1_add_track",
    "C08_lib1_removed_track_stays_removed_partial",
    "C08_lib1_removed_track_stays_removed_counterexample",
    "C08_lib1_removed_track_never_returns_autoincrement",
    "C08_lib1_removed_crate_stays_removed_partial",
    "C08_lib1_removed_crate_stays_removed_counterexample",
]]
ASSUMPTIONS = [
    "1.x composite: `crOps` projects a history of composite calls on the crate operations it performs; the crates "
    "package's theorems (C07 / C08 / C11 1.x) quantify over all operation lists and therefore apply to every composite "
    "history (C08_lib1_crates_projection)",
    "1.x: ids of removed tracks are re-issued on the rowid schemas (< 1.17.0): the stale-handle clause is proved for "
    "continuations in which no create_track reports that id (C08_lib1_removed_track_stays_removed_partial) and refuted in "
    "general (…_counterexample); same family as the recorded finding v1-stale-track-handle-revived-by-id-reuse (C15)",
]
TRUSTED_EXTRA = []
MANIFEST_TEXT = ("Schema 1.x on the whole-library model: tracks() / containing_crates() / database.tracks() of the "
                 "composite are the membership Spec's relation, converse and live tracks after every interleaving of crate, "
                 "membership and track calls (C08_lib1_refines); every member of every crate is a LIVE track in the sense of "
                 "the track calls — is_valid() true, snapshot() does not throw track_deleted (C08_lib1_members_are_live_tracks); "
                 "remove_track erases memberships and every dependent row of both files at once; frame between the table "
                 "families; stale track and crate handles stay dead until the id is re-issued (_partial + _counterexample, `reissues` form); on the AUTOINCREMENT schemas a removed track never returns (full statement).")


def tie(ctx):
    plan = [("members", 18, 10), ("mixed", 14, 3)] if ctx.tier == "quick" else [("members", 36, 30), ("mixed", 30, 10)]
    r = _lib1.run_part(ctx, "C08", plan, ("members",), track_ops=0.35)
    r["rule"] = ("membership-profile histories of the crates package (create-and-remove padding, adds by raw id, removed "
                 "crates and tracks as arguments) woven with real track calls (create_track from generated snapshots incl. "
                 "rejected ones and path collisions, update, setters, track_by_id) on %s; model <-> library after every call; "
                 "direct oracle: Spec.Members stepped with the library's own answers (mode v1oracle) + every member of every "
                 "crate is a live track for the track calls (is_valid, snapshot)" % ", ".join(sorted(r["histograms"]["schemas"])))
    return r


def replay(ctx, hdr, body):
    if hdr.get("oracle", "").startswith("lib1.members"):
        return _lib1.replay(ctx, hdr, body)
    return None
