"""Helper for properties whose check is assembled from independent parts
(e.g. schema 1.x and schema 2.x halves built by different work-packages).
A part is a module tools/props/parts/<name>.py with THEOREMS, LEAN_MODULES,
ASSUMPTIONS, tie(ctx) (same contract as a plugin's tie) and optionally
TRUSTED_EXTRA / TRANSLATORS / MANIFEST_TEXT (a sentence for the claimed level)."""
import importlib, os


def _module_exists(m):
    """A part may name a Lean module that another work-package has not delivered yet; importing a
    missing module would make the audit of the delivered theorems fail to elaborate."""
    lean = os.path.join(os.path.dirname(os.path.dirname(os.path.dirname(os.path.abspath(__file__)))), "lean")
    return os.path.exists(os.path.join(lean, *m.split(".")) + ".lean")


def load_parts(names):
    parts, missing = [], []
    for n in names:
        try:
            parts.append(importlib.import_module("props.parts." + n))
        except ImportError:
            missing.append(n)
    return parts, missing


def install(ns, pid, part_names, manifest):
    """Populate a plugin module's namespace `ns` from its parts."""
    parts, missing = load_parts(part_names)
    ns["ID"] = pid
    ns["PARTS"] = [p.__name__.split(".")[-1] for p in parts]
    ns["MISSING_PARTS"] = missing
    ns["REGISTERED"] = bool(parts)   # claimed as soon as one part exists; missing parts are named in the note
    ns["STATELESS"] = False
    ns["THEOREMS"] = [t for p in parts for t in p.THEOREMS]
    ns["LEAN_MODULES"] = sorted({m for p in parts for m in p.LEAN_MODULES if _module_exists(m)})
    ns["ASSUMPTIONS"] = [a for p in parts for a in getattr(p, "ASSUMPTIONS", [])]
    ns["TRUSTED_EXTRA"] = [a for p in parts for a in getattr(p, "TRUSTED_EXTRA", [])]
    tr = {}
    for p in parts:
        tr.update(getattr(p, "TRANSLATORS", {}))
    ns["TRANSLATORS"] = tr
    m = dict(manifest)
    extra = " ".join(getattr(p, "MANIFEST_TEXT", "") for p in parts).strip()
    if extra:
        m["text"] = (m["text"] + " " + extra).strip()
    if missing:
        m["note"] = (m.get("note", "") + " NOT YET COVERED by this check: parts " + ", ".join(missing) +
                     " (the corresponding schema generation is outside the model and the tie).").strip()
    ns["MANIFEST"] = m

    def tie(ctx):
        out = {"ok": True, "evaluations": 0, "distinct_nontrivial": 0, "rule": "", "samples": [],
               "histograms": {}, "divergences": [], "violations": [], "extra": {}}
        for p in parts:
            name = p.__name__.split(".")[-1]
            r = p.tie(ctx)
            out["ok"] = out["ok"] and bool(r.get("ok"))
            out["evaluations"] += int(r.get("evaluations", 0))
            out["distinct_nontrivial"] += int(r.get("distinct_nontrivial", 0))
            out["rule"] += "[%s] %s  " % (name, r.get("rule", ""))
            out["samples"] += r.get("samples", [])[:4]
            out["histograms"][name] = r.get("histograms", {})
            out["divergences"] += r.get("divergences", [])
            out["violations"] += r.get("violations", [])
            for k in ("exhaustive", "self_test", "extra", "crash"):
                if k in r:
                    out["extra"]["%s.%s" % (name, k)] = r[k]
        return out
    ns["tie"] = tie

    def replay(ctx, hdr, body):
        """A part may define replay(ctx, hdr, body) -> (ok, text) or None (= not my script)."""
        for p in parts:
            if hasattr(p, "replay"):
                r = p.replay(ctx, hdr, body)
                if r is not None:
                    return r
        import re, runner
        script = [l for l in body if not re.match(r"^[A-Za-z_()0-9 ]{1,20}: ", l)]
        hout, _ = runner.run_harness_script(script, stateless=False)
        mout = runner.run_model_script(script)
        ok = all(h == m for h, m in zip(hout, mout))
        return ok, "\n".join("%s\n   impl:  %s\n   model: %s%s" % (l[:300], h[:300], m[:300], "" if h == m else "   <-- differ")
                             for l, h, m in zip(script, hout, mout))
    ns["replay"] = replay
