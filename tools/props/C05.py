"""C05 — Decoders are safe and terminate on arbitrary bytes."""
import random, struct, zlib
from common import *
import runner
from props import _codecs as cd

ID = "C05"
LEAN_MODULES = ["Properties.C05"]
THEOREMS = ["EngineModel.Properties.C05." + t for t in [
    "C05_v2_track_safe", "C05_v2_beat_safe", "C05_v2_ovw_safe", "C05_v2_cues_safe", "C05_v2_loops_safe",
    "C05_v2_throw_class",
    "C05_v1_track_safe", "C05_v1_beat_safe", "C05_v1_ovw_safe",
    "C05_v1_hires_safe", "C05_v1_cues_safe", "C05_v1_loops_safe",
    "C05_v1_throw_class",
    "C05_decode_steps", "C05_decode_steps_v1_beat_abs", "C05_decode_steps_faithful", "C05_decode_steps_shape_v2_loops",
    "C05_uncompress_total", "C05_uncompress_no_ub", "C05_uncompress_old_end_counterexample", "C05_unz_safe",
]]
ASSUMPTIONS = [
    "zlib is not modelled: the theorem about the decompression loops is generic in an inflate oracle that honours the "
    "explicit call contract `Impl.Zlib.Contract` (consumes at most avail_in, produces at most avail_out, finite output "
    "potential growing at most linearly with the input); the tie runs the real libz behind a link-time wrapper that "
    "checks every region handed to inflate() with __asan_region_is_poisoned and counts calls (watchdog)",
    "memory safety inside zlib / libstdc++ is not modelled; what is modelled is that the library honours their preconditions",
    "allocations proportional to the input size succeed (std::bad_alloc would be an exception, not undefined behaviour)",
    "the result-level model of zlib_uncompress used by the tie replaces the loops by the independent Lean inflate "
    "(EngineModel/Zlib/Inflate.lean); its agreement with libz is sampled, not proved",
]
MANIFEST = dict(
    text="Lean theorems: no byte string of any length makes a Model decoder produce an undefined-behaviour outcome "
         "(every read past the buffer, every signed overflow is an explicit `ub` outcome of the cursor monad, and the "
         "theorems show it is unreachable), the only exceptions are derived from std::exception; the two nested loops "
         "of zlib_uncompress terminate within an explicit fuel bound linear in the input and never hand zlib a region "
         "outside the input vector, for every inflate oracle honouring an explicit call contract (structure parameter, "
         "no axiom); the pre-fix end pointer is proved to violate it. Tie: the sanitizer build of the real decoders "
         "and of zlib_uncompress runs adversarial bytes (exhaustive short inputs, every truncation and single-byte "
         "corruption of valid blobs, every boundary value in every count/length field, seeded mutation) and its "
         "outcome class — including `ub` kinds — must equal the Model's on every input; any `ub` of the real code is "
         "reported as a violation with the input as replay.",
    note="T (partial): zlib's own memory safety and termination are assumed through the call contract; inputs of the "
         "tie are at most 64 KiB; allocation failure is not modelled.",
    technique="Lean 4 theorems over a cursor-monad Model with explicit ub outcomes + oracle-generic loop termination proof "
              "+ sanitizer differential run",
    ref="6/C05")
TRUSTED_EXTRA = ["harness/djv_wrap.cpp (--wrap=inflate region check and call counter)"]


# model regenerated from the C++ sources + its equality with the hand model (see props/_implgen.py)
from props import _implgen
LEAN_MODULES = LEAN_MODULES + _implgen.LEAN_MODULES
THEOREMS = THEOREMS + _implgen.THEOREMS_FOR[ID]
ASSUMPTIONS = ASSUMPTIONS + _implgen.ASSUMPTIONS
TRUSTED_EXTRA = TRUSTED_EXTRA + _implgen.TRUSTED_EXTRA
TRANSLATORS = dict(globals().get("TRANSLATORS", {}), **_implgen.TRANSLATORS)


def run_both(lines, watchdog=10):
    scripts = runner.shard(lines, NCPU)
    hres = runner.run_harness(scripts, stateless=True, watchdog=watchdog)
    hout = [o for (outs, _) in hres for o in outs]
    mout = [o for outs in runner.run_model(scripts) for o in outs]
    return hout, mout


def frame(payload, z):
    return struct.pack(">I", len(payload) & 0xffffffff) + z


def gen_inputs(rng, tier, hist):
    lines = []

    def add(stream, kind, b):
        lines.append(("dec %s %s" % (kind, cd.hexb(b)), stream))

    # (a) exhaustive short inputs
    short = [b""] + [bytes([a]) for a in range(256)]
    if tier == "thorough":
        short += [bytes([a, b]) for a in range(256) for b in range(256)]
    else:
        short += [bytes([rng.getrandbits(8), rng.getrandbits(8)]) for _ in range(300)]
    for k in cd.KINDS:
        for b in short:
            add("short", k, b)
    # (b)+(d) valid payloads from the Model encoder, then truncation / corruption / mutation
    g = cd.Gen(rng, hist)
    vals = []
    for k in cd.KINDS:
        n = 6 if tier == "quick" else 40
        tries = 0
        while n > 0 and tries < 2000:
            tries += 1
            v = g.value(k)
            if cd.format_can_hold(k, v):
                vals.append((k, v))
                n -= 1
    enc_lines = ["enc %s %s" % (k, cd.enc_text(k, v)) for (k, v) in vals]
    mo = [o for outs in runner.run_model(runner.shard(enc_lines, NCPU)) for o in outs]
    valid = []
    for (k, v), o in zip(vals, mo):
        t = o.split()
        if t and t[0] == "ok":
            p = b"" if t[1] == "-" else bytes.fromhex(t[1])
            valid.append((k, p))
    for k, p in valid:
        if len(p) > 3000:
            continue
        for b in cd.truncations_and_corruptions(p, rng, all_positions=(tier == "thorough" or len(p) <= 120)):
            add("trunc_corrupt", k, b)
        for _ in range(30 if tier == "quick" else 400):
            add("mutation", k, cd.mutate(p, rng))
    # (c) boundary values in every embedded count / length field
    for k in cd.KINDS:
        for b in cd.boundary_payloads(k, rng):
            add("boundary", k, b)
    # (e) the framing layer
    zl = []

    def addz(stream, cmd, b):
        zl.append(("%s %s" % (cmd, cd.hexb(b)), stream))

    zshort = [b""] + [bytes([a]) for a in range(256)] + [bytes([rng.getrandbits(8) for _ in range(n)])
                                                          for n in (2, 3, 3, 4, 4, 5, 6) for _ in range(60)]
    if tier == "thorough":
        zshort += [bytes([a, b]) for a in range(256) for b in range(256)]
    for b in zshort:
        addz("z_short", "unz", b)
    pays = [p for (_, p) in valid if len(p) <= 2000][:12 if tier == "quick" else 60]
    pays += [bytes(40000), bytes(rng.getrandbits(8) for _ in range(20000)), b"ab" * 30000]
    for p in pays:
        for lvl in (0, 6):
            z = zlib.compress(p, lvl)
            fb = frame(p, z)
            addz("z_valid", "unz", fb)
            if len(fb) <= 600:
                for b in cd.truncations_and_corruptions(fb, rng, all_positions=(len(fb) <= 150 or tier == "thorough")):
                    addz("z_trunc_corrupt", "unz", b)
            else:
                for cut in (4, 5, 6, len(fb) // 2, len(fb) - 5, len(fb) - 4, len(fb) - 1):
                    addz("z_trunc_corrupt", "unz", fb[:cut])
                for _ in range(6):
                    c = bytearray(fb)
                    c[rng.randrange(4, len(c))] ^= 1 << rng.randrange(8)
                    addz("z_trunc_corrupt", "unz", bytes(c))
            # length-prefix boundaries
            for L in (0, 1, len(p) - 1, len(p), len(p) + 1, 2 ** 31 - 1, 2 ** 31, 2 ** 32 - 1, 2 ** 24):
                addz("z_length_field", "unz", struct.pack(">I", L & 0xffffffff) + z)
            addz("z_trailing", "unz", fb + bytes(rng.getrandbits(8) for _ in range(rng.randrange(1, 20))))
            for _ in range(10 if tier == "quick" else 100):
                addz("z_mutation", "unz", fb[:4] + cd.mutate(fb[4:], rng))
    # decz: framed blobs through every compressed decoder
    for k, p in valid[:40 if tier == "quick" else 300]:
        if k in cd.RAW_KINDS or len(p) > 2000:
            continue
        fb = frame(p, zlib.compress(p, 6))
        addz("decz", "decz " + k, fb)
        addz("decz", "decz " + k, fb[:-3])
        c = bytearray(fb)
        c[rng.randrange(len(c))] ^= 0x10
        addz("decz", "decz " + k, bytes(c))
        addz("decz", "decz " + k, frame(p, zlib.compress(cd.mutate(p, rng), 6)))
    return lines + zl


def tie(ctx):
    rng = random.Random(ctx.seed * 32452843 + 5)
    hist = {}
    items = gen_inputs(rng, ctx.tier, hist)
    lines = [l for (l, _) in items]
    hout, mout = run_both(lines)
    divergences, violations = [], []
    streams, outcomes = {}, {}
    distinct = set()
    for (l, st), h, m in zip(items, hout, mout):
        streams[st] = streams.get(st, 0) + 1
        cls = h.split()[0] + ((" " + h.split()[1]) if not h.startswith("ok") and len(h.split()) > 1 else "")
        outcomes[cls] = outcomes.get(cls, 0) + 1
        if h != m:
            divergences.append({"input": l[:400], "impl": h[:200], "model": m[:200]})
        # direct oracle: the property on the implementation's own outcome
        if not (h.startswith("ok") or h.startswith("throw ")):
            violations.append({"tag": "oracle", "signature": None,
                               "header": {"kind": "bytes", "what": "decoder outcome is not a value or a std::exception: " + h},
                               "body": [l, "impl: " + h]})
        if st not in ("short", "z_short") and len(l) > 30:
            distinct.add(l)
    hist.update({"stream:" + k: v for k, v in streams.items()})
    hist.update({"outcome:" + k: v for k, v in outcomes.items()})
    return {
        "ok": not divergences and not violations,
        "evaluations": len(lines),
        "distinct_nontrivial": len(distinct),
        "rule": "adversarial byte strings for the 11 payload decoders and for zlib_uncompress/from_blob on framed blobs: "
                "exhaustive short inputs (all of length <= 1, sampled (quick) or all (thorough) of length 2), every "
                "truncation and single-byte corruption (4 patterns per position) of valid blobs, boundary values "
                "{-1,0,1,fit-1,fit,fit+1,2^31-1,2^31,2^32,2^59,2^61,2^63-1,-2^63} in every count field and label-length "
                "boundaries, seeded structural mutation; the outcome (value text, exception class or sanitizer/watchdog "
                "class) of the real sanitizer build must equal the Model's; non-trivial = distinct input outside the "
                "short-exhaustive streams",
        "samples": [lines[0], lines[len(lines) // 3][:200], lines[2 * len(lines) // 3][:200], lines[-1][:200]],
        "histograms": hist,
        "divergences": divergences[:20],
        "violations": violations[:8],
    }


tie = _implgen.wrap_tie(tie)   # + regenerated model vs real library (translator validation)
