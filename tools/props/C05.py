"""C05 — Decoders are safe and terminate on arbitrary bytes."""
import random, struct, zlib
from common import *
import runner
from props import _codecs as cd

ID = "C05"
LEAN_MODULES = ["Properties.C05"]
THEOREMS = ["EngineModel.Properties.C05." + t for t in [
    "C05_v2_track_safe", "C05_v2_beat_safe", "C05_v2_ovw_safe", "C05_v2_cues_safe", "C05_v2_loops_safe",
    "C05_v2_throw_class",
    "C05_v1_track_safe", "C05_v1_beat_safe", "C05_v1_ovw_safe",
    "C05_v1_hires_safe", "C05_v1_cues_safe", "C05_v1_loops_safe",
    "C05_v1_throw_class",
    "C05_decode_steps", "C05_decode_steps_v1_beat_abs", "C05_decode_steps_faithful", "C05_decode_steps_shape_v2_loops",
    "C05_uncompress_total", "C05_uncompress_no_ub", "C05_uncompress_old_end_counterexample", "C05_unz_safe",
    "C05_checked_arith_exact", "C05_v1_beat_encode_safe", "C05_missing_guard_overflows_counterexample",
    "C05_typed_arith_in_range",
    "C05_decode_steps_shape_v2_cues", "C05_decode_steps_shape_v2_grid", "C05_decode_steps_shape_v2_beat",
    "C05_decode_steps_shape_v1_cues", "C05_decode_steps_shape_v1_loops", "C05_decode_steps_shape_v1_grid",
    "C05_decode_steps_shape_v1_beat", "C05_decode_steps_shape_v1_ovw", "C05_decode_steps_shape_v1_hires",
    "C05_iteration_consumes", "C05_loop_consumes_exact", "C05_decode_reads_faithful", "C05_iteration_reads",
    "C05_decode_reads",
    "C05_uncompress_replay_eq_unz", "C05_replay_fuel", "C05_fromBlob_safe",
]]
ASSUMPTIONS = [
    "zlib is not modelled: the theorem about the decompression loops is generic in an inflate oracle that honours the "
    "explicit call contract `Impl.Zlib.Contract` (consumes at most avail_in, produces at most avail_out, finite output "
    "potential growing at most linearly with the input); the tie runs the real libz behind a link-time wrapper that "
    "checks every region handed to inflate() with __asan_region_is_poisoned and counts calls (watchdog)",
    "memory safety inside zlib / libstdc++ is not modelled; what is modelled is that the library honours their preconditions",
    "a payload is a C++ byte vector, i.e. has fewer than 2^63 bytes (std::vector<std::byte>::max_size() = PTRDIFF_MAX): "
    "explicit hypothesis `bs.length < maxCount` of the theorems about the three waveform decoders, whose length test "
    "computes w * (n + 1) in int64_t (checked in the Model)",
    "allocations proportional to the input size succeed (std::bad_alloc would be an exception, not undefined behaviour)",
    "the result-level model of zlib_uncompress used by the tie replaces the loops by the independent Lean inflate "
    "(EngineModel/Zlib/Inflate.lean); its agreement with libz is sampled, not proved",
]
MANIFEST = dict(
    text="Lean theorems: no byte string of any length makes a Model decoder produce an undefined-behaviour outcome "
         "(every read past the buffer is an explicit `ub oob_read` outcome of the cursor monad; every int64_t/int sum, "
         "difference and product whose operands are not bounded by their types is a checked operation with outcome "
         "`ub signed_overflow` — the waveform length tests w*(n+1), 24*count of the 1.x beat grid, the int index "
         "difference of the 1.x encode_beatgrid — and the theorems show both unreachable: under the guards of the C++ "
         "each checked Model function equals its reading in unbounded Int, with concrete overflow witnesses for each "
         "guard removed), the only exceptions are derived from std::exception; the two nested loops "
         "of zlib_uncompress terminate within an explicit fuel bound linear in the input and never hand zlib a region "
         "outside the input vector, for every inflate oracle honouring an explicit call contract (structure parameter, "
         "no axiom); the pre-fix end pointer is proved to violate it. Tie: the sanitizer build of the real decoders "
         "and of zlib_uncompress runs adversarial bytes (exhaustive short inputs, every truncation and single-byte "
         "corruption of valid blobs, every boundary value in every count/length field, seeded mutation) and its "
         "outcome class — including `ub` kinds — must equal the Model's on every input; any `ub` of the real code is "
         "reported as a violation with the input as replay.",
    note="T (partial): zlib's own memory safety and termination are assumed through the call contract; inputs of the "
         "tie are at most 64 KiB (plus the 786 KB beat grids on the 32768-marker cap); allocation failure is not modelled.",
    technique="Lean 4 theorems over a cursor-monad Model with explicit ub outcomes + oracle-generic loop termination proof "
              "+ sanitizer differential run",
    ref="6/C05")
TRUSTED_EXTRA = ["harness/djv_wrap.cpp (--wrap=inflate region check and call counter)"]


# model regenerated from the C++ sources + its equality with the hand model (see props/_implgen.py)
from props import _implgen
LEAN_MODULES = LEAN_MODULES + _implgen.LEAN_MODULES
THEOREMS = THEOREMS + _implgen.THEOREMS_FOR[ID]
ASSUMPTIONS = ASSUMPTIONS + _implgen.ASSUMPTIONS
TRUSTED_EXTRA = TRUSTED_EXTRA + _implgen.TRUSTED_EXTRA
TRANSLATORS = dict(globals().get("TRANSLATORS", {}), **_implgen.TRANSLATORS)


def run_both(lines, watchdog=10):
    scripts = runner.shard(lines, NCPU)
    hres = runner.run_harness(scripts, stateless=True, watchdog=watchdog)
    hout = [o for (outs, _) in hres for o in outs]
    mout = [o for outs in runner.run_model(scripts) for o in outs]
    return hout, mout


def _i64be(v):
    return struct.pack(">q", v)


def frame(payload, z):
    return struct.pack(">I", len(payload) & 0xffffffff) + z


def gen_inputs(rng, tier, hist):
    lines = []

    def add(stream, kind, b):
        lines.append(("dec %s %s" % (kind, cd.hexb(b)), stream))

    # (a) exhaustive short inputs
    short = [b""] + [bytes([a]) for a in range(256)]
    if tier == "thorough":
        short += [bytes([a, b]) for a in range(256) for b in range(256)]
    else:
        short += [bytes([rng.getrandbits(8), rng.getrandbits(8)]) for _ in range(300)]
    for k in cd.KINDS:
        for b in short:
            add("short", k, b)
    # (b)+(d) valid payloads from the Model encoder, then truncation / corruption / mutation
    g = cd.Gen(rng, hist)
    vals = []
    for k in cd.KINDS:
        n = 6 if tier == "quick" else 40
        tries = 0
        while n > 0 and tries < 2000:
            tries += 1
            v = g.value(k)
            if cd.format_can_hold(k, v):
                vals.append((k, v))
                n -= 1
    enc_lines = ["enc %s %s" % (k, cd.enc_text(k, v)) for (k, v) in vals]
    mo = [o for outs in runner.run_model(runner.shard(enc_lines, NCPU)) for o in outs]
    valid = []
    for (k, v), o in zip(vals, mo):
        t = o.split()
        if t and t[0] == "ok":
            p = b"" if t[1] == "-" else bytes.fromhex(t[1])
            valid.append((k, p))
    for k, p in valid:
        if len(p) > 3000:
            continue
        for b in cd.truncations_and_corruptions(p, rng, all_positions=(tier == "thorough" or len(p) <= 120)):
            add("trunc_corrupt", k, b)
        for _ in range(30 if tier == "quick" else 400):
            add("mutation", k, cd.mutate(p, rng))
    # (c) boundary values in every embedded count / length field
    for k in cd.KINDS:
        for b in cd.boundary_payloads(k, rng):
            add("boundary", k, b)
    # (e) the framing layer
    zl = []

    def addz(stream, cmd, b):
        zl.append(("%s %s" % (cmd, cd.hexb(b)), stream))

    zshort = [b""] + [bytes([a]) for a in range(256)] + [bytes([rng.getrandbits(8) for _ in range(n)])
                                                          for n in (2, 3, 3, 4, 4, 5, 6) for _ in range(60)]
    if tier == "thorough":
        zshort += [bytes([a, b]) for a in range(256) for b in range(256)]
    for b in zshort:
        addz("z_short", "unz", b)
    pays = [p for (_, p) in valid if len(p) <= 2000][:12 if tier == "quick" else 60]
    pays += [bytes(40000), bytes(rng.getrandbits(8) for _ in range(20000)), b"ab" * 30000]
    for p in pays:
        for lvl in (0, 6):
            z = zlib.compress(p, lvl)
            fb = frame(p, z)
            addz("z_valid", "unz", fb)
            if len(fb) <= 600:
                for b in cd.truncations_and_corruptions(fb, rng, all_positions=(len(fb) <= 150 or tier == "thorough")):
                    addz("z_trunc_corrupt", "unz", b)
            else:
                for cut in (4, 5, 6, len(fb) // 2, len(fb) - 5, len(fb) - 4, len(fb) - 1):
                    addz("z_trunc_corrupt", "unz", fb[:cut])
                for _ in range(6):
                    c = bytearray(fb)
                    c[rng.randrange(4, len(c))] ^= 1 << rng.randrange(8)
                    addz("z_trunc_corrupt", "unz", bytes(c))
            # length-prefix boundaries
            for L in (0, 1, len(p) - 1, len(p), len(p) + 1, 2 ** 31 - 1, 2 ** 31, 2 ** 32 - 1, 2 ** 24):
                addz("z_length_field", "unz", struct.pack(">I", L & 0xffffffff) + z)
            addz("z_trailing", "unz", fb + bytes(rng.getrandbits(8) for _ in range(rng.randrange(1, 20))))
            for _ in range(10 if tier == "quick" else 100):
                addz("z_mutation", "unz", fb[:4] + cd.mutate(fb[4:], rng))
    # (f) the INPUT chunking of zlib_uncompress (`(ptr + chunk_size) < end ? chunk_size : end - ptr`): framed blobs whose
    # compressed part is exactly j*16384-1, j*16384, j*16384+1 bytes; the same streams cut at exactly j*16384 bytes
    # (input exhausted on a chunk boundary before the end of the stream); trailing bytes after a stream that ends on
    # the boundary.
    noise = rng.randbytes(4 * cd.CHUNK + 64)
    for j in ((1, 2) if tier == "quick" else (1, 2, 3, 4)):
        hit = {}
        for n in range(j * cd.CHUNK - 80, j * cd.CHUNK + 2):
            z = zlib.compress(noise[:n], 6)
            d = len(z) - j * cd.CHUNK
            if d in (-1, 0, 1) and d not in hit:
                hit[d] = (noise[:n], z)
        for d, (p, z) in sorted(hit.items()):
            fb = frame(p, z)
            addz("z_chunk_boundary", "unz", fb)
            key = "z_chunk_boundary:compressed_len=%d*16384%+d" % (j, d)
            hist[key] = hist.get(key, 0) + 1
            if d == 0:
                addz("z_chunk_boundary", "unz", fb + b"\x00")
                addz("z_chunk_boundary", "unz", fb + rng.randbytes(cd.CHUNK))
                addz("z_chunk_boundary", "unz", fb[:-1])
        big = zlib.compress(noise[:j * cd.CHUNK + 40], 6)
        for cut in (j * cd.CHUNK - 1, j * cd.CHUNK, j * cd.CHUNK + 1):
            addz("z_chunk_boundary", "unz", frame(noise[:j * cd.CHUNK + 40], big[:cut]))
            hist["z_chunk_boundary:truncated_at=%d*16384%+d" % (j, cut - j * cd.CHUNK)] = 1
    # (h) the two zlib header bytes: every (CMF, FLG) pair with a valid header checksum for the CMF values that occur
    # or nearly occur (deflate with each window size, a wrong method, an over-large window) — among them the FLG values
    # with FDICT set, for which inflate() answers Z_NEED_DICT (a positive return code that is not progress): the
    # decoder must refuse, not spin
    hdr_frames = [frame(p, zlib.compress(p, 6)) for p in pays[:3 if tier == "quick" else 12] if len(p) >= 5]
    for fb in hdr_frames:
        for cmf in (0x78, 0x08, 0x18, 0x28, 0x38, 0x48, 0x58, 0x68, 0x79, 0x88, 0x77):
            for flg in range(256):
                if (cmf * 256 + flg) % 31 == 0:
                    addz("z_header", "unz", fb[:4] + bytes([cmf, flg]) + fb[6:])
                    key = "z_header:fdict=%d" % ((flg >> 5) & 1)
                    hist[key] = hist.get(key, 0) + 1
    # (g) the 1.x beat-grid cap: 32768 markers accepted, 32769 rejected by the count check itself (the body is complete,
    # so the size check cannot reject it first); 2 accepted, 1 rejected.
    def beat_payload(n_markers):
        body = b"".join(struct.pack("<dqii", 100.0 * i, 4 * i, 4 if i + 1 < n_markers else 0, 0) for i in range(n_markers))
        return struct.pack(">dd", 44100.0, 1e7) + b"\x01" + _i64be(n_markers) + body + _i64be(0)
    for n in ([32768, 32769] if tier == "quick" else [32767, 32768, 32769, 32770, 65536]) + [1, 2]:
        add("grid_cap", "v1.beat", beat_payload(n))
        hist["grid_cap:v1.beat count=%d (complete body)" % n] = 1
    # decz: framed blobs through every compressed decoder
    for k, p in valid[:40 if tier == "quick" else 300]:
        if k in cd.RAW_KINDS or len(p) > 2000:
            continue
        fb = frame(p, zlib.compress(p, 6))
        addz("decz", "decz " + k, fb)
        addz("decz", "decz " + k, fb[:-3])
        c = bytearray(fb)
        c[rng.randrange(len(c))] ^= 0x10
        addz("decz", "decz " + k, bytes(c))
        addz("decz", "decz " + k, frame(p, zlib.compress(cd.mutate(p, rng), 6)))
    return lines + zl


def tie(ctx):
    rng = random.Random(ctx.seed * 32452843 + 5)
    hist = {}
    items = gen_inputs(rng, ctx.tier, hist)
    lines = [l for (l, _) in items]
    hout, mout = run_both(lines)
    # A watchdog expiry that the Model does not predict is re-run alone with a six times longer watchdog before it
    # counts: on a loaded machine `uncompressed.reserve(2 GiB)` under ASan (shadow poisoning) can take longer than
    # the 10 s of the bulk run.  A real endless loop still expires (and is then a violation with its input).
    retry = [i for i, (h, m) in enumerate(zip(hout, mout)) if h == "ub nontermination" and m != h]
    if 0 < len(retry) <= 16:            # more than a handful is not load
        res = runner.run_harness([[lines[i]] for i in retry], stateless=True, watchdog=60, jobs=4)
        for i, (outs, _) in zip(retry, res):
            hout[i] = outs[0]
    if retry:
        hist["watchdog_retry (expired at 10 s in the bulk run, re-run alone at 60 s)"] = len(retry)
    divergences, violations = [], []
    streams, outcomes = {}, {}
    distinct = set()
    for (l, st), h, m in zip(items, hout, mout):
        streams[st] = streams.get(st, 0) + 1
        cls = h.split()[0] + ((" " + h.split()[1]) if not h.startswith("ok") and len(h.split()) > 1 else "")
        outcomes[cls] = outcomes.get(cls, 0) + 1
        if h != m:
            divergences.append({"input": l[:400], "impl": h[:200], "model": m[:200]})
        # direct oracle: the property on the implementation's own outcome
        if not (h.startswith("ok") or h.startswith("throw ")):
            violations.append({"tag": "oracle", "signature": None,
                               "header": {"kind": "bytes", "what": "decoder outcome is not a value or a std::exception: " + h},
                               "body": [l, "impl: " + h]})
        if st not in ("short", "z_short") and len(l) > 30:
            distinct.add(l)
    hist.update({"stream:" + k: v for k, v in streams.items()})
    hist.update({"outcome:" + k: v for k, v in outcomes.items()})
    return {
        "ok": not divergences and not violations,
        "evaluations": len(lines),
        "distinct_nontrivial": len(distinct),
        "rule": "adversarial byte strings for the 11 payload decoders and for zlib_uncompress/from_blob on framed blobs: "
                "exhaustive short inputs (all of length <= 1, sampled (quick) or all (thorough) of length 2), every "
                "truncation and single-byte corruption (4 patterns per position) of valid blobs, boundary values "
                "{-1,0,1,fit-1,fit,fit+1,2^31-1,2^31,2^32,2^59,2^61,2^63-1,-2^63} in every count field and label-length "
                "boundaries, seeded structural mutation; the outcome (value text, exception class or sanitizer/watchdog "
                "class) of the real sanitizer build must equal the Model's; non-trivial = distinct input outside the "
                "short-exhaustive streams",
        "samples": [lines[0], lines[len(lines) // 3][:200], lines[2 * len(lines) // 3][:200], lines[-1][:200]],
        "histograms": hist,
        "divergences": divergences[:20],
        "violations": violations[:8],
    }


tie = _implgen.wrap_tie(tie)   # + regenerated model vs real library (translator validation)
