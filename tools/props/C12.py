"""C12 — A created library matches the reference schema of its version.

The quantifier is a finite table (19 creators x 2 forms x 57 reference dumps); every run
  * creates every schema with the REAL code (temporary and on-disk), reloads the on-disk one,
  * hydrates every reference script with plain SQLite,
  * reads sqlite_master + PRAGMA table_info / index_list / index_info of each through the C API,
  * lets the compiled Lean `schemaEq` (Spec/SchemaDump.lean over Spec/SqlCanon.lean) decide EVERY
    (created, reference) pair; which reference belongs to which schema is decided by the Lean Spec
    table (`specDetect` on the dump's Information row + the NUMERIC marker),
  * checks the stamped version numbers against the generated `stampGen` (C13 translator) and the
    public table, verify(), reload-as-requested, temporary == on-disk == reloaded catalog,
  * regenerates lean/EngineModel/Gen/SchemaFacts.lean (the same facts as Lean data) over which
    `C12_table` is closed by `decide +kernel`.
"""
import glob, hashlib, json, random, subprocess, sys, time
from common import *
import runner

ID = "C12"
LEAN_MODULES = ["Properties.C12", "Properties.C13"]
THEOREMS = ["EngineModel.Properties.C12." + t for t in [
    # canon: lossless lexing, bijection onto well-formed lexeme lists, invariances, injective otherwise
    "lex_lossless", "lex_wellformed", "lex_bijective", "canon_of_lexemes", "canon_def",
    "canon_ws_insert", "canon_requote", "canon_quote_bare", "strip_none_iff", "strip_eq_iff",
    "canon_eq_iff", "canon_string_eq_iff", "canon_render_canon", "canon_surjective",
    # schemaEq: equivalence, characterisation, projections
    "sameSet_iff", "schemaEq_iff", "schemaEq_refl", "schemaEq_symm", "schemaEq_trans", "schemaEq_equivalence",
    "schemaEq_master", "schemaEq_sql", "schemaEq_columns", "schemaEq_indexes", "schemaEq_sizes",
    "schemaEq_of_canon_eq", "schemaEq_detects"]] + [
    # "carries the matching version numbers ... recognised on load as the version requested" (Properties/C13.lean, over the
    # decision tree and the stamped constants regenerated from schema.cpp / schema_*.hpp on every run)
    "EngineModel.Properties.C13.C13_stamp", "EngineModel.Properties.C13.C13_reload"]
ASSUMPTIONS = [
    "SQLite's own storage of DDL text in sqlite_master and its PRAGMA table_info / index_list / index_info are "
    "trusted (the catalogs are read through the SQLite C API on the library's own connection / on a plain "
    "connection for the hydrated reference scripts)",
    "which reference dump belongs to which schema version is decided by the Lean Spec table (specDetect, C13) on the "
    "dump's own Information row and the `isExternalTrack NUMERIC` marker; desktop-4.1.0 is schema 3.0.0, which the "
    "library ships but does not list among the 18 supported versions: compared, reported, not claimed",
    "schema 1.6.0 has no reference dump (17 of 18 versions have at least one): for it only the version numbers, "
    "verify(), reload and temporary == on-disk are checked",
    "comparison is case-sensitive and keeps string literals, numbers and operators as written: only whitespace, "
    "comments and the quoting style of identifiers are forgotten (Spec/SqlCanon.lean, characterised by the lemmas "
    "of Properties/C12.lean)",
]
MANIFEST = dict(
    text="Finite decision, in the kernel and on the real code: every run the catalogs (sqlite_master, table_info, index_list/index_info) "
         "of all 19 schemas created by the real code (temporary, on-disk, reloaded) and of the 57 hydrated reference dumps are read "
         "through the SQLite C API and (1) emitted as Lean data (Gen/SchemaFacts.lean: 450 distinct DDL texts as explicit literals, "
         "39 distinct catalogs, the (created, reference) pairs of equal version) over which Properties/C12Table.lean closes "
         "C12_table : forall p in pairs, schemaEq created reference = true by decide +kernel (classes_checked lexes every text in the "
         "kernel; table_checked compares on class indices; tableOk_sound lifts to schemaEq), with C12_table_counterexample for the one "
         "recorded pair and texts_comment_free; lake rebuilds it only when the facts changed (seconds on an unchanged tree, minutes "
         "after a change; beyond the tier's budget the evidence says kernel_table.status = skipped); (2) EVERY (created x form x "
         "reference) pair is decided by the compiled schemaEq, with direct oracles for stamped version numbers, verify(), "
         "reload-as-requested and temporary == on-disk == reloaded. Theorems of Properties/C12.lean say what the comparison means: "
         "lossless lexer, bijection onto well-formed lexeme lists, canon invariant under whitespace/comment insertion and the three "
         "quoting styles, injective otherwise (canon_eq_iff), schemaEq an equivalence holding exactly when the (db, type, name, "
         "tbl_name, canon sql) sets, ordered table_info column lists and index descriptions agree. Version clause: C13_stamp, "
         "C13_reload (over the decision tree and constants regenerated from schema.cpp each run).",
    note="Trusted: Lean kernel; SQLite's storage of DDL text and its PRAGMAs; harness/djv_schema.cpp (catalog reader), the dump text form "
         "and the fact emitter. canon identifies exactly: texts that differ in whitespace runs / comments between tokens (comments do "
         "not occur in any compared text: texts_comment_free) and in the spelling - bare or quoted in any of the three styles - of a "
         "word, wherever it occurs (so `DEFAULT [0]` and `DEFAULT 0` have equal canon; the table_info default texts, compared "
         "literally, tell them apart); sameSet is mutual inclusion plus equal length. Schema 1.6.0 has no reference dump; schema "
         "3.0.0 is compared but not claimed. One known finding: the three reference dumps of 1.18.0-desktop disagree in one trigger "
         "name (ep-1.5.1).",
    technique="Lean 4 executable Spec (lossless lexer + canon + schemaEq) with characterisation theorems; the finite table decided "
              "by decide +kernel over facts regenerated from really created / hydrated libraries, and by the compiled Spec on every pair",
    ref="6/C12")
TRUSTED_EXTRA = ["harness/djv_schema.cpp (catalog reader over the SQLite C API) and the text form of a dump"]
STATELESS = False


def _translate_detect():
    r = subprocess.run([sys.executable, os.path.join(VERIF, "tools", "tr_detect.py")],
                       stdout=subprocess.PIPE, stderr=subprocess.PIPE, text=True)
    return (r.stdout.strip() or r.stderr.strip()[-200:])


TRANSLATORS = {"schema.cpp (detect_schema, schema_version constants)": _translate_detect}

SCHEMAS = ["schema_1_6_0", "schema_1_7_1", "schema_1_9_1", "schema_1_11_1", "schema_1_13_0", "schema_1_13_1",
           "schema_1_13_2", "schema_1_15_0", "schema_1_17_0", "schema_1_18_0_desktop", "schema_1_18_0_os",
           "schema_2_18_0", "schema_2_20_1", "schema_2_20_2", "schema_2_20_3", "schema_2_21_0", "schema_2_21_1",
           "schema_2_21_2", "schema_3_0_0"]
UNCLAIMED = {"schema_3_0_0"}     # shipped by the library but not among the 18 supported versions
REFBASE = os.path.join(REPO, "testdata", "ref", "engine")


def hexs(s):
    return s.encode().hex() or "-"


def ref_dirs():
    """Every directory under testdata/ref/engine that holds a dump (m.db.sql or Database2/m.db.sql)."""
    out = []
    for d in sorted(glob.glob(os.path.join(REFBASE, "*", "*"))):
        if os.path.exists(os.path.join(d, "m.db.sql")) or os.path.exists(os.path.join(d, "Database2", "m.db.sql")):
            out.append(os.path.relpath(d, REFBASE))
    return out


def split_dump(line):
    """'ok ver a b c num [perf x y z] M …' -> (dict(ver, numeric, perf), 'M …') or (None, line)"""
    if not line.startswith("ok ver "):
        return None, line
    toks = line.split(" ")
    try:
        i = toks.index("M")
        head = toks[2:i]
        info = {"ver": tuple(int(x) for x in head[0:3]), "numeric": head[3], "perf": None}
        if len(head) >= 8 and head[4] == "perf":
            info["perf"] = tuple(int(x) for x in head[5:8])
    except (ValueError, IndexError):
        return None, line
    return info, " ".join(toks[i:])


def over_of(s):
    """for a 1.x version: another 1.x version whose p.db is left behind in the directory (m.db removed) before the
    library is created (round 5, seeded C12-5: DROP TABLE + CREATE TABLE turned into CREATE TABLE IF NOT EXISTS in two
    creators, which then adopted the old performance tables and version row)"""
    one = [x for x in SCHEMAS if x.startswith("schema_1_")]
    if s not in one:
        return None
    k = one.index(s)
    return one[(k + 3) % len(one)] if len(one) > 3 else None


def beside_of(s):
    """for a 2.x version: the 1.x version of the legacy library that already lives in the directory (an Engine Library
    folder after a migration holds both m.db and Database2/m.db); the freshly created 2.x library must be recognised
    by the 2.x loader of its own, engine::v2::engine_library::load (round 5, seeded C12-6: that loader started to
    refuse directories holding both layouts)"""
    one = [x for x in SCHEMAS if x.startswith("schema_1_")]
    two = [x for x in SCHEMAS if x.startswith("schema_2_")]
    return one[(two.index(s) * 3 + 1) % len(one)] if s in two else None


def created_script(s, form):
    if form == "beside":
        return ["create %s disk beside %s" % (s, beside_of(s)), "schema.dump", "db.q verify", "load2", "schema.dump", "db.q verify"]
    if form == "over":
        return ["create %s disk over %s" % (s, over_of(s)), "schema.dump", "db.q verify", "load", "schema.dump", "db.q verify"]
    if form == "mem":
        return ["create %s mem" % s, "schema.dump", "db.q verify"]
    return ["create %s disk" % s, "schema.dump", "db.q verify", "load", "schema.dump", "db.q verify"]


def ref_script(rel):
    d = os.path.join(REFBASE, rel)
    return ["schema.ref " + hexs(d), "schema.refload " + hexs(d)]


def collect(schemas, refs):
    """Run the real code.  Returns {("c",schema,form): outputs}, {("r",rel): outputs}, problems."""
    scripts, keys = [], []
    for s in schemas:
        for form in ("mem", "disk"):
            scripts.append(created_script(s, form))
            keys.append(("c", s, form))
    for s in schemas:
        if over_of(s):
            scripts.append(created_script(s, "over"))
            keys.append(("c", s, "over"))
        if beside_of(s):
            scripts.append(created_script(s, "beside"))
            keys.append(("c", s, "beside"))
    for rel in refs:
        scripts.append(ref_script(rel))
        keys.append(("r", rel))
    for s in schemas:
        # the third way a library comes into being: create_or_load_database on an empty directory — called the way a
        # caller who wants "this version, or whatever is there" writes it: ONE variable for the requested (in) and the
        # loaded (out) schema (`+sameref`, harness only)
        scripts.append(["create_or_load %s fresh +sameref" % s, "schema.dump", "closeall", "load"])
        keys.append(("col", s))
    res = runner.run_harness(scripts, stateless=False, watchdog=60)
    return {k: outs for k, (outs, _) in zip(keys, res)}


def viol(tag, what, sig, body):
    return {"tag": tag, "signature": sig, "header": {"kind": "schema-pair", "what": what}, "body": body}


def decide(schemas, refs, outs, all_pairs=True):
    """Feed the dumps to the Lean driver and apply the oracle."""
    violations, divergences = [], []
    hist = {"paired_equal": 0, "paired_differ": 0, "unpaired_equal": 0, "unpaired_differ": 0,
            "refs_per_schema": {}, "verify_ok": 0, "reload_ok": 0, "stamp_ok": 0, "mem_eq_disk": 0,
            "disk_eq_reloaded": 0, "ref_load_as_spec": 0, "ref_verify_ok": 0}
    lines = ["#mode schema"]
    ask = []                       # (kind, payload) per line after the first

    def add(line, kind, payload=None):
        lines.append(line)
        ask.append((kind, payload))

    hist["create_or_load_as_requested"] = 0
    for s in schemas:
        o = outs.get(("col", s))
        if o is None:
            continue
        info_c, _ = split_dump(o[1]) if len(o) > 1 else (None, None)
        ref_o = outs.get(("c", s, "disk"))
        info_d, _ = split_dump(ref_o[1]) if ref_o and len(ref_o) > 1 else (None, None)
        good = (o[0] == "ok created=1 schema=" + s and len(o) > 3 and o[3] == "ok " + s and info_c is not None
                and (info_d is None or (info_c["ver"], info_c["perf"]) == (info_d["ver"], info_d["perf"])))
        if good:
            hist["create_or_load_as_requested"] += 1
        else:
            violations.append(viol("create_or_load", "create_or_load_database on an empty directory (requested and loaded "
                                   "schema bound to one variable) does not give a library of the requested version %s: "
                                   "answer '%s', stamped %s, reload '%s'" % (s, o[0][:60], info_c and (info_c["ver"], info_c["perf"]),
                                                                             (o[3] if len(o) > 3 else "-")[:60]),
                                   None, ["schema: " + s, "create_or_load %s fresh +sameref" % s, "impl: " + o[0][:200]]))
    dumps = {}                     # id -> (info, text)
    for s in schemas:
        for form in ("mem", "disk"):
            o = outs[("c", s, form)]
            info, d = split_dump(o[1])
            if info is None or o[0] != "ok":
                divergences.append({"input": " ; ".join(created_script(s, form)), "impl": " | ".join(x[:200] for x in o),
                                    "model": "expected a created library and its catalog dump"})
                continue
            dumps["c.%s.%s" % (s, form)] = (info, d)
            if form == "disk":
                info2, d2 = split_dump(o[4])
                if info2 is None:
                    divergences.append({"input": "load ; schema.dump (%s)" % s, "impl": " | ".join(x[:200] for x in o[3:]),
                                        "model": "expected the reloaded library's catalog dump"})
                else:
                    dumps["c.%s.reloaded" % s] = (info2, d2)
    hist["beside_legacy_ok"] = 0
    for s in schemas:
        o = outs.get(("c", s, "beside"))
        if o is None:
            continue
        info, d = split_dump(o[1]) if len(o) > 1 else (None, None)
        if o and o[0].startswith("throw"):
            hist["beside_legacy_refused"] = hist.get("beside_legacy_refused", 0) + 1
            continue
        if info is None or o[0] != "ok":
            divergences.append({"input": " ; ".join(created_script(s, "beside")), "impl": " | ".join(x[:200] for x in o),
                                "model": "expected a created library and its catalog dump"})
            continue
        dumps["c.%s.beside" % s] = (info, d)
        good = len(o) >= 6 and o[2] == "ok" and o[3] == "ok " + s and o[5] == "ok"
        if good:
            hist["beside_legacy_ok"] += 1
        else:
            violations.append(viol("beside", "a %s library created next to a legacy %s library is not verified / recognised "
                                   "by engine::v2::engine_library::load as the version requested: verify '%s', load '%s', "
                                   "verify after load '%s'" % (s, beside_of(s), o[2] if len(o) > 2 else "-",
                                                               o[3] if len(o) > 3 else "-", o[5] if len(o) > 5 else "-"),
                                   {"schema": s, "kind": "beside-legacy"}, created_script(s, "beside") + o[:6]))
    hist["over_leftover_perfdata_ok"] = 0
    for s in schemas:
        o = outs.get(("c", s, "over"))
        if o is None:
            continue
        if o and o[0].startswith("throw"):
            # the creator refuses the directory (on the unchanged tree: every creator from 1.9.1 on, whose perfdata
            # statements are plain CREATE TABLE - sqlite_error "table ... already exists"): no library was created,
            # so the property claims nothing; only a creation that RETURNS must have produced a clean library
            hist["over_leftover_refused"] = hist.get("over_leftover_refused", 0) + 1
            continue
        info, d = split_dump(o[1]) if len(o) > 1 else (None, None)
        if info is None or o[0] != "ok":
            divergences.append({"input": " ; ".join(created_script(s, "over")), "impl": " | ".join(x[:200] for x in o),
                                "model": "expected a created library and its catalog dump"})
            continue
        dumps["c.%s.over" % s] = (info, d)
        base = dumps.get("c.%s.disk" % s)
        good = (len(o) >= 6 and o[2] == "ok" and o[3] == "ok " + s and o[5] == "ok"
                and (base is None or (info["ver"], info["perf"]) == (base[0]["ver"], base[0]["perf"])))
        if good:
            hist["over_leftover_perfdata_ok"] += 1
        else:
            violations.append(viol("over", "a library created in a directory that still holds the p.db of a %s library "
                                   "(m.db removed) is not a clean library of the requested version %s: verify '%s', "
                                   "reload '%s' / '%s', stamped %r" % (over_of(s), s, o[2] if len(o) > 2 else "-",
                                                                      o[3] if len(o) > 3 else "-", o[5] if len(o) > 5 else "-",
                                                                      (info["ver"], info["perf"])),
                                   {"schema": s, "kind": "over-leftover"}, created_script(s, "over") + o[:6]))
    for rel in refs:
        o = outs[("r", rel)]
        info, d = split_dump(o[0])
        if info is None:
            divergences.append({"input": ref_script(rel)[0], "impl": o[0][:300], "model": "expected a catalog dump"})
            continue
        dumps["r." + rel] = (info, d)
    for i, (info, d) in dumps.items():
        add("cat %s %s" % (i, d), "cat", i)
    # which schema each reference belongs to (Lean Spec table)
    for rel in refs:
        if "r." + rel in dumps:
            info = dumps["r." + rel][0]
            add("detect %d %d %d %s" % (info["ver"] + (info["numeric"],)), "detect", rel)
    for s in schemas:
        for form in ("mem", "disk"):
            i = "c.%s.%s" % (s, form)
            if i in dumps:
                add("stamp %s %d %d %d" % ((s,) + dumps[i][0]["ver"]), "stamp", (s, form))
        if "c.%s.mem" % s in dumps and "c.%s.disk" % s in dumps:
            add("same c.%s.mem c.%s.disk" % (s, s), "memdisk", s)
            add("eq c.%s.mem c.%s.disk" % (s, s), "memdisk_eq", s)
        if "c.%s.disk" % s in dumps and "c.%s.reloaded" % s in dumps:
            add("same c.%s.disk c.%s.reloaded" % (s, s), "reloaded", s)
        if "c.%s.disk" % s in dumps and "c.%s.over" % s in dumps:
            add("same c.%s.disk c.%s.over" % (s, s), "over", s)
        if "c.%s.disk" % s in dumps and "c.%s.beside" % s in dumps:
            add("same c.%s.disk c.%s.beside" % (s, s), "beside", s)
    npre = len(lines)
    for s in schemas:
        for form in ("mem", "disk"):
            for rel in refs:
                if "c.%s.%s" % (s, form) in dumps and "r." + rel in dumps:
                    add("eq c.%s.%s r.%s" % (s, form, rel), "pair", (s, form, rel))
    # one driver process registers the catalogs (canonicalising each once); the pair questions are
    # sharded over several processes, each re-registering the catalogs it needs
    pre, pairs = lines[:npre], lines[npre:]
    shards = runner.shard(pairs, max(1, min(NCPU, 8))) if pairs else []
    cat_lines = [l for l in pre if l.startswith("cat ")]
    scripts = [pre] + [["#mode schema"] + cat_lines + sh for sh in shards]
    mouts = runner.run_model(scripts)
    answers = mouts[0][1:]
    for sh, mo in zip(shards, mouts[1:]):
        answers += mo[1 + len(cat_lines):]
    ref_schema = {}
    samples = []
    for (kind, p), line, ans in zip(ask, lines[1:], answers):
        if not ans.startswith("ok"):
            divergences.append({"input": line[:200], "impl": "(n/a)", "model": ans[:200]})
            continue
        if kind == "detect":
            ref_schema[p] = ans.split()[1]
        elif kind == "stamp":
            s, form = p
            info = dumps["c.%s.%s" % (s, form)][0]
            good = ans == "ok gen=true spec=true" and (info["perf"] is None or info["perf"] == info["ver"])
            hist["stamp_ok"] += good
            if not good:
                violations.append(viol("stamp", "version numbers stamped by the creator differ from the schema's",
                                       {"schema": s, "form": form, "kind": "version-stamp"},
                                       created_script(s, form)[:2] + ["stamped: %r perf: %r" % (info["ver"], info["perf"]),
                                                                      "lean: " + ans]))
        elif kind == "beside":
            if ans != "ok true":
                violations.append(viol("beside", "the catalog of a 2.x library created next to a legacy library differs from "
                                       "the catalog of the same version created in an empty directory",
                                       {"schema": p, "kind": "beside-legacy-catalog"},
                                       created_script(p, "beside")[:2] + ["lean %s: %s" % (line[:80], ans[:600])]))
        elif kind == "over":
            if ans != "ok true":
                violations.append(viol("over", "the catalog of a library created over the left-over p.db of another version "
                                       "differs from the catalog of the same version created in an empty directory",
                                       {"schema": p, "kind": "over-leftover-catalog"},
                                       created_script(p, "over")[:2] + ["lean %s: %s" % (line[:80], ans[:600])]))
        elif kind in ("memdisk", "memdisk_eq", "reloaded"):
            good = ans == "ok true"
            if kind == "memdisk":
                hist["mem_eq_disk"] += good
            elif kind == "reloaded":
                hist["disk_eq_reloaded"] += good
            if not good and kind != "memdisk":   # literal mem/disk difference matters only if schemaEq also differs
                violations.append(viol("forms", "temporary / on-disk / reloaded catalogs of one schema differ",
                                       {"schema": p, "kind": kind},
                                       created_script(p, "mem") + created_script(p, "disk") + ["lean %s: %s" % (line[:80], ans[:400])]))
    # pairs
    refs_of = {}
    for rel, s in ref_schema.items():
        refs_of.setdefault(s, []).append(rel)
    hist["refs_per_schema"] = {s: len(refs_of.get(s, [])) for s in SCHEMAS}
    hist["refs_unsupported"] = refs_of.get("unsupported", [])
    extra = {"unclaimed": []}
    seen_pairs = set()
    for (kind, p), line, ans in zip(ask, lines[1:], answers):
        if kind != "pair" or not ans.startswith("ok"):
            continue
        s, form, rel = p
        eq = ans == "ok true"
        paired = ref_schema.get(rel) == s
        hist[("paired_" if paired else "unpaired_") + ("equal" if eq else "differ")] += 1
        h = hashlib.sha1((dumps["c.%s.%s" % (s, form)][1] + "|" + dumps["r." + rel][1]).encode()).hexdigest()
        seen_pairs.add((h, paired))
        if paired and len(samples) < 4:
            samples.append("%s -> %s" % (line, ans[:60]))
        if paired and not eq:
            diff = ans[len("ok false "):]
            if s in UNCLAIMED:
                extra["unclaimed"].append({"schema": s, "form": form, "ref": rel, "diff": diff[:400]})
                continue
            first = diff.split(" ")[0] if diff else "?"
            if any(v["signature"] == {"schema": s, "ref": rel, "object": first} for v in violations):
                continue      # same difference in the other form (temporary / on-disk)
            violations.append(viol("pair", "created catalog differs from the reference dump of its version: " + diff[:300],
                                   {"schema": s, "ref": rel, "object": first},
                                   ["schema: " + s, "form: " + form, "ref: " + rel] + created_script(s, form)[:2] +
                                   [ref_script(rel)[0], "lean schemaEq: " + ans[:2000]]))
    for s in UNCLAIMED:
        if s in schemas:
            extra["unclaimed"].append({"schema": s, "refs": refs_of.get(s, []),
                                       "note": "compared, not claimed: not among the 18 supported versions"})
    # verify / reload / reference load
    for s in schemas:
        for form in ("mem", "disk"):
            o = outs[("c", s, form)]
            if len(o) > 2 and o[2] == "ok":
                hist["verify_ok"] += 1
            elif o[0] == "ok":
                violations.append(viol("verify", "verify() rejects a freshly created library: " + (o[2] if len(o) > 2 else "?"),
                                       {"schema": s, "form": form, "kind": "verify-created"}, created_script(s, form)[:3] + o[:3]))
        o = outs[("c", s, "disk")]
        if len(o) >= 6 and o[0] == "ok":
            if o[3] == "ok " + s and o[5] == "ok":
                hist["reload_ok"] += 1
            else:
                violations.append(viol("reload", "on-disk library is not recognised / verified as the schema requested: %s / %s" % (o[3], o[5]),
                                       {"schema": s, "kind": "reload"}, created_script(s, "disk") + o[3:6]))
    for rel in refs:
        o = outs[("r", rel)]
        spec = ref_schema.get(rel)
        if len(o) < 2 or spec is None:
            continue
        toks = o[1].split(" ")
        loaded = toks[1] if len(toks) > 1 and toks[0] == "ok" else o[1]
        if loaded == spec:
            hist["ref_load_as_spec"] += 1
        else:
            violations.append(viol("refload", "reference library loads as %s, the version table says %s" % (loaded[:80], spec),
                                   {"ref": rel, "kind": "ref-load"}, ref_script(rel) + o[1:2]))
        if o[1].endswith("verify=ok"):
            hist["ref_verify_ok"] += 1
        elif toks[0] == "ok":
            violations.append(viol("refverify", "verify() rejects a reference library: " + o[1][:200],
                                   {"ref": rel, "kind": "ref-verify"}, ref_script(rel) + o[1:2]))
    return {"violations": violations, "divergences": divergences, "hist": hist, "extra": extra,
            "evaluations": len(ask), "distinct": len([1 for (h, paired) in seen_pairs if paired]),
            "samples": samples, "ref_schema": ref_schema, "dumps": dumps}


# ------------------------------------------------------------------ thorough tier: the table inside the kernel
FACTS = os.path.join(LEAN, "EngineModel", "Gen", "SchemaFacts.lean")
# the kernel table is rebuilt only when the emitted facts changed (lake caches by content): on an unchanged tree it
# costs seconds in either tier; after a change of a creator / reference dump it needs minutes of kernel time
KERNEL_BUDGET_S = {"quick": int(os.environ.get("VERIF_C12_KERNEL_BUDGET_QUICK", "60")),
                   "thorough": int(os.environ.get("VERIF_C12_KERNEL_BUDGET", "900"))}
TABLE_THEOREMS = ["EngineModel.Properties.C12Table." + t for t in
                  ("classes_checked", "table_checked", "C12_table", "C12_table_counterexample", "texts_comment_free")]


def _unhex(t):
    return b"" if t == "-" else bytes.fromhex(t)


def parse_dump_text(text):
    """the catalog text form of harness/djv_schema.cpp -> (master, tables, indexes) with byte strings"""
    toks = text.split()
    pos = [0]

    def nxt():
        pos[0] += 1
        return toks[pos[0] - 1]

    def ostr():
        t = nxt()
        return None if t == "none" else _unhex(t)
    assert nxt() == "M"
    M = [(nxt().encode(), nxt().encode(), _unhex(nxt()), _unhex(nxt()), ostr()) for _ in range(int(nxt()))]
    assert nxt() == "T"
    T = []
    for _ in range(int(nxt())):
        db, tb = nxt().encode(), _unhex(nxt())
        T.append((db, tb, [(_unhex(nxt()), _unhex(nxt()), int(nxt()), ostr(), int(nxt())) for _ in range(int(nxt()))]))
    assert nxt() == "X"
    X = []
    for _ in range(int(nxt())):
        db, tb = nxt().encode(), _unhex(nxt())
        idx = []
        for _ in range(int(nxt())):
            n, u, o, p_ = _unhex(nxt()), int(nxt()), _unhex(nxt()), int(nxt())
            idx.append((n, u, o, p_, [(int(nxt()), ostr()) for _ in range(int(nxt()))]))
        X.append((db, tb, idx))
    assert pos[0] == len(toks)
    return M, T, X


def _int(n):
    return str(n) if n >= 0 else "(%d)" % n


class _Strs:
    """every distinct byte string gets an index into the generated table `strs`"""
    def __init__(self):
        self.ix, self.tab = {}, []

    def ns(self, b):
        if b not in self.ix:
            self.ix[b] = len(self.tab)
            self.tab.append(b)
        return str(self.ix[b])

    def ons(self, b):
        return "none" if b is None else "(some %s)" % self.ns(b)


def emit_facts(dumps, pairs_named, excluded):
    """dumps: id -> catalog text; pairs_named: [(created id, reference id)] that belong together and must be equal."""
    parsed, order, index = {}, [], {}
    for i, txt in dumps.items():
        if txt not in index:
            index[txt] = len(order)
            order.append(i)
            parsed[i] = parse_dump_text(txt)
    did = {i: index[dumps[i]] for i in dumps}
    texts, tindex = [], {}
    for i in order:
        for m in parsed[i][0]:
            if m[4] is not None and m[4] not in tindex:
                tindex[m[4]] = len(texts)
                texts.append(m[4])
    out = runner.run_model_script(["#mode schema", "canoncls " + " ".join(t.hex() or "-" for t in texts)])
    if not out[1].startswith("ok"):
        raise RuntimeError("canoncls: " + out[1][:200])
    cls = [int(x) for x in out[1].split()[1:]]
    assert len(cls) == len(texts)
    S = _Strs()
    body = []
    for k, i in enumerate(order):
        M, T, X = parsed[i]
        body.append("/-- %s -/" % i)
        body.append("def d%d : IDump := ⟨[" % k)
        body.append(",\n".join("  ⟨%s,%s,%s,%s,%s⟩" % (S.ns(a), S.ns(b), S.ns(c), S.ns(d), "none" if e is None else "some %d" % tindex[e])
                               for a, b, c, d, e in M) + "],\n [")
        body.append(",\n".join("  ⟨%s,%s,[%s]⟩" % (S.ns(a), S.ns(b), ",".join(
            "⟨%s,%s,%s,%s,%s⟩" % (S.ns(n), S.ns(ty), _int(nn), S.ons(dd), _int(pk)) for n, ty, nn, dd, pk in cols)) for a, b, cols in T) + "],\n [")
        body.append(",\n".join("  ⟨%s,%s,[%s]⟩" % (S.ns(a), S.ns(b), ",".join(
            "⟨%s,%s,%s,%s,[%s]⟩" % (S.ns(n), _int(u), S.ns(o), _int(p_), ",".join("⟨%s,%s⟩" % (_int(sq), S.ons(c)) for sq, c in cs))
            for n, u, o, p_, cs in idx)) for a, b, idx in X) + "]⟩")
    L = ["/- GENERATED by tools/props/C12.py (thorough tier) from the catalogs read back from the libraries the real code",
         "created and from the hydrated reference scripts of /repo's working tree.  Do not edit. -/",
         "import EngineModel.Spec.SchemaFactsCore", "import EngineModel.Spec.BytesLit", "namespace EngineModel.Gen.SchemaFacts",
         "open EngineModel.Spec.SchemaFacts EngineModel.Spec.SchemaDump", "set_option maxRecDepth 1000000", "set_option maxHeartbeats 4000000", "",
         "/-- the %d distinct DDL texts (%d bytes), each an explicit `List Char` literal written as hex (`bytes%%`) -/" % (len(texts), sum(len(t) for t in texts)),
         "noncomputable def texts : List Str := ["]
    L.append(",\n".join('  bytes% "' + t.hex() + '"' for t in texts) + "]")
    L.append("def cls : List Nat := [%s]" % ",".join(str(c) for c in cls))
    L.append("/-- the %d distinct names / declared types / defaults / labels; catalogs refer to them by index -/" % len(S.tab))
    L.append("noncomputable def strs : List Str := [")
    L.append(",\n".join('  bytes% "' + t.hex() + '"' for t in S.tab) + "]")
    L += body
    L.append("def dumps : List IDump := [%s]" % ", ".join("d%d" % k for k in range(len(order))))
    prs = sorted({(did[a], did[b]) for a, b in pairs_named})
    L.append("/-- (created catalog, reference catalog of the same schema version) -/")
    L.append("def pairs : List (Nat × Nat) := [%s]" % ", ".join("(%d, %d)" % p for p in prs))
    L.append("/-- which libraries each catalog index stands for -/")
    names = {}
    for i in dumps:
        names.setdefault(did[i], []).append(i)
    L.append("def names : List String := [%s]" % ", ".join('"%s"' % " = ".join(names[k]) for k in range(len(order))))
    L.append("/-- pairs left out because they are recorded findings (they do differ: C12_table_counterexample) -/")
    L.append("def excluded : List String := [%s]" % ", ".join('"%s ~ %s"' % e for e in excluded))
    # for each excluded pair a witness: a sqlite_master row of the created catalog without counterpart in the reference
    wit = set()
    for a, b in excluded:
        ma, mb = parsed[order[did[a]]][0], parsed[order[did[b]]][0]
        keyb = {(r[0], r[1], r[2], r[3], None if r[4] is None else cls[tindex[r[4]]]) for r in mb}
        for k, r in enumerate(ma):
            if (r[0], r[1], r[2], r[3], None if r[4] is None else cls[tindex[r[4]]]) not in keyb:
                wit.add((did[a], did[b], k))
                break
    L.append("/-- (created catalog, reference catalog, index of a sqlite_master row of the first without counterpart in the second) -/")
    L.append("def excludedWitness : List (Nat × Nat × Nat) := [%s]" % ", ".join("(%d, %d, %d)" % w for w in sorted(wit)))
    L.append("end EngineModel.Gen.SchemaFacts")
    with open(FACTS, "w") as f:
        f.write("\n".join(L) + "\n")
    return {"texts": len(texts), "text_bytes": sum(len(t) for t in texts), "classes": len(set(cls)),
            "catalogs": len(order), "pairs": len(prs), "excluded": len(excluded), "strings": len(S.tab)}


def kernel_table(r, known, tier="thorough"):
    """Emit Gen/SchemaFacts.lean and let the kernel close Properties/C12Table.lean within the budget."""
    t0 = time.time()
    dumps = {i: d for i, (info, d) in r["dumps"].items() if not i.endswith(".reloaded")}
    pairs, excluded = [], []
    for rel, s in r["ref_schema"].items():
        if s in UNCLAIMED or s == "unsupported":
            continue
        for form in ("mem", "disk"):
            c, rr = "c.%s.%s" % (s, form), "r." + rel
            if c not in dumps or rr not in dumps:
                continue
            if any(k.get("schema") == s and k.get("ref") == rel for k in known):
                excluded.append((c, rr))
            else:
                pairs.append((c, rr))
    try:
        stats = emit_facts(dumps, pairs, excluded)
    except Exception as e:
        return {"status": "failed", "why": "emitting the facts: %r" % (e,)}
    import signal

    class _P:   # result holder
        pass
    p = _P()
    timed_out = False
    # own process group, so that on a timeout exactly OUR lake/lean processes are stopped (a pattern kill would
    # also hit another verif tree's build of the same module)
    proc = subprocess.Popen(["lake", "build", "Properties.C12Table"], cwd=LEAN, stdout=subprocess.PIPE,
                            stderr=subprocess.STDOUT, text=True, start_new_session=True)
    try:
        out, _ = proc.communicate(timeout=KERNEL_BUDGET_S[tier])
        p.returncode, p.stdout = proc.returncode, out
    except subprocess.TimeoutExpired:
        timed_out = True
        try:
            os.killpg(proc.pid, signal.SIGTERM)
        except OSError:
            pass
        try:
            proc.communicate(timeout=20)
        except subprocess.TimeoutExpired:
            try:
                os.killpg(proc.pid, signal.SIGKILL)
            except OSError:
                pass
    if not timed_out and p.returncode != 0 and ("exited with code 143" in p.stdout or "exited with code 137" in p.stdout):
        timed_out = True     # the build was stopped from outside (e.g. memory pressure): not a verdict of the kernel
    if timed_out:
        return dict(stats, status="skipped",
                    why="the emitted facts differ from the last ones the kernel closed, and re-closing C12_table exceeded the %s-tier "
                        "budget of %d s (reported, not silent; the compiled schemaEq decided every pair this run)" % (tier, KERNEL_BUDGET_S[tier]),
                    wall_s=round(time.time() - t0, 1))
    if p.returncode != 0:
        return dict(stats, status="failed", why=p.stdout[-1500:], wall_s=round(time.time() - t0, 1))
    import audit as auditmod
    names = TABLE_THEOREMS
    ax = auditmod.axioms_and_statements(names, imports=("Properties.C12Table",))
    allowed = {"propext", "Classical.choice", "Quot.sound"}
    bad = [n for n in names if ax[n].get("axioms") is None or not set(ax[n]["axioms"]) <= allowed]
    lock = auditmod.load_lock("C12Table")      # written once: tools/props/C12.py lock-table
    stale = [n for n in names if lock.get(n) != ax[n].get("stmt_sha")]
    if bad or stale:
        return dict(stats, status="failed", why="axioms / statement lock: %r %r" % (bad, stale), wall_s=round(time.time() - t0, 1))
    return dict(stats, status="ok", wall_s=round(time.time() - t0, 1),
                theorems={n: ax[n].get("axioms") for n in names})


def tie(ctx):
    refs = ref_dirs()
    outs = collect(SCHEMAS, refs)
    r = decide(SCHEMAS, refs, outs)
    hist = r["hist"]
    no_ref = [s for s in SCHEMAS if hist["refs_per_schema"].get(s, 0) == 0]
    r["extra"]["schemas_without_reference"] = no_ref
    r["extra"]["reference_dumps"] = len(refs)
    try:
        known = [k.get("signature") for k in json.load(open(os.path.join(VERIF, "known_findings.json")))["known"]
                 if k.get("property") == ID]
    except (OSError, ValueError, KeyError):
        known = []
    ok = not [v for v in r["violations"] if v["signature"] not in known] and not r["divergences"]
    if True:
        kt = kernel_table(r, known, ctx.tier)
        r["extra"]["kernel_table"] = kt
        if kt["status"] == "failed":
            ok = False
            r["divergences"].append({"input": "Properties/C12Table.lean over Gen/SchemaFacts.lean", "impl": "(n/a)",
                                     "model": "the kernel does not close C12_table: " + str(kt.get("why"))[-600:]})
    return {
        "ok": ok,
        "evaluations": r["evaluations"],
        "distinct_nontrivial": r["distinct"],
        "rule": "every (created schema x {temporary,on-disk} x reference dump) pair decided by the compiled Lean schemaEq, "
                "plus per created library: stamped version vs generated stampGen and the public table, verify(), reload "
                "reports the requested schema, temporary == on-disk == reloaded catalog; per reference: loads as the "
                "schema the version table says, verify() passes.  distinct_nontrivial = number of distinct (created "
                "catalog text, reference catalog text) combinations among the pairs that belong together",
        "samples": r["samples"],
        "histograms": hist,
        "divergences": r["divergences"][:20],
        "violations": r["violations"][:10],
        "exhaustive": True,
        "extra": r["extra"],
    }


def replay(ctx, hdr, body):
    """Re-create the named schema / re-hydrate the named reference from the current tree and ask Lean again."""
    f = {}
    for l in body:
        if ": " in l:
            k, v = l.split(": ", 1)
            f.setdefault(k.strip(), v.strip())
    schemas = [f["schema"]] if f.get("schema") in SCHEMAS else SCHEMAS
    refs = [f["ref"]] if f.get("ref") in ref_dirs() else ref_dirs()
    outs = collect(schemas, refs)
    r = decide(schemas, refs, outs)
    txt = ["replayed schemas=%s refs=%d" % (",".join(schemas), len(refs))]
    for v in r["violations"]:
        txt.append("STILL FAILS: " + v["header"]["what"])
        txt += ["   " + b[:300] for b in v["body"][-3:]]
    for d in r["divergences"]:
        txt.append("tie problem: %r" % (d,))
    if not r["violations"] and not r["divergences"]:
        txt.append("no difference now")
    return (not r["violations"] and not r["divergences"]), "\n".join(txt)


if __name__ == "__main__" and sys.argv[1:] == ["lock-table"]:
    import audit as auditmod
    print(auditmod.write_lock("C12Table", TABLE_THEOREMS, imports=("Properties.C12Table",)))
