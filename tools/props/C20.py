"""C20 — Beat-grid normalisation brackets the track and keeps its tempo."""
import random, struct
from fractions import Fraction
from common import *
import runner

ID = "C20"
LEAN_MODULES = ["Properties.C20"]
THEOREMS = ["EngineModel.Properties.C20." + t for t in [
    "C20_trim_infix", "C20_trim_keeps_interior", "C20_throw_only_if", "C20_reject_of", "C20_reject_iff",
    "C20_empty", "C20_interior_unchanged", "C20_first_index", "C20_tempo_kept", "C20_bracket",
    "C20_sorted", "C20_idempotent", "C20_idempotent_or_overflow"]]
ASSUMPTIONS = [
    "theorems are over exact rationals (Num instance ratNum); the C++ is tied bit-for-bit to the same generic "
    "Lean code instantiated with hardware Float; floating-point rounding error itself is not bounded by a theorem",
    "int32 index arithmetic and the int32 cast of ceil() are checked operations in the Model (ub outcomes); "
    "the in-domain generators keep |index| <= 10^6 and tempi in [50, 10^6] samples per beat",
]
MANIFEST = dict(
    text="Theorems over exact rationals about the Model of normalize_beatgrid (the same generic Lean code the driver runs over hardware floats): first index -4, last marker in [n, n + beat), first/last tempo kept, interior markers unchanged, result strictly increasing, idempotent, exact rejection set — for all strictly increasing grids of any length. The C++ is tied bit-for-bit to the Float instance on generated grids, applied twice, and a direct oracle states the property on the implementation's own answers.",
    note="Trusted: Lean kernel (+ Mathlib's rationals / Int.ceil); floating-point rounding itself is not bounded by a theorem (tie tolerance 1e-9 relative); int32 index arithmetic is a checked operation of the Model.",
    technique='Lean 4 theorems over Q about a generic executable model + bit-exact differential run over Float',
    ref='6/C20')
TRUSTED_EXTRA = []


def dbits(x: float) -> str:
    return "%016x" % struct.unpack(">Q", struct.pack(">d", x))[0]


def bitsd(h: str) -> float:
    return struct.unpack(">d", struct.pack(">Q", int(h, 16)))[0]


def fmt(n, g):
    return "bg.norm %d %d %s" % (n, len(g), " ".join("%d %s" % (i, dbits(o)) for (i, o) in g))


def parse(s):
    t = s.split()
    if not t or t[0] != "ok":
        return None
    k = int(t[1])
    return [(int(t[2 + 2 * j]), bitsd(t[3 + 2 * j])) for j in range(k)]


def gen_grid(rng):
    k = rng.choice([2, 2, 3, 3, 4, 5, 8, 16, 33, 64])
    idx = rng.choice([-4, -4, 0, 0, -8, -20, 7, 100, rng.randrange(-1000, 1000)])
    spb = rng.choice([22050.0, 24000.0, 11025.5, 1000.0, 64.0, float(rng.randrange(50, 100000)),
                      rng.uniform(50, 1e6)])
    start = rng.choice([0.0, -spb * 4, -spb * rng.randrange(0, 40), rng.uniform(-1e6, 1e6), 1234.5, -0.125])
    g = []
    off = start
    for _ in range(k):
        g.append((idx, off))
        step = rng.choice([1, 1, 4, 4, 8, 16, 64, rng.randrange(1, 200)])
        if rng.random() < 0.3:
            spb = spb * rng.choice([1.0, 0.5, 2.0, rng.uniform(0.8, 1.25)])
        idx += step
        off = off + step * spb
    return g


def gen_cases(rng, tier):
    cases = []
    # hand-picked boundary classes (incl. the two repaired defects)
    cases += [
        (400, [(0, 0.0), (4, 400.0), (8, 800.0)]),
        (1000, [(0, 0.0), (4, 400.0), (8, 800.0)]),
        (1000, [(-6, -100.0), (-4, 100.0), (0, 500.0)]),
        (1000, [(-6, -100.0), (-5, 100.0), (0, 600.0)]),
        (1000, []), (1000, [(0, 0.0)]),
        (1000, [(0, 2000.0), (4, 2400.0)]),            # entirely beyond the end
        (1000, [(0, -2000.0), (4, -1600.0)]),          # entirely before the start
        (1000, [(-4, -400.0), (0, 0.0), (4, 400.0)]),  # a marker exactly at 0
        (800, [(-4, -400.0), (4, 400.0), (8, 800.0), (12, 1200.0)]),
        (1, [(0, 0.0), (1, 1.0)]),
    ]
    n_rand = 400 if tier == "quick" else 20000
    for _ in range(n_rand):
        g = gen_grid(rng)
        lo, hi = g[0][1], g[-1][1]
        c = rng.random()
        if c < 0.25:
            n = int(rng.choice(g)[1])                 # end exactly on (or just after the floor of) a marker
        elif c < 0.75:
            n = int(rng.uniform(max(1.0, lo), max(2.0, hi * 1.2 + 10)))
        else:
            n = rng.randrange(1, 10 ** rng.randrange(1, 10))
        cases.append((max(n, 1), g))
    return cases


def spec_trim(n, g):
    """The Spec's trimming, written from the property text on exact values."""
    if not g:
        return []
    end = None
    for j, (_, o) in enumerate(g):
        if Fraction(o) >= n:
            end = j
            break
    t = g[:end + 1] if end is not None else list(g)
    first_pos = None
    for j, (_, o) in enumerate(t):
        if o > 0:
            first_pos = j
            break
    if first_pos is None:
        first_pos = len(t)
    if first_pos != 0:
        t = t[first_pos - 1:]
    return t


def tempo(a, b):
    return (Fraction(b[1]) - Fraction(a[1])) / (b[0] - a[0])


def close(x, y, rel=Fraction(1, 10 ** 9), abs_=Fraction(1, 10 ** 6)):
    return abs(x - y) <= max(abs_, rel * max(abs(x), abs(y)))


def oracle(n, g, res, res2):
    """Direct statement of C20 on the implementation's own answer `res`
    (and `res2` = the implementation applied to its own output)."""
    t = spec_trim(n, g)
    should_reject = len(g) > 0 and (len(t) < 2 or t[1][0] <= -4)
    if not should_reject and len(t) == 2:
        # the track ends at or before beat -4 of the (only) segment
        beat_m4 = Fraction(t[0][1]) + (-4 - t[0][0]) * tempo(t[0], t[1])
        should_reject = n <= beat_m4
    if not g:
        return None if res == "ok 0" else "empty grid not returned unchanged"
    if should_reject:
        return None if res.startswith("throw invalid_argument") else \
            "a grid that cannot be normalised was not rejected with invalid_argument (got %s)" % res[:40]
    out = parse(res)
    if out is None:
        return "normalisable grid rejected or crashed (%s)" % res[:40]
    if len(out) != len(t):
        return "result has %d markers, the trimmed grid %d" % (len(out), len(t))
    if out[0][0] != -4:
        return "first marker has index %d, not -4" % out[0][0]
    if out[1:-1] != t[1:-1]:
        return "an interior marker inside the track was changed"
    for j in range(len(out) - 1):
        if not (out[j][0] < out[j + 1][0] and out[j][1] < out[j + 1][1]):
            return "result is not strictly increasing at position %d" % j
    t_first, t_last = tempo(t[0], t[1]), tempo(t[-2], t[-1])
    if not close(tempo(out[0], out[1]), t_first):
        return "tempo of the first segment changed"
    if not close(tempo(out[-2], out[-1]), t_last):
        return "tempo of the last segment changed"
    last = Fraction(out[-1][1])
    tol = max(Fraction(1, 10 ** 6), abs(last) / 10 ** 12)
    if not (last >= n - tol):
        return "last marker lies before the end of the track"
    if not (last < n + t_last + tol):
        return "last marker lies a whole beat or more past the end of the track"
    out2 = parse(res2)
    if out2 is None or len(out2) != len(out):
        return "normalising the result again fails or changes its length (%s)" % res2[:40]
    for a, b in zip(out, out2):
        if a[0] != b[0] or not close(Fraction(a[1]), Fraction(b[1])):
            return "not idempotent: second normalisation moved a marker"
    return None


def canon(s):
    """NaN payload / sign is not meaningful: canonicalise every NaN bit pattern."""
    out = []
    for tok in s.split():
        if len(tok) == 16:
            try:
                v = int(tok, 16)
                if (v >> 52) & 0x7ff == 0x7ff and v & ((1 << 52) - 1):
                    tok = "nan"
            except ValueError:
                pass
        out.append(tok)
    return " ".join(out)


def tie(ctx):
    rng = random.Random(ctx.seed * 104729 + 20)
    cases = gen_cases(rng, ctx.tier)
    # out-of-domain (int overflow / cast range) points: tie only
    ood = [(1000, [(2147483646, 0.0), (2147483647, 400.0)]),
           (1000, [(-2147483648, 0.0), (2147483647, 400.0)]),
           (10 ** 15, [(0, 0.0), (1, 1e-9)]),
           (1000, [(0, 0.0), (0, 400.0)]),
           (1000, [(0, float("nan")), (4, 400.0)])]
    lines = [fmt(n, g) for (n, g) in cases + ood]
    scripts = runner.shard(lines, NCPU)
    hout = [o for (outs, _) in runner.run_harness(scripts, stateless=True) for o in outs]
    mout = [o for outs in runner.run_model(scripts) for o in outs]
    # second application (idempotence) on the implementation's own outputs
    lines2, idx2 = [], []
    for i, (n, g) in enumerate(cases):
        out = parse(hout[i])
        if out:
            lines2.append(fmt(n, out))
            idx2.append(i)
    h2 = {}
    if lines2:
        sc2 = runner.shard(lines2, NCPU)
        o2 = [o for (outs, _) in runner.run_harness(sc2, stateless=True) for o in outs]
        m2 = [o for outs in runner.run_model(sc2) for o in outs]
        for k, i in enumerate(idx2):
            h2[i] = o2[k]
            if canon(o2[k]) != canon(m2[k]):
                hout.append(o2[k]); mout.append(m2[k]); lines.append(lines2[k])
    divergences, violations = [], []
    hist = {"ok": 0, "reject": 0, "ub": 0, "end_on_marker": 0, "ood": len(ood)}
    distinct = set()
    for i in range(len(lines)):
        if canon(hout[i]) != canon(mout[i]):
            divergences.append({"input": lines[i][:300], "impl": hout[i][:200], "model": mout[i][:200]})
    for i, (n, g) in enumerate(cases):
        why = oracle(n, g, hout[i], h2.get(i, ""))
        if why:
            violations.append({"tag": "oracle", "signature": None,
                               "header": {"kind": "input", "what": why},
                               "body": [lines[i], "impl: " + hout[i], "impl(2nd): " + h2.get(i, "-")]})
        if hout[i].startswith("ok"):
            hist["ok"] += 1
            if len(g) >= 2:
                distinct.add((n, tuple(g)))
        elif hout[i].startswith("throw"):
            hist["reject"] += 1
        else:
            hist["ub"] += 1
        if any(Fraction(o) == n for (_, o) in g):
            hist["end_on_marker"] += 1
    return {
        "ok": not divergences and not violations,
        "evaluations": len(lines),
        "distinct_nontrivial": len(distinct),
        "rule": "seeded strictly-increasing grids of 2..64 markers (varying start index, tempo changes, markers before 0 "
                "and beyond the end, track end exactly on a marker in ~25% of cases) plus hand-picked boundary classes; "
                "C++ normalize_beatgrid vs Lean Beatgrid.normalize over hardware Float, bit for bit, applied twice; "
                "non-trivial = distinct (n, grid) accepted by the implementation",
        "samples": [lines[0][:200], lines[12][:200] if len(lines) > 12 else lines[-1][:200]],
        "histograms": hist,
        "divergences": divergences[:20],
        "violations": violations[:5],
    }
