"""C20 — Beat-grid normalisation brackets the track and keeps its tempo."""
import os, random, struct, subprocess, sys
from fractions import Fraction
from common import *
import runner

ID = "C20"
LEAN_MODULES = ["Properties.C20", "Properties.C20Gen"]
THEOREMS = ["EngineModel.Properties.C20." + t for t in [
    # A. every arithmetic (incl. the Float instance the driver runs)
    "C20_defined", "C20_ok_or_invalid", "C20_trim_infix", "C20_gen_first_index", "C20_gen_interior_unchanged",
    "C20_gen_out_idx32", "C20_gen_reject_of", "C20_trim_spec", "C20_float_ceil32Ok", "C20_float",
    # B. exact rationals, about the input grid (through the Spec window)
    "C20_rat_laws", "C20_window_spec", "C20_overlap_iff", "C20_reject_out_of_range", "C20_reject_iff",
    "C20_accept_of_overlap", "C20_empty", "C20_first_index", "C20_interior_kept", "C20_interior_inside",
    "C20_interior_unchanged", "C20_tempo_kept", "C20_bracket", "C20_sorted", "C20_idempotent",
    # C. witnesses
    "C20_defined_counterexample", "C20_accept_of_overlap_counterexample", "C20_former_ub_witnesses"]]
# D. the function regenerated from engine.cpp on every run (tools/tr_beatgrid.py): equal to the hand model for
#    every arithmetic, and the main clauses restated on it.  Statements mention names only; the proofs unfold the
#    regenerated blocks, so a change of what the C++ computes breaks one of them.
THEOREMS += ["EngineModel.Properties.C20Gen." + t for t in [
    "C20Gen_eq_partial", "C20Gen_eq_float_partial", "C20Gen_eq_rat_partial",
    "C20Gen_defined", "C20Gen_ok_or_invalid", "C20Gen_gen_shape", "C20Gen_gen_reject_of", "C20Gen_float",
    "C20Gen_reject_iff", "C20Gen_reject_out_of_range", "C20Gen_accept_of_overlap", "C20Gen_first_index",
    "C20Gen_interior_kept", "C20Gen_interior_inside", "C20Gen_interior_unchanged", "C20Gen_tempo_kept",
    "C20Gen_bracket", "C20Gen_sorted", "C20Gen_idempotent", "C20Gen_empty"]]
ASSUMPTIONS = [
    "the quantitative clauses (bracket, tempo, idempotence, exact rejection set) are theorems over exact rationals "
    "(instance ratNum, Lean core Rat, executable); the C++ is tied bit-for-bit to the same generic Lean code "
    "instantiated with hardware Float, and Float is compared with the exact-rational run of the same code on the "
    "same (dyadic) inputs within a relative tolerance; floating-point rounding error itself is not bounded by a theorem",
    "the comparison-only clauses (totality / no undefined behaviour, first index -4, interior positions, the two "
    "unconditional rejections) are theorems for every arithmetic and are instantiated for the Float instance "
    "(C20_float); trim = window holds for any comparisons satisfying OrdLaws (proved for the rationals; the IEEE "
    "comparisons satisfy them but Lean's Float is opaque, so this is not a theorem about floatNum)",
    "beat indices are int32_t (Idx32) and the sample count int64_t, as in the C++ signature; the theorems that "
    "mention the window assume a positive sample count",
    "the theorems about the regenerated function (C20Gen_*) assume in addition at most 2^31 markers (Len31: the "
    "source computes int32_t last = size() - 1); the translator's mapping (design/C20_gen.md) is trusted and is "
    "exercised on every run by executing the regenerated function against the real library",
]
MANIFEST = dict(
    text="Theorems about the Model of normalize_beatgrid, generic over its arithmetic: for every arithmetic (hence for the hardware-Float instance tied bit for bit to the C++) normalisation of a grid with int indices returns a grid or throws invalid_argument (C20_defined: no undefined behaviour - true since the fix that moved the index arithmetic to 64 bits and range-checks the double->int conversion), first index -4, interior positions untouched; over exact rationals, stated about the input grid through the Spec window (trim = window is a theorem): a strictly increasing grid is accepted iff >= 2 of its markers overlap the track, beat -4 lies before the second window marker, the track extends beyond beat -4 and the last index is representable (C20_reject_iff, C20_overlap_iff, C20_accept_of_overlap); last marker in [n, n + beat), first/last tempo kept, interior markers of the input inside the track kept and nothing else, result strictly increasing, idempotent - all grids, any length. The model is also REGENERATED from engine.cpp on every run (tools/tr_beatgrid.py, clang typed AST -> Gen/BeatgridGen.lean over the same arithmetic class) and proved equal to the hand model for every arithmetic on grids with int indices and <= 2^31 markers (C20Gen_eq_partial); defined / rejection set / acceptance / interior / tempo / bracket / sorted / idempotent are restated on the regenerated function (C20Gen_*), so a change of what the C++ computes breaks a proof obligation. Tie: C++ vs Float instance bit for bit (applied twice), C++ vs the exact-rational run within 1e-9 relative, Python oracle written from the property text on the implementation's own answers, extreme-index / extreme-sample-count stream for totality; the regenerated function over Float against the C++ bit for bit on the same inputs.",
    note="Trusted: Lean kernel (+ Mathlib's order/field lemmas on Rat); floating-point rounding itself is not bounded by a theorem (tie tolerance 1e-9 relative, rounding-boundary cases counted in the evidence); the translator tools/tr_beatgrid.py and its vocabulary Pure/BeatgridVec.lean (mapping table in design/C20_gen.md; fails closed on an unsupported node: previous translation stays, status in the evidence).",
    technique='Lean 4 theorems (generic over the arithmetic + exact rationals) about an executable model, the model also regenerated from source and proved equal + bit-exact differential run over Float + Float-vs-Q comparison',
    ref='6/C20')
TRUSTED_EXTRA = ["tools/tr_beatgrid.py (clang-14 JSON AST of normalize_beatgrid -> Lean over the same arithmetic class; "
                 "mapping table in design/C20_gen.md, vocabulary lean/EngineModel/Pure/BeatgridVec.lean; validated by "
                 "execution: bg.normgen vs the real library, bit for bit, on every generated grid)"]


def _translate():
    r = subprocess.run([sys.executable, os.path.join(VERIF, "tools", "tr_beatgrid.py")],
                       stdout=subprocess.PIPE, stderr=subprocess.PIPE, text=True)
    return (r.stdout.strip() or r.stderr.strip()[-200:])


# regenerated on every run of check.py; fails closed (unsupported node => previous file stays, status in the evidence)
TRANSLATORS = {"engine.cpp:normalize_beatgrid": _translate}


def dbits(x: float) -> str:
    return "%016x" % struct.unpack(">Q", struct.pack(">d", x))[0]


def bitsd(h: str) -> float:
    return struct.unpack(">d", struct.pack(">Q", int(h, 16)))[0]


def fmt(n, g):
    return "bg.norm %d %d %s" % (n, len(g), " ".join("%d %s" % (i, dbits(o)) for (i, o) in g))


def parse(s):
    t = s.split()
    if not t or t[0] != "ok":
        return None
    k = int(t[1])
    return [(int(t[2 + 2 * j]), bitsd(t[3 + 2 * j])) for j in range(k)]


def gen_grid(rng):
    k = rng.choice([2, 2, 3, 3, 4, 5, 8, 16, 33, 64])
    idx = rng.choice([-4, -4, 0, 0, -8, -20, 7, 100, rng.randrange(-1000, 1000)])
    spb = rng.choice([22050.0, 24000.0, 11025.5, 1000.0, 64.0, float(rng.randrange(50, 100000)),
                      rng.uniform(50, 1e6)])
    start = rng.choice([0.0, -spb * 4, -spb * rng.randrange(0, 40), rng.uniform(-1e6, 1e6), 1234.5, -0.125])
    g = []
    off = start
    for _ in range(k):
        g.append((idx, off))
        step = rng.choice([1, 1, 4, 4, 8, 16, 64, rng.randrange(1, 200)])
        if rng.random() < 0.3:
            spb = spb * rng.choice([1.0, 0.5, 2.0, rng.uniform(0.8, 1.25)])
        idx += step
        off = off + step * spb
    return g


def gen_cases(rng, tier):
    cases = []
    # hand-picked boundary classes (incl. the two repaired defects)
    cases += [
        (400, [(0, 0.0), (4, 400.0), (8, 800.0)]),
        (1000, [(0, 0.0), (4, 400.0), (8, 800.0)]),
        (1000, [(-6, -100.0), (-4, 100.0), (0, 500.0)]),
        (1000, [(-6, -100.0), (-5, 100.0), (0, 600.0)]),
        (1000, []), (1000, [(0, 0.0)]),
        (1000, [(0, 2000.0), (4, 2400.0)]),            # entirely beyond the end
        (1000, [(0, -2000.0), (4, -1600.0)]),          # entirely before the start
        (1000, [(-4, -400.0), (0, 0.0), (4, 400.0)]),  # a marker exactly at 0
        (800, [(-4, -400.0), (4, 400.0), (8, 800.0), (12, 1200.0)]),
        (1, [(0, 0.0), (1, 1.0)]),
    ]
    n_rand = 400 if tier == "quick" else 20000
    for _ in range(n_rand):
        g = gen_grid(rng)
        lo, hi = g[0][1], g[-1][1]
        c = rng.random()
        if c < 0.25:
            n = int(rng.choice(g)[1])                 # end exactly on (or just after the floor of) a marker
        elif c < 0.75:
            n = int(rng.uniform(max(1.0, lo), max(2.0, hi * 1.2 + 10)))
        else:
            n = rng.randrange(1, 10 ** rng.randrange(1, 10))
        cases.append((max(n, 1), g))
    # grids that already have the SHAPE of a normalised grid (first index -4, exactly one marker at or before
    # sample 0, exactly one at or beyond the end) - e.g. a grid normalised earlier for a track of another length -
    # with the end anywhere in the last segment, so that the last marker is anything from 0 to many beats past the
    # end; tempo changes between segments are frequent here (round 5, seeded C20-4: an "already normalised" fast
    # path that measured the last beat with the average tempo of the whole grid)
    n_shape = 160 if tier == "quick" else 8000
    for _ in range(n_shape):
        k = rng.choice([3, 3, 3, 4, 5, 8])
        spb = rng.choice([1000.0, 22050.0, 64.0, float(rng.randrange(50, 100000))])
        first = -spb * rng.choice([0.0, 0.5, 1.0, 3.0, 7.0, rng.uniform(0, 16)])
        g, idx, off = [], -4, first
        for j in range(k):
            g.append((idx, off))
            step = rng.choice([1, 4, 8, 16, rng.randrange(1, 40)])
            if j == 0:
                # the second marker must lie after sample 0
                while off + step * spb <= 0:
                    step += 4
            idx += step
            off = off + step * spb
            if rng.random() < 0.7:
                spb = spb * rng.choice([0.5, 2.0, 0.8, 1.25, rng.uniform(0.4, 2.5)])
        lo, hi = g[-2][1], g[-1][1]
        c = rng.random()
        if c < 0.2:
            n = int(hi)                                # already exact
        elif c < 0.4:
            n = int(hi - rng.uniform(0, 2) * (hi - lo) / max(1, g[-1][0] - g[-2][0]))   # within two last-segment beats
        else:
            n = int(rng.uniform(lo + 1, hi))
        if n > max(1, int(lo)):
            cases.append((n, g))
    return cases


def spec_trim(n, g):
    """The Spec's trimming, written from the property text on exact values."""
    if not g:
        return []
    end = None
    for j, (_, o) in enumerate(g):
        if Fraction(o) >= n:
            end = j
            break
    t = g[:end + 1] if end is not None else list(g)
    first_pos = None
    for j, (_, o) in enumerate(t):
        if o > 0:
            first_pos = j
            break
    if first_pos is None:
        first_pos = len(t)
    if first_pos != 0:
        t = t[first_pos - 1:]
    return t


def tempo(a, b):
    return (Fraction(b[1]) - Fraction(a[1])) / (b[0] - a[0])


def close(x, y, rel=Fraction(1, 10 ** 9), abs_=Fraction(1, 10 ** 6)):
    return abs(x - y) <= max(abs_, rel * max(abs(x), abs(y)))


def oracle(n, g, res, res2):
    """Direct statement of C20 on the implementation's own answer `res`
    (and `res2` = the implementation applied to its own output)."""
    t = spec_trim(n, g)
    should_reject = len(g) > 0 and (len(t) < 2 or t[1][0] <= -4)
    if not should_reject and len(t) == 2:
        # the track ends at or before beat -4 of the (only) segment
        beat_m4 = Fraction(t[0][1]) + (-4 - t[0][0]) * tempo(t[0], t[1])
        should_reject = n <= beat_m4
    if not g:
        return None if res == "ok 0" else "empty grid not returned unchanged"
    if should_reject:
        return None if res.startswith("throw invalid_argument") else \
            "a grid that cannot be normalised was not rejected with invalid_argument (got %s)" % res[:40]
    out = parse(res)
    if out is None:
        return "normalisable grid rejected or crashed (%s)" % res[:40]
    if len(out) != len(t):
        return "result has %d markers, the trimmed grid %d" % (len(out), len(t))
    if out[0][0] != -4:
        return "first marker has index %d, not -4" % out[0][0]
    if out[1:-1] != t[1:-1]:
        return "an interior marker inside the track was changed"
    for j in range(len(out) - 1):
        if not (out[j][0] < out[j + 1][0] and out[j][1] < out[j + 1][1]):
            return "result is not strictly increasing at position %d" % j
    t_first, t_last = tempo(t[0], t[1]), tempo(t[-2], t[-1])
    if not close(tempo(out[0], out[1]), t_first):
        return "tempo of the first segment changed"
    if not close(tempo(out[-2], out[-1]), t_last):
        return "tempo of the last segment changed"
    last = Fraction(out[-1][1])
    tol = max(Fraction(1, 10 ** 6), abs(last) / 10 ** 12)
    if not (last >= n - tol):
        return "last marker lies before the end of the track"
    if not (last < n + t_last + tol):
        return "last marker lies a whole beat or more past the end of the track"
    out2 = parse(res2)
    if out2 is None or len(out2) != len(out):
        return "normalising the result again fails or changes its length (%s)" % res2[:40]
    for a, b in zip(out, out2):
        if a[0] != b[0] or not close(Fraction(a[1]), Fraction(b[1])):
            return "not idempotent: second normalisation moved a marker"
    return None


def canon(s):
    """NaN payload / sign is not meaningful: canonicalise every NaN bit pattern."""
    out = []
    for tok in s.split():
        if len(tok) == 16:
            try:
                v = int(tok, 16)
                if (v >> 52) & 0x7ff == 0x7ff and v & ((1 << 52) - 1):
                    tok = "nan"
            except ValueError:
                pass
        out.append(tok)
    return " ".join(out)


I32MIN, I32MAX = -2 ** 31, 2 ** 31 - 1


def gen_extreme(rng, tier):
    """Totality stream: any int32 index, any positive tempo, any int64 sample count (the property's
    quantifier: 'any starting index, any tempo, all sample counts'); strictly increasing grids."""
    fixed = [
        (2 ** 31, [(-4, 0.0), (2147483644, 2147483648.0)]),   # index[1] - index[0] overflows int
        (1000, [(2147483646, 0.0), (2147483647, 400.0)]),     # 4 + index[0] overflows int
        (1000, [(-2147483648, 0.0), (2147483647, 400.0)]),
        (10 ** 15, [(0, 0.0), (1, 1e-9)]),                    # ceil() beyond int32
        (3 * 10 ** 9, [(0, 0.0), (2147483647, 2147483647.0)]),  # index += adjustment overflows int
        (2 ** 62, [(0, 0.0), (4, 88200.0)]),
        (-5, [(0, -10.0), (4, 5.0)]), (0, [(0, -10.0), (4, 5.0)]),
        (-2 ** 63, [(0, -10.0), (4, 5.0)]), (2 ** 63 - 1, [(-4, -4.0), (0, 0.5)]),
        (1000, [(2147483640, -100.0), (2147483644, 300.0), (2147483647, 600.0)]),
    ]
    cases = list(fixed)
    k = 150 if tier == "quick" else 6000
    for _ in range(k):
        m = rng.choice([2, 2, 3, 5, 9])
        idx = rng.choice([I32MIN, I32MIN + rng.randrange(0, 10), I32MAX - rng.randrange(0, 200), -4, 0,
                          rng.randrange(I32MIN, I32MAX)])
        spb = rng.choice([1e-9, 1e-3, 0.5, 1.0, 22050.0, 1e9, 1e15, rng.uniform(1e-6, 1e6)])
        off = rng.choice([0.0, -spb * 8, -1e18, 1e12, rng.uniform(-1e9, 1e9)])
        g = []
        for _ in range(m):
            g.append((idx, off))
            step = rng.choice([1, 1, 4, 2 ** 20, 2 ** 30, 2 ** 31, 2 ** 32 - 1, rng.randrange(1, 2 ** 32)])
            if idx + step > I32MAX:
                break
            idx += step
            off2 = off + step * spb
            if not off2 > off:
                break
            off = off2
        if len(g) < 2:
            continue
        n = rng.choice([1, 1000, 2 ** 31, 2 ** 53 + 1, 2 ** 62, 2 ** 63 - 1, 0, -1, -2 ** 63,
                        int(min(max(g[-1][1], -9e18), 9e18)), rng.randrange(1, 2 ** rng.randrange(2, 63))])
        cases.append((n, g))
    return cases


def parse_q(s):
    t = s.split()
    if not t or t[0] != "ok":
        return None
    k = int(t[1])
    out = []
    for j in range(k):
        a, b = t[3 + 2 * j].split("/")
        out.append((int(t[2 + 2 * j]), Fraction(int(a), int(b))))
    return out


def near_integer(q, eps=Fraction(1, 10 ** 6)):
    return abs(q - round(q)) <= eps * max(1, abs(q))


def rounding_boundary(n, g):
    """True when the exact number of beats to the end is (relatively) within 1e-6 of an integer, or a
    marker / beat -4 sits within that distance of the end: then Float may legitimately take the other
    side of ceil() or of the 'track ends at or before beat -4' test."""
    t = spec_trim(n, g)
    if len(t) < 2 or t[0][0] == t[1][0] or t[-1][0] == t[-2][0]:
        return False
    tl = tempo(t[-2], t[-1])
    if tl == 0:
        return False
    if near_integer((n - Fraction(t[-1][1])) / tl):
        return True
    if n > 2 ** 53:   # the int64 -> double conversion of the sample count rounds
        return True
    return False


def cmp_float_q(n, g, hres, qres):
    """The implementation's (Float) answer against the exact-rational run of the same Model."""
    hq = parse(hres)
    qq = parse_q(qres)
    if qres.startswith("bad-op"):
        return "skip"
    if hq is None and qq is None:
        if hres.split()[:2] == qres.split()[:2]:
            return "agree"
        return "class"
    if (hq is None) != (qq is None):
        return "class"
    if len(hq) != len(qq) or [i for i, _ in hq] != [i for i, _ in qq]:
        return "index"
    for (_, a), (_, b) in zip(hq, qq):
        if a != a or a in (float("inf"), float("-inf")):
            return "offset"
        if not close(Fraction(a), b):
            return "offset"
    return "agree"


def tie(ctx):
    rng = random.Random(ctx.seed * 104729 + 20)
    cases = gen_cases(rng, ctx.tier)
    n_in = len(cases)
    extreme = gen_extreme(rng, ctx.tier)
    # not strictly increasing / NaN: tie only (the Model must predict whatever the code does)
    ood = [(1000, [(0, 0.0), (0, 400.0)]),
           (1000, [(0, float("nan")), (4, 400.0)]),
           (1000, [(4, 0.0), (0, 400.0)]),
           (1000, [(0, 400.0), (4, 0.0)]),
           (1000, [(0, 0.0), (4, float("inf"))])]
    allc = cases + extreme + ood
    lines = [fmt(n, g) for (n, g) in allc]
    scripts = runner.shard(lines, NCPU)
    hout = [o for (outs, _) in runner.run_harness(scripts, stateless=True) for o in outs]
    mout = [o for outs in runner.run_model(scripts) for o in outs]
    # the function regenerated from the source by tools/tr_beatgrid.py, over hardware Float, on the same inputs:
    # validates the translator's mapping by execution (independently of the proof that it equals the hand model)
    glines = [l.replace("bg.norm", "bg.normgen", 1) for l in lines]
    gout = [o for outs in runner.run_model(runner.shard(glines, NCPU)) for o in outs]
    # exact-rational run of the same Model on the same inputs, and the Spec window
    nq = len(cases) + len(extreme)
    qlines = [l.replace("bg.norm", "bg.normq", 1) for l in lines[:nq]]
    wlines = [l.replace("bg.norm", "bg.window", 1) for l in lines[:nq]]
    qout = [o for outs in runner.run_model(runner.shard(qlines, NCPU)) for o in outs]
    wout = [o for outs in runner.run_model(runner.shard(wlines, NCPU)) for o in outs]
    # second application (idempotence) on the implementation's own outputs
    lines2, idx2 = [], []
    for i, (n, g) in enumerate(cases):
        out = parse(hout[i])
        if out:
            lines2.append(fmt(n, out))
            idx2.append(i)
    h2 = {}
    extra = []
    g2ok = 0
    if lines2:
        sc2 = runner.shard(lines2, NCPU)
        o2 = [o for (outs, _) in runner.run_harness(sc2, stateless=True) for o in outs]
        m2 = [o for outs in runner.run_model(sc2) for o in outs]
        g2lines = [l.replace("bg.norm", "bg.normgen", 1) for l in lines2]
        g2 = [o for outs in runner.run_model(runner.shard(g2lines, NCPU)) for o in outs]
        for k, i in enumerate(idx2):
            h2[i] = o2[k]
            if canon(o2[k]) != canon(m2[k]):
                extra.append((lines2[k], o2[k], m2[k]))
            if canon(o2[k]) != canon(g2[k]):
                extra.append((g2lines[k], o2[k], "regenerated: " + g2[k]))
            else:
                g2ok += 1
    divergences, violations = [], []
    hist = {"ok": 0, "reject": 0, "ub": 0, "end_on_marker": 0, "extreme": len(extreme), "ood": len(ood),
            "extreme_ok": 0, "extreme_reject": 0, "fq_agree": 0, "fq_rounding_boundary": 0,
            "window_checked": 0, "markers_2": 0, "markers_3_8": 0, "markers_9_64": 0,
            "regenerated_vs_impl": len(glines) + len(lines2), "regenerated_vs_impl_ok": g2ok}
    distinct = set()
    for i in range(len(lines)):
        if canon(hout[i]) != canon(mout[i]):
            divergences.append({"input": lines[i][:300], "impl": hout[i][:200], "model": mout[i][:200]})
        if canon(hout[i]) != canon(gout[i]):
            divergences.append({"input": glines[i][:300], "impl": hout[i][:200],
                                "model": "regenerated: " + gout[i][:200]})
        else:
            hist["regenerated_vs_impl_ok"] += 1
    for (l, a, b) in extra:
        divergences.append({"input": l[:300], "impl": a[:200], "model": b[:200]})
    for i, (n, g) in enumerate(cases):
        why = oracle(n, g, hout[i], h2.get(i, ""))
        if why:
            violations.append({"tag": "oracle", "signature": None,
                               "header": {"kind": "input", "what": why},
                               "body": [lines[i], "impl: " + hout[i], "impl(2nd): " + h2.get(i, "-")]})
        if hout[i].startswith("ok"):
            hist["ok"] += 1
            if len(g) >= 2:
                distinct.add((n, tuple(g)))
        elif hout[i].startswith("throw"):
            hist["reject"] += 1
        else:
            hist["ub"] += 1
        if any(Fraction(o) == n for (_, o) in g):
            hist["end_on_marker"] += 1
        hist["markers_2" if len(g) <= 2 else "markers_3_8" if len(g) <= 8 else "markers_9_64"] += 1
    # totality (C20_defined) on the implementation's own outcomes: a grid or invalid_argument
    for j, (n, g) in enumerate(extreme):
        i = n_in + j
        r = hout[i]
        if r.startswith("ok"):
            hist["extreme_ok"] += 1
            out = parse(r)
            bad = None
            if out[0][0] != -4:
                bad = "first marker has index %d, not -4" % out[0][0]
            elif any(not (I32MIN <= a <= I32MAX) for a, _ in out):
                bad = "result index outside int32"
            elif any(out[k][0] >= out[k + 1][0] for k in range(len(out) - 1)):
                bad = "result indices not strictly increasing"
            if bad:
                violations.append({"tag": "oracle-extreme", "signature": None,
                                   "header": {"kind": "input", "what": bad}, "body": [lines[i], "impl: " + r]})
        elif r.startswith("throw invalid_argument"):
            hist["extreme_reject"] += 1
        else:
            violations.append({"tag": "oracle-totality", "signature": None,
                               "header": {"kind": "input",
                                          "what": "normalisation of a strictly increasing grid neither returned a "
                                                  "grid nor threw invalid_argument (%s)" % r[:60]},
                               "body": [lines[i], "impl: " + r]})
    # Float (implementation) vs exact rationals (the instance the theorems are about)
    for i in range(nq):
        n, g = allc[i]
        v = cmp_float_q(n, g, hout[i], qout[i])
        if v in ("agree", "skip"):
            hist["fq_agree"] += 1
        elif rounding_boundary(n, g) or i >= n_in:
            # extreme stream: huge magnitudes lose all precision; only the outcome alphabet is compared there
            hist["fq_rounding_boundary"] += 1
        else:
            violations.append({"tag": "float-vs-rational", "signature": None,
                               "header": {"kind": "input",
                                          "what": "the implementation's answer differs from exact-rational "
                                                  "normalisation beyond rounding (%s)" % v},
                               "body": [lines[i], "impl: " + hout[i][:300], "exact: " + qout[i][:300]]})
        # the Python oracle's trimming against the Lean Spec `window` (positive sample counts)
        if n > 0 and i < n_in and all(g[k][1] < g[k + 1][1] for k in range(len(g) - 1)):
            w = parse_q(wout[i])
            t = spec_trim(n, g)
            hist["window_checked"] += 1
            if w is None or [(a, Fraction(b)) for a, b in t] != w:
                divergences.append({"input": wlines[i][:300], "impl": "python spec_trim %r" % (t[:4],),
                                    "model": wout[i][:200]})
    return {
        "ok": not divergences and not violations,
        "evaluations": 2 * len(lines) + 2 * len(lines2) + 2 * nq,
        "distinct_nontrivial": len(distinct),
        "rule": "seeded strictly-increasing grids of 2..64 markers (varying start index, tempo changes, markers before 0 "
                "and beyond the end, track end exactly on a marker in ~25% of cases) plus hand-picked boundary classes; "
                "C++ normalize_beatgrid vs Lean Beatgrid.normalize over hardware Float, bit for bit, applied twice; "
                "the same inputs (both applications) through the function regenerated from engine.cpp by "
                "tools/tr_beatgrid.py (bg.normgen), bit for bit against the C++; "
                "the same inputs through the exact-rational instance (Float-vs-Q, 1e-9 relative; cases whose exact "
                "beat count is within 1e-6 of an integer are counted as rounding boundaries); an extreme stream "
                "(any int32 index, tempi 1e-9..1e15, sample counts over all of int64) for totality; the Python "
                "oracle's trimming cross-checked with the Lean Spec window; non-trivial = distinct (n, grid) accepted "
                "by the implementation",
        "samples": [lines[0][:200], lines[12][:200] if len(lines) > 12 else lines[-1][:200]],
        "histograms": hist,
        "divergences": divergences[:20],
        "violations": violations[:5],
    }
