"""C10 — Everything observed before closing is observed after reopening."""
import os, random, re
from common import *
import runner
import monitors_gen as G

ID = "C10"
LEAN_MODULES = ["Properties.C10"]
THEOREMS = ["EngineModel.Properties.C10." + t for t in [
    "C10_observe_state", "C10_reopen_idle", "C10_history_settles", "C10_reopen_observes", "C10_open_transaction_is_lost",
    "C10_reload", "C10_load_reports_created", "C10_create_or_load_iff", "C10_create_or_load_existing",
    "C10_create_or_load_both_layouts", "C10_create_or_load_creates", "C10_create_or_load_creation_fails",
    "C10_dir_load_reports_created", "C10_load_exists_keep_directory", "C10_create_or_load_old_counterexample",
    "C10_durable_is_visible", "C10_reopen_invisible", "C10_every_prefix", "C10_atomic_calls_settle", "C10_api_model",
    "C10_api_model_reopen", "C10_crates_v1", "C10_crates_v2", "C10_tracks_v2", "C10_tracks_v1"]]
ASSUMPTIONS = [
    "durability is SQLite's: what a connection has committed is what a later connection on the same files reads "
    "(modelled as Conn.reopen = idle on the committed database; sampled by closing and loading real on-disk libraries "
    "after every prefix of every generated history)",
    "handles hold (library, id) only — every accessor queries the connection (engine_track_impl.hpp, v2/track_impl.hpp); "
    "sampled: the full observation through handles re-obtained by id after loading equals the one before closing",
    "the statements of a call are the ones stepped through sqlite3_step (link-time wrapper): the observed kinds of "
    "every call of every history are given to Lean's closedShape (Call.settles)",
    "Gen.Detect.detectGen / stampGen are regenerated from schema.cpp and the schema_*.hpp creators on every run (C13's translator)",
]
MANIFEST = dict(
    text="Theorems C10_reopen_observes (with C10_history_settles, C10_reopen_idle, C10_observe_state): in the connection "
         "model of Spec/Txn.lean, after any history of public calls — each under any fault plan — whose statement shapes "
         "are closed (Call.settles), no transaction is open, so closing and reopening changes nothing any handle can "
         "observe — at every prefix of the history (C10_every_prefix), also when the library was closed and loaded after "
         "every single call (C10_reopen_invisible); C10_open_transaction_is_lost shows the hypothesis is needed and "
         "C10_atomic_calls_settle derives it from C14's monitor; C10_crates_v1 / C10_crates_v2 / C10_tracks_v2 carry this to "
         "the observation functions of the concrete API models. C10_load_reports_created: load_database "
         "on the directory a creator wrote reports that schema, for every schema the library creates (decision tree and "
         "version stamps regenerated from the source each run); C10_create_or_load: creates iff nothing exists, "
         "otherwise loads and reports what is there. Tied to the code on on-disk libraries of each version: after every "
         "prefix of generated crate/track histories all handles are destroyed and the directory is loaded again — the "
         "full observation (every getter of every crate and track, 2.x table API included) must equal the pre-close one "
         "and the loaded schema the created one; the same history without intermediate reopening must observe the same "
         "at every prefix; the observed statement kinds of every call are decided by Lean's closedShape and compared "
         "with sqlite3_get_autocommit; create_or_load_database is run on directories holding no / a 1.x / a 2.x / both "
         "libraries written by the real creators. Round 2: create_or_load / load / database_exists over the directory model Spec/Dir.lean: "
         "C10_create_or_load_iff (created <-> neither m.db nor Database2/m.db exists, every directory state), "
         "_existing, _both_layouts (rethrows, nothing created), _creates, _creation_fails (stray p.db), "
         "C10_dir_load_reports_created, C10_create_or_load_old_counterexample (code before fix 1fcc407); tied on all 81 "
         "directory shapes (answers + directory afterwards) and by the layout create_database leaves for all versions. "
         "C10_tracks_v1: the 1.x track model.",
    note="Trusted/limits: durability of committed data is SQLite's and the file system's (sampled, not proved); the "
         "theorem side covers the transaction discipline (nothing pending at close) and the reload/creation decision "
         "logic, not the persistence of bytes; histories are sampled; scratch directories live in /dev/shm (no power-loss "
         "semantics).",
    technique="Lean 4 theorems over a connection/transaction model and the regenerated schema-detection tree + close/"
              "reload of real on-disk libraries at every prefix of generated histories",
    ref="6/C10")
TRUSTED_EXTRA = ["harness/djv_monitors.cpp (full observation, reopen with handles re-obtained by id), harness/djv_wrap.cpp "
                 "(statement kinds), tools/monitors_gen.py (history generator), tools/tr_detect.py (translator)"]
STATELESS = False
SELF_TEST_ROUND2 = {"seeded/sv2-C10-revert-create-over-existing (reverts fix 1fcc407)":
                    "caught: create_or_load_database(1.x) reports created on 'm.db zero bytes, Database2/m.db valid' (6 shapes)"}
SELF_TEST = {"recorded": "2026-09-29, scratch worktree of /repo, quick tier seed 1 (not re-run by the check)", "seeded_changes": {
    "seeded/sv-C10-handle-cache (2.x set_comment keeps the value in the handle)": "caught: observation through held handles differs after close+load",
    "seeded/sv-C10-neighbour-schema (loaded_schema unassigned on the Database2 path)": "caught: created 2.18.0, load answers 1.6.0",
    "seeded/sv-C10-variant-marker (1.18.0 desktop loads as os; also killed by the unit-test suite)": "caught: schema-differs",
    "seeded/sv-C10-open-transaction (2.x set_bpm: BEGIN without COMMIT)": "caught after Hist.sweep: observation differs, Lean closedShape = open",
    "seeded/sv-refactor-getter-in-scope, seeded/sv-refactor-reorder-writes (behaviour preserving)": "green"}}

MON = ("trace", "autocommit", "fullobs", "tableapi.reads", "reopen", "closeall", "load", "dirsha", "exists")


# ------------------------------------------------------------------ scripts
def obs_block(v2):
    return ["fullobs"] + (["tableapi.reads"] if v2 else [])


def script_reopen_each(schema, hist_lines):
    """stream A: after every call the library is closed and loaded again."""
    v2 = G.family(schema) == "v2"
    sc = ["create %s disk" % schema, "#prefix 0"] + obs_block(v2) + ["reopen"] + obs_block(v2)
    for i, l in enumerate(hist_lines):
        sc += ["trace on", l, "trace get", "trace off", "autocommit", "#prefix %d" % (i + 1)] + obs_block(v2) + ["reopen"] + obs_block(v2)
    return sc


def script_no_reopen(schema, hist_lines, upto=None):
    """stream B / C: the history in one session, observed after every call; closed and loaded once at the end."""
    v2 = G.family(schema) == "v2"
    n = len(hist_lines) if upto is None else upto
    sc = ["create %s disk" % schema]
    for i, l in enumerate(hist_lines[:n]):
        sc += [l, "#session %d" % (i + 1), "fullobs"]
    sc += ["#prefix %d" % n] + obs_block(v2) + ["reopen"] + obs_block(v2)
    return sc


def parse_obs(o):
    if not o.startswith("ok "):
        return None
    d = dict(kv.split("=", 1) for kv in o[3:].split(" ") if "=" in kv)
    d["tables"] = dict(t.rsplit(":", 1) for t in d.get("tables", "").split(",") if ":" in t)
    return d


def table_answers(o):
    m = re.search(r"answers=(\S+) raw=(\S+) n=(\S+)", o)
    return m.groups() if (o.startswith("ok ") and m) else None


def judge_prefixes(script, outs, created_schema):
    """Every '#prefix k' block: [fullobs, (tableapi.reads)] reopen [fullobs, (tableapi.reads)].
    Pure function of the harness output; used by the tie and by replay.
    -> list of dict(prefix, problems=[(tag, text)], raw_equal, api)"""
    res = []
    i = 0
    while i < len(script):
        if script[i].startswith("#prefix "):
            k = int(script[i].split()[1])
            j = i + 1
            blk = []
            while j < len(script) and script[j].split(" ")[0] in ("fullobs", "tableapi.reads", "reopen"):
                blk.append((script[j], outs[j]))
                j += 1
            r = {"prefix": k, "problems": [], "raw_equal": None, "api": None}
            ri = [n for n, (l, _) in enumerate(blk) if l == "reopen"]
            if not ri:
                i = j
                continue
            pre, post, ro = blk[:ri[0]], blk[ri[0] + 1:], blk[ri[0]][1]
            bad = [(l, o) for l, o in blk if not o.startswith("ok")]
            if any(o.startswith(("ub ", "skipped", "missing", "bad-op")) for _, o in bad):
                r["problems"].append(("monitor-failed", "%s -> %s" % bad[0]))
            elif not ro.startswith("ok "):
                r["problems"].append(("load-fails", "the library cannot be loaded again after %d calls: %s" % (k, ro)))
            else:
                if ro.split(" ")[1] != created_schema:
                    r["problems"].append(("schema-differs", "created as %s, load_database reports %s" % (created_schema, ro.split(" ")[1])))
                a, b = parse_obs(pre[0][1]), parse_obs(post[0][1]) if post else None
                if a is None or b is None:
                    r["problems"].append(("monitor-failed", "fullobs -> %s / %s" % (pre[0][1][:60], post[0][1][:60] if post else "-")))
                else:
                    r["api"] = a["api"]
                    if a["api"] != b["api"] or a["uuid"] != b["uuid"] or a.get("held") != b.get("held"):
                        chg = sorted(t for t in set(a["tables"]) | set(b["tables"]) if a["tables"].get(t) != b["tables"].get(t))
                        r["problems"].append(("observed-differs", "the observation through the public API after closing and loading "
                                              "differs from the one before (%s; raw tables that differ: %s)" % (
                                                  "getters of crates / tracks / database" if a["api"] != b["api"] else
                                                  "database uuid" if a["uuid"] != b["uuid"] else
                                                  "getters through the handles held since before closing vs the handles re-obtained by id",
                                                  ",".join(chg) or "none")))
                    r["raw_equal"] = a["raw"] == b["raw"]
                if len(pre) > 1 and len(post) > 1:
                    ta, tb = table_answers(pre[1][1]), table_answers(post[1][1])
                    if ta is None or tb is None:
                        r["problems"].append(("monitor-failed", "tableapi.reads -> %s" % (pre[1][1][:60])))
                    elif ta[0] != tb[0]:
                        r["problems"].append(("observed-differs", "the answers of the 2.x table API read functions after closing and "
                                              "loading differ from the ones before"))
            res.append(r)
            i = j
        else:
            i += 1
    return res


def call_records(script, outs):
    """stream A: (line, result, kinds, autocommit) of every traced call."""
    rec = []
    for i, l in enumerate(script):
        if l == "trace on" and i + 4 < len(script):
            rec.append((script[i + 1], outs[i + 1], outs[i + 2][3:] if outs[i + 2].startswith("ok ") else None, outs[i + 4]))
    return rec


# ------------------------------------------------------------------ load / create_or_load
LM, DM = "L-marker".encode().hex(), "D-marker".encode().hex()


def col_script(pres, s1, s2, req, sameref=False):
    # `+sameref` (harness only): the requested schema (in) and the loaded schema (out) are one variable of the caller
    return ["c10.dir %s %s %s" % (pres, s1, s2), "exists", "dirsha",
            "create_or_load %s same%s" % (req, " +sameref" if sameref else ""),
            "db.q root_by_name " + LM, "db.q root_by_name " + DM, "db.q crates", "closeall", "dirsha", "load", "exists"]


def judge_col(pres, s1, s2, req, o):
    """Oracle from the property text: creates exactly when no library exists; otherwise loads what is there."""
    problems = []
    ex0, sha0, col, lm, dm, crates, _, sha1, ld, ex1 = o[1:11]
    if any(x.startswith(("ub ", "skipped", "missing")) for x in o):
        return [("monitor-failed", " | ".join(x[:40] for x in o))]
    m = re.match(r"ok created=(\d) schema=(\S+)", col)
    if pres in ("N0", "N"):
        if ex0 != "ok 0":
            problems.append(("exists-wrong", "database_exists answers %s on a directory without library" % ex0))
        if not m or m.group(1) != "1":
            problems.append(("not-created", "no library exists, create_or_load_database answered '%s'" % col[:60]))
        else:
            if crates != "ok []":
                problems.append(("created-nonempty", "the created library is not empty: %s" % crates[:60]))
            if ld != "ok " + req:
                problems.append(("schema-differs", "created with %s, load_database then reports '%s'" % (req, ld[:60])))
            if ex1 != "ok 1":
                problems.append(("exists-wrong", "database_exists answers %s after creation" % ex1))
    elif pres in ("L", "D"):
        have = s1 if pres == "L" else s2
        if ex0 != "ok 1":
            problems.append(("exists-wrong", "database_exists answers %s on a directory holding a %s library" % (ex0, have)))
        if not m:
            problems.append(("load-fails", "a %s library exists, create_or_load_database answered '%s'" % (have, col[:60])))
        else:
            if m.group(1) != "0":
                problems.append(("created-over-existing", "a %s library exists, create_or_load_database reports created" % have))
            if m.group(1) == "0" and m.group(2) != have:
                problems.append(("schema-differs", "existing library is %s, create_or_load_database reports %s" % (have, m.group(2))))
            mark = lm if pres == "L" else dm
            if mark == "ok none" or not mark.startswith("ok "):
                problems.append(("content-lost", "the existing library's crate is not visible through the returned database (%s)" % mark[:40]))
        if sha0 != sha1:
            problems.append(("existing-modified", "create_or_load_database changed the files of the existing library"))
    else:   # both layouts present: libraries exist, so nothing may be created over them
        if m and m.group(1) == "1":
            problems.append(("created-over-existing", "both a 1.x and a 2.x library exist, create_or_load_database reports created"))
        if sha0 != sha1:
            problems.append(("existing-modified", "create_or_load_database changed the files of the existing libraries"))
    return problems


def judge_col_probe(sh, entry, d):
    """create_or_load_database applied twice to a directory shape (harness c16.probe): creates exactly when no
    library exists (the library's own notion: neither m.db nor Database2/m.db is there); an existing library —
    whatever its state — is never written over and never reported as created."""
    out = []
    present = G.library_present(sh)
    created = d["a1"].startswith("created")
    if present and created:
        out.append(("created-over-existing", "%s reports created on a directory with %s" % (entry, G.shape_text(sh))))
    if present and d["before"] != d["after"]:
        out.append(("existing-modified", "%s changed a directory that holds a library (%s): [%s] -> [%s]" % (
            entry, G.shape_text(sh), d["l0"][:160], d["l1"][:200])))
    if not present and not created and not d["a1"].startswith("throw"):
        out.append(("not-created", "no library exists (%s), %s answered %s" % (G.shape_text(sh), entry, d["a1"][:60])))
    if created and not d["a2"].startswith("loaded"):
        out.append(("created-not-loadable", "%s created a library on a directory with %s, the second call answers %s" % (
            entry, G.shape_text(sh), d["a2"][:60])))
    return out


def model_col(pres, s1, s2, req):
    ex = {"N0": "none", "N": "none", "L": s1, "D": s2}.get(pres)
    return None if ex is None else "c10.col %s %s" % (ex, req)


# ------------------------------------------------------------------ the tie
def mk_violation(schema, body, tag, what, text):
    fam = G.family(schema)
    return {"tag": tag, "signature": {"family": fam, "op": what, "effect": tag},
            "header": {"kind": "script", "schema": schema, "what": "%s: %s: %s" % (schema, what, text)},
            "body": list(body) + ["# schema: %s" % schema, "# verdict: %s" % text]}


def shrink_A(schema, hist, k, tag):
    """The failing prefix alone, in one session (stream C shape); falls back to the reopen-at-every-prefix script."""
    sc = script_no_reopen(schema, hist, upto=k)
    o, _ = runner.run_harness_script(sc, watchdog=60)
    j = judge_prefixes(sc, o, schema)
    if j and any(t == tag for t, _ in j[-1]["problems"]):
        return sc
    return script_reopen_each(schema, hist[:k])


def run_corpus(ctx):
    """corpus/C10/*.txt: scripts that once showed a violation on a seeded change of /repo (kept as regression inputs):
    each is replayed first and must satisfy the oracle on the current tree."""
    d = os.path.join(VERIF, "corpus", ID)
    res, viol = {}, []
    if not os.path.isdir(d):
        return res, viol
    for f in sorted(x for x in os.listdir(d) if x.endswith(".txt")):
        txt = open(os.path.join(d, f)).read()
        head, body = txt.split("----\n", 1)
        hdr = dict(l.split(": ", 1) for l in head.split("\n") if ": " in l)
        lines = [l for l in body.split("\n") if l.strip()]
        ok, text = replay(ctx, hdr, lines)
        res[f] = "clean" if ok else "violated"
        if not ok:
            probs = [l for l in text.split("\n") if l.startswith("PROBLEM")]
            viol.append({"tag": "corpus", "signature": {"family": "corpus", "op": f, "effect": "violated"},
                         "header": {"kind": "script", "what": "corpus witness %s: %s" % (f, "; ".join(probs)[:300])},
                         "body": [l for l in lines if not l.startswith("# ")]})
    return res, viol


def tie(ctx):
    rng = random.Random(ctx.seed * 1000003 + 10)
    thorough = ctx.tier == "thorough"
    schemas = G.pick_schemas(ctx.tier, ctx.seed)
    n_hist = 2
    lengths = [70, 40] if thorough else [64, 24]    # history 0: seed + enrich + sweep (~60 calls) + random; history 1: random
    cases = []
    for sch in schemas:
        for hi in range(n_hist):
            h = G.gen_history(rng, sch, lengths[hi % len(lengths)], enrich="early" if hi % 2 == 0 else False, sweep=hi % 2 == 0)
            cases.append({"schema": sch, "hist": list(h.lines), "ops": dict(h.ops_used), "names": list(h.op_names)})
    # stream A (reopen after every call), B (one session), C (each sampled prefix in its own session)
    jobs = []
    for ci, c in enumerate(cases):
        jobs.append(("A", ci, None, script_reopen_each(c["schema"], c["hist"])))
        jobs.append(("B", ci, None, script_no_reopen(c["schema"], c["hist"])))
        n = len(c["hist"])
        ks = list(range(1, n)) if thorough else sorted(rng.sample(range(1, n), min(4, n - 1)))
        for k in ks:
            jobs.append(("C", ci, k, script_no_reopen(c["schema"], c["hist"], upto=k)))
    outs = runner.run_harness([j[3] for j in jobs], watchdog=60)
    violations, divergences = [], []
    corpus_res, corpus_viol = run_corpus(ctx)
    violations += corpus_viol
    hist_ops, prefix_checked, raw_eq, raw_ne, rejected = {}, {"A": 0, "B": 0, "C": 0}, 0, 0, 0
    shapes = {}          # kinds -> set of (family, op word)
    calls = []           # (case, line, result, kinds, autocommit)
    apiA, apiB = {}, {}
    distinct = set()
    covered = set()      # (family, public mutating operation) that ran successfully and was followed by close + load
    for (stream, ci, k, sc), (o, _) in zip(jobs, outs):
        c = cases[ci]
        sch, fam = c["schema"], G.family(c["schema"])
        crash = [(l, x) for l, x in zip(sc, o) if not l.startswith("#") and x.startswith(("ub ", "skipped", "missing", "bad-op"))
                 and l.split(" ")[0] not in MON]
        if crash:
            divergences.append({"input": "%s | %s" % (sch, crash[0][0][:80]), "impl": crash[0][1][:80],
                                "model": "generated histories run without crash"})
            continue
        for r in judge_prefixes(sc, o, sch):
            prefix_checked[stream] += 1
            if r["raw_equal"] is True:
                raw_eq += 1
            elif r["raw_equal"] is False:
                raw_ne += 1
            if r["api"]:
                distinct.add((sch, r["api"]))
                if stream == "A":
                    apiA[(ci, r["prefix"])] = r["api"]
                elif stream in ("B", "C"):
                    apiB.setdefault((ci, r["prefix"]), r["api"])
            for tag, text in r["problems"]:
                if tag == "monitor-failed":
                    divergences.append({"input": "%s | stream %s | prefix %d" % (sch, stream, r["prefix"]), "impl": text, "model": "monitor commands answer"})
                    continue
                body = shrink_A(sch, c["hist"], r["prefix"], tag) if stream == "A" else sc
                last = c["hist"][r["prefix"] - 1].split(" ")[0] if r["prefix"] else "create"
                violations.append(mk_violation(sch, body, tag, "close+load after '%s'" % last,
                                               "after %d calls (stream %s): %s" % (r["prefix"], stream, text)))
        if stream == "A":
            for k_, v in c["ops"].items():
                hist_ops[k_] = hist_ops.get(k_, 0) + v
            for (line, res, kinds, auto), nm in zip(call_records(sc, o), c["names"]):
                calls.append((c, line, res, kinds, auto))
                if res.startswith("ok"):
                    covered.add((fam, nm))
                if res.startswith("throw"):
                    rejected += 1
                if kinds is not None:
                    shapes.setdefault(kinds, set()).add((fam, line.split(" ")[0] + ("(throws)" if res.startswith("throw") else "")))
        if stream == "B":
            # session observations: the same history without releasing the handles in between
            for i, l in enumerate(sc):
                if l.startswith("#session "):
                    p = parse_obs(o[i + 1])
                    if p:
                        apiB[(ci, int(l.split()[1]))] = p["api"]
    uncovered = sorted("%s %s" % (f, o) for f in sorted({G.family(s_) for s_ in schemas}) for o in G.ALL_OPS if (f, o) not in covered)
    if uncovered:
        divergences.append({"input": "coverage of the public mutating operations", "impl": "never followed by close + load after a successful call: " + ", ".join(uncovered[:12]),
                            "model": "every public mutating operation of both generations (Hist.sweep)"})
    # reopening in between is invisible (C10_reopen_invisible): A and B observe the same at every prefix
    invisible = 0
    for key, a in apiA.items():
        if key in apiB:
            if apiB[key] == a:
                invisible += 1
            else:
                c = cases[key[0]]
                divergences.append({"input": "%s | prefix %d" % (c["schema"], key[1]),
                                    "impl": "observation differs between the session that was closed+loaded after every call and the one kept open",
                                    "model": "C10_reopen_invisible: reopening after settled calls changes no later observation"})
    # ---- Lean: every call's observed shape settles
    slist = sorted(shapes)
    mo = runner.run_model_script(["txn.closed " + s for s in slist]) if slist else []
    closed = dict(zip(slist, mo))
    shape_verdicts = {"closed": 0, "open": 0}
    for s in slist:
        if closed[s] == "ok closed":
            shape_verdicts["closed"] += 1
        elif closed[s] == "ok open":
            shape_verdicts["open"] += 1
        else:
            divergences.append({"input": "txn.closed " + s[:100], "impl": "observed statement kinds", "model": closed[s][:100]})
    had_violation = bool(violations)
    for c, line, res, kinds, auto in calls:
        if kinds is None:
            continue
        lean_closed = closed.get(kinds) == "ok closed"
        if lean_closed and auto != "ok 1":
            divergences.append({"input": "%s | %s" % (c["schema"], line[:80]), "impl": "sqlite3_get_autocommit = 0 after the call (%s)" % kinds[:60],
                                "model": "closedShape: call_settles says no transaction is open"})
        if not lean_closed and closed.get(kinds) == "ok open" and not had_violation:
            divergences.append({"input": "%s | %s" % (c["schema"], line[:80]), "impl": "statement kinds %s, autocommit %s" % (kinds[:60], auto),
                                "model": "the call does not settle (scope left open): C10_reopen_observes no longer applies"})
    # ---- load reports the created schema (all 18, both tiers) + create_or_load on the presence combinations
    reload_scripts = [["create %s disk" % s, "closeall", "load", "exists", "closeall", "c16.list"] for s in G.SCHEMAS]
    ro = runner.run_harness(reload_scripts)
    rm = runner.run_model_script(["c10.reload " + s for s in G.SCHEMAS])
    # the layout create_database chooses (m.db + p.db | Database2/m.db) for every version vs the directory model's
    # createsDb2 (Spec/Dir.lean): the files the real creator leaves behind
    lm = runner.run_model_script(["dir.layout " + s for s in G.SCHEMAS])
    layouts = {}
    for s, (o, _), m in zip(G.SCHEMAS, ro, lm):
        got = G.shape_of_listing(o[5][3:]) if o[5].startswith("ok ") else o[5][:40]
        layouts[got] = layouts.get(got, 0) + 1
        if "ok " + got != m:
            divergences.append({"input": "dir.layout %s (files written by create_database)" % s, "impl": got, "model": m})
    for s, sc, (o, _), m in zip(G.SCHEMAS, reload_scripts, ro, rm):
        if o[2] != "ok " + s:
            violations.append(mk_violation(s, sc, "schema-differs", "load_database", "created as %s, load_database answers '%s'" % (s, o[2][:60])))
        if o[3] != "ok 1" and o[2] == "ok " + s:
            violations.append(mk_violation(s, sc, "exists-wrong", "database_exists", "database_exists answers %s on a created library" % o[3]))
        if m != o[2]:
            divergences.append({"input": "c10.reload " + s, "impl": o[2], "model": m})
    # all versions one after the other in ONE process (anything remembered from an earlier load shows here)
    order = list(G.SCHEMAS)
    rng.shuffle(order)
    chain = []
    for s in order:
        chain += ["create %s disk" % s, "closeall", "load"]
    cho, _ = runner.run_harness_script(chain, watchdog=60)
    for i, s in enumerate(order):
        if cho[3 * i + 2] != "ok " + s:
            upto = chain[:3 * i + 3]
            violations.append(mk_violation(s, upto, "schema-differs", "load_database",
                                           "created as %s after %d other libraries were loaded in the same process, load_database answers '%s'"
                                           % (s, i, cho[3 * i + 2][:60])))
            break
    combos = []
    v1s, v2s = G.SCHEMAS_V1, G.SCHEMAS_V2
    for pres in ("N0", "N", "L", "D", "LD"):
        reps = 6 if thorough else 2
        for _ in range(reps):
            s1, s2 = rng.choice(v1s), rng.choice(v2s)
            for req in (rng.choice(v1s), rng.choice(v2s)):
                combos.append((pres, s1, s2, req))
    cscripts = [col_script(*cb, sameref=(i % 2 == 1)) for i, cb in enumerate(combos)]
    co = runner.run_harness(cscripts)
    mlines = [model_col(*cb) for cb in combos]
    cm = runner.run_model_script([l for l in mlines if l]) if any(mlines) else []
    cmi = iter(cm)
    col_hist = {}
    for cb, sc, (o, _), ml in zip(combos, cscripts, co, mlines):
        pres, s1, s2, req = cb
        col_hist[pres] = col_hist.get(pres, 0) + 1
        for tag, text in judge_col(pres, s1, s2, req, o):
            if tag == "monitor-failed":
                divergences.append({"input": " ".join(cb), "impl": text, "model": "monitor commands answer"})
            else:
                violations.append(mk_violation(req, sc, tag, "create_or_load_database(%s)" % pres, "directory %s (1.x %s, 2.x %s), requested %s: %s" % (pres, s1, s2, req, text)))
        if ml:
            m = next(cmi)
            if m != o[3]:
                divergences.append({"input": ml, "impl": o[3][:80], "model": m[:80]})
        distinct.add(("col",) + cb)
    # ---- create_or_load_database on EVERY directory shape (harness c16.probe, fresh copy, applied twice):
    # oracle judge_col_probe (creates exactly when no library exists; an existing one is never written over) and
    # the directory model (Lean, Spec/Dir.lean: C10_create_or_load_iff / _existing / _creates / _creation_fails)
    col_entries = ["engine.create_or_load_database(1.x)", "engine.create_or_load_database(2.x)", "engine.create_or_load_database(3-arg)"]
    pairs = [(v1s[-1 - (ctx.seed % 2)], v2s[-1])] + ([(v1s[0], v2s[0]), (rng.choice(v1s[1:-1]), rng.choice(v2s[1:-1]))] if thorough else [])
    pscripts, pmeta = [], []
    for s1, s2 in pairs:
        for sh in G.DIR_SHAPES:
            pscripts.append(["c16.probe %s %s %s %s" % (sh, en, s1, s2) for en in col_entries])
            pmeta.append((sh, s1, s2))
    po = runner.run_harness(pscripts, watchdog=30)
    pm = runner.run_model_script([l.replace("c16.probe", "dir.run") for sc in pscripts for l in sc])
    pmi = iter(pm)
    col_shapes = {"created": 0, "loaded": 0, "throws": 0, "model_agrees": 0}
    badp = {}
    for (sh, s1, s2), sc, (o, _) in zip(pmeta, pscripts, po):
        for en, line, x in zip(col_entries, sc, o):
            mo_ = next(pmi)
            d = G.parse_probe(x)
            if d is None:
                divergences.append({"input": line, "impl": x[:100], "model": "the probe answers"})
                continue
            cls = G.answer_class(d["a1"], detail=False)
            col_shapes["created" if cls == "created" else "loaded" if cls == "loaded" else "throws"] += 1
            for tag, text in judge_col_probe(sh, en, d):
                badp.setdefault((en, tag), []).append((sh, line, text))
            mm = re.match(r"ok a1=(\S+) a2=(\S+) after=(\S+)$", mo_)
            third = en.endswith("(3-arg)")
            nrm = (lambda a: "loaded" if third and a.startswith("loaded") else a)
            impl = (nrm(G.answer_class(d["a1"])), nrm(G.answer_class(d["a2"])), G.shape_of_listing(d["l1"]))
            model = (nrm(mm.group(1)), nrm(mm.group(2)), mm.group(3)) if mm else None
            if impl != model:
                divergences.append({"input": line.replace("c16.probe", "dir.run"), "impl": "a1=%s a2=%s after=%s" % impl, "model": mo_[:120]})
            else:
                col_shapes["model_agrees"] += 1
            distinct.add(("colshape", sh, en, s1, s2))
    for (en, tag), lst in sorted(badp.items()):
        sh, line, text = lst[0]
        hit = sorted({x[0] for x in lst})
        violations.append({"tag": tag, "signature": {"family": "dir", "op": en, "effect": tag, "shapes": ",".join(hit)},
                           "header": {"kind": "script", "what": "%s (%d directory shapes: %s)" % (text[:300], len(hit), ",".join(hit)[:120])},
                           "body": [line, "# verdict: %s" % text, "# all shapes showing it: %s" % ",".join(hit)]})
    seen, vout = set(), []
    for v in violations:
        k = (v["signature"]["family"], v["signature"]["op"], v["signature"]["effect"])
        if k not in seen:
            seen.add(k)
            vout.append(v)
    evaluations = sum(prefix_checked.values()) + len(G.SCHEMAS) + len(combos) + sum(len(sc) for sc in pscripts)
    return {
        "ok": not divergences and not vout,
        "evaluations": evaluations,
        "distinct_nontrivial": len(distinct),
        "rule": "evaluation = one close + load + comparison of the full observation (a prefix of a history in stream A/B/C), one "
                "create+load of a schema, or one create_or_load experiment; distinct = distinct (schema, observation hash) / "
                "distinct (presence, schemas, request); non-trivial = the full observation was obtained on both sides",
        "samples": [jobs[0][3][:12] + ["..."], cscripts[0]],
        "histograms": {
            "schemas": schemas, "histories": len(cases), "corpus": corpus_res,
            "create_database_layouts(all versions)": layouts,
            "create_or_load_on_directory_shapes": dict(col_shapes, shapes=len(G.DIR_SHAPES), schema_pairs=["%s+%s" % p_ for p_ in pairs]), "history_operations": hist_ops, "calls_that_threw": rejected,
            "mutating_operations_covered(family x op)": len(covered), "mutating_operations_uncovered": uncovered,
            "prefixes_closed_and_loaded": prefix_checked,
            "raw_dump_equal_after_load": raw_eq, "raw_dump_differs_after_load(not an alarm)": raw_ne,
            "reopen_invisible(prefixes where kept-open and reopened sessions agree)": invisible,
            "call_shapes": {"distinct": len(slist), "lean_closedShape": shape_verdicts, "calls": len(calls),
                            "autocommit_after_call": {a: sum(1 for x in calls if x[4] == a) for a in sorted({x[4] for x in calls})}},
            "load_reports_created(schemas)": len(G.SCHEMAS), "load_chain_in_one_process": len(order), "create_or_load_experiments": col_hist,
        },
        "divergences": divergences[:20],
        "violations": vout,
        "self_test": dict(SELF_TEST, round2=SELF_TEST_ROUND2),
    }


def replay(ctx, hdr, body):
    script = [l for l in body if not l.startswith("# ")]
    outs, _ = runner.run_harness_script(script, watchdog=60)
    text, ok = [], True
    for l, o in zip(script, outs):
        text.append("%s\n   -> %s" % (l[:160], o[:300]))
    if script and script[0].startswith("c16.probe "):
        for l, o in zip(script, outs):
            _, sh, en = l.split(" ")[:3]
            d = G.parse_probe(o)
            if d is None:
                ok = False
                text.append("PROBLEM: the probe did not answer: %s" % o[:100])
            else:
                for tag, t in judge_col_probe(sh, en, d):
                    ok = False
                    text.append("PROBLEM %s: %s" % (tag, t))
    elif script and script[0].startswith("c10.dir"):
        _, pres, s1, s2 = script[0].split(" ")
        req = script[3].split(" ")[1]
        for tag, t in judge_col(pres, s1, s2, req, outs):
            ok = False
            text.append("PROBLEM %s: %s" % (tag, t))
    elif len(script) % 3 == 0 and all(script[i] == "closeall" for i in range(1, len(script), 3)):
        for i in range(0, len(script), 3):
            s = script[i].split(" ")[1]
            if outs[i + 2] != "ok " + s:
                ok = False
                text.append("PROBLEM: created %s, load answers %s" % (s, outs[i + 2]))
    elif len(script) == 4 and script[1] == "closeall":
        s = script[0].split(" ")[1]
        if outs[2] != "ok " + s or outs[3] != "ok 1":
            ok = False
            text.append("PROBLEM: created %s, load answers %s, exists %s" % (s, outs[2], outs[3]))
    else:
        sch = script[0].split(" ")[1]
        for r in judge_prefixes(script, outs, sch):
            for tag, t in r["problems"]:
                ok = False
                text.append("PROBLEM after %d calls: %s: %s" % (r["prefix"], tag, t))
    text.append("recorded: %s" % hdr.get("what", ""))
    text.append("replay verdict: %s" % ("property holds on this input" if ok else "property violated on this input"))
    return ok, "\n".join(text)


# ---- additional parts (whole-library composite models); missing modules are skipped
from props import _extend
_extend.extend(globals(), [
    "C10_lib1",
    "C10_lib2",
])


# ---- per-field getters around `reopen` (round 5, seeded C10-4: a cache of decoded track data in the shared storage
# object kept the values of a REJECTED update visible to sample_rate() / sample_count() / average_loudness() until
# the library was closed; snapshot() bypassed the cache, so the snapshot-based observation saw nothing)
_tie_with_parts = tie
_replay_with_parts = replay


def tie(ctx):
    del runner.GETTER_DIFFS[:]
    out = _tie_with_parts(ctx)
    out.setdefault("violations", [])
    seen = set()
    for script, text in list(runner.GETTER_DIFFS):
        key = text.split(" ", 2)[:2]
        if tuple(key) in seen:
            continue
        seen.add(tuple(key))
        out["violations"].append({
            "tag": "reopen-getters", "signature": None,
            "header": {"kind": "script", "oracle": "reopen.getters",
                       "what": "a per-field getter answers differently after all handles are released and the library "
                               "is loaded again: " + text[:300]},
            "body": script})
    out.setdefault("histograms", {})["reopen_getter_differences"] = len(runner.GETTER_DIFFS)
    return out


def replay(ctx, hdr, body):
    if hdr.get("oracle") == "reopen.getters":
        import re
        script = [l for l in body if not re.match(r"^[A-Za-z_()0-9 ]{1,20}: ", l)]
        del runner.GETTER_DIFFS[:]
        outs, _ = runner.run_harness_script(script, watchdog=60)
        diffs = list(runner.GETTER_DIFFS)
        txt = "\n".join(["%s\n   impl: %s" % (l[:200], o[:200]) for l, o in zip(script[-6:], outs[-6:])] +
                        ["getter differences around reopen: %d" % len(diffs)] + ["  " + t[:300] for _, t in diffs] +
                        ["recorded: %s" % hdr.get("what", "")])
        return (not diffs), txt
    return _replay_with_parts(ctx, hdr, body)
