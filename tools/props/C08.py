"""C08 — Crate contents are exactly the tracks added and not removed.  Assembled from a schema-1.x part and a schema-2.x part."""
from props import _combine

_combine.install(globals(), "C08", [
    "C08_v1",
    "C08_v2",
    "C08_lib1",
    "C08_lib2",
], dict(
    text="",
    note="see design/C08.md",
    technique="Lean 4 refinement / invariant theorems over executable models of both schema generations + "
              "differential replay of operation histories on the real library with raw-table observation",
    ref="6/C08"))
