"""C06 — Getters return what setters stored and setters touch only their field.  Assembled from a schema-1.x part and a schema-2.x part."""
from props import _combine

_combine.install(globals(), "C06", ["C06_v1", "C06_v2"], dict(
    text="",
    note="see design/C06.md",
    technique="Lean 4 round-trip / lens theorems over executable models of both schema generations + "
              "differential replay on the real library with raw-row observation",
    ref="6/C06"))
