"""C09 — Ordered listings keep every sibling and entry exactly once, in order (schema 2.x)."""
import random
from common import *
import runner
from props.parts import cratesv2 as cv

ID = "C09"
LEAN_MODULES = ["Properties.C09", "Properties.C09Schema"]
THEOREMS = ["EngineModel.Properties.C09." + t for t in [
    "C09_walk_lists_every_item_once_in_order",
    "C09_listing_covers_exactly_the_rows",
    "C09_insert_simulates",
    "C09_delete_playlist_simulates",
    "C09_move_simulates",
    "C09_add_back_simulates",
    "C09_remove_entity_simulates",
    "C09_clear_simulates",
    "C09_step_simulates",
    "C09_history_represented_partial",
    "C09_history_wfChains_partial",
    "C09_listings_equal_spec",
    "C09_history_listings_equal_spec_partial",
    "C09_step_changes_as_prescribed",
    "C09_history_listings_change_as_prescribed_partial",
    "C09_new_or_moved_crate_is_last",
    "C09_add_back_identity_includes_database",
    "C09_history_counterexample",
    "C09_crate_ddl_same_in_all_2x_schemas",
    "C09_crate_ddl_nonempty",
]]
ASSUMPTIONS = [
    "SqliteSemantics: the hand translation of the SQL statements and of the Playlist / PlaylistEntity triggers into list "
    "operations (lean/EngineModel/Db/Chain.lean), with recursive_triggers = OFF and foreign_keys = OFF; validated by "
    "raw-column equality after every step of every generated history on the 2.x schema versions",
    "the UNIQUE (parentListId, nextListId) constraint is not modelled (it never fires on chain-well-formed states; a firing "
    "would show as a sqlite_error divergence in the tie)",
    "table-level playlist_entity_table histories use positive track ids (the schema's delete trigger is declared WHEN OLD.trackId > 0)",
    "database uuids are modelled as integer tags (0 = the library's own uuid, k > 0 = a foreign database); the tie maps the "
    "tags to fixed synthetic uuid strings, so only equality of uuids is modelled (which is all the code uses)",
]
MANIFEST = dict(
    text="Lean theorems over a generic model of keyed singly-linked chains stored in a SQL table (INSERT under the "
         "before/after triggers, DELETE under the delete trigger, the four-statement splice of playlist_table::update, "
         "add_back, clear, and the backwards walk of sort_ids / get_for_list): a representation relation R between "
         "abstract duplicate-free lists and the table is preserved by every operation, and on every table satisfying R "
         "the walk returns each item of a key exactly once, in order — instantiated for Playlist (key = parent) and "
         "PlaylistEntity (key = playlist, payload = track id and database uuid) and lifted to all histories of the "
         "modelled 2.x API: a Spec run (sibling lists, entry lists with payload; computed from the Spec state, the call "
         "and the Model's answer only) is represented by the tables after every prefix, every listing equals the Spec "
         "list, and every listing changes across an operation exactly as the property prescribes (insert-after "
         "position, new / moved crate last, removal keeps the rest in order). The schema-free model is justified by a "
         "kernel-checked fact over data regenerated on every run: the crate tables, triggers, views and unique "
         "indexes have the same canonical DDL in all seven 2.x versions. The model is tied to the real library on "
         "generated histories (first / middle / last positions forced; entries of three databases with colliding "
         "track ids) with the ordered listings and the raw nextListId / nextEntityId columns compared after every "
         "step, and a Spec oracle judges the real library's own listings.",
    note="Trusted: Lean kernel; the hand translation of SQL statements / triggers to list operations (SqliteSemantics, "
         "validated by the tie); SQLite itself; tools/tr_v2ddl.py incl. the compiled canonicaliser. Same-parent "
         "re-ordering through playlist_table::update is modelled but the simulation theorem covers moves to a "
         "different parent (all the crate API performs). Known finding: table-level entries with trackId <= 0.",
    technique="Lean 4 representation-relation / simulation proof over an executable model + differential replay with "
              "raw-table observation + Spec oracle on the implementation's answers + translator for the schema facts",
    ref="6/C09")
TRUSTED_EXTRA = ["tools/tr_v2ddl.py (catalog of every created 2.x version -> Lean data; DDL canonicalised by the compiled Spec/SqlCanon.canon)"]
TRANSLATORS = {"v2ddl": cv.translate_ddl}
STATELESS = False


def tie(ctx):
    rng = random.Random(ctx.seed * 7919 + 9)
    schemas = cv.schemas_for(ctx)
    n_hist = 24 if ctx.tier == "quick" else 160
    scripts = []
    for s in schemas:
        for i in range(n_hist):
            scripts.append(cv.wrap(s, cv.gen_ordered_history(rng, rng.choice([25, 40, 60]))))
        for i in range(n_hist // 3):
            scripts.append(cv.wrap(s, cv.gen_table_history(rng, rng.choice([30, 60])), obs=False, raw="v2.raw chains"))
        for i in range(n_hist // 6):
            scripts.append(cv.wrap(s, cv.gen_forest_history(rng, 40)))
    results = cv.run_all(scripts)
    # recorded finding: table-level entries with non-positive track ids, for which the schema's own delete
    # trigger does not fire (Properties/C09.lean: C09_counterexample_nonpositive_track); the oracle runs on
    # these histories too, its objections carry the signature of the finding.
    ood = [cv.wrap(schemas[0], cv.gen_table_history(rng, 40, bad_track_ids=True), obs=False, raw="v2.raw chains")
           for _ in range(6)]
    ood_res = cv.run_all(ood)
    return cv.finish(ctx, "C09", ID, results + ood_res,
                     "seeded histories on %s: sibling lists of 3-6 crates with creations after the first / middle / last sibling, "
                     "moves and removals of first / middle / last siblings, renames, crate contents added / removed / cleared; "
                     "table-level add_back / remove / clear / get_for_list histories (duplicates, missing ids); random forest "
                     "histories; after EVERY operation the ordered listings (root_crates, children, tracks) and the raw "
                     "Playlist / PlaylistEntity columns of the real library are compared with the Model, and the Spec oracle "
                     "checks each listing: duplicate-free and changed exactly as the property prescribes" % ", ".join(schemas),
                     [" ; ".join(scripts[0][1:12])[:300]],
                     extra_hist={"schemas": schemas, "scripts": len(scripts), "out_of_domain_scripts": len(ood)})


def replay(ctx, hdr, body):
    r = cv.replay(ctx, hdr, body)
    return r if r is not None else (False, "not a cratesv2 script")
