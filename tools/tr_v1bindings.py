#!/usr/bin/env python3
"""Translator for the schema-1.x parts of C01 / C06: the storage bindings of the legacy track code.

Reads (clang's typed AST, `clang++-14 -Xclang -ast-dump=json`, same flags as tools/tr_blobs.py)
        src/djinterop/engine/metadata_types.hpp        the two enums with their numeric values
        src/djinterop/engine/v1/engine_storage.{hpp,cpp}   every `db << "SQL" << operand … [>> extractor]`
        src/djinterop/engine/v1/engine_track_impl.cpp  getters / setters / snapshot() / update / create_track
writes  lean/EngineModel/Gen/BindingsV1.lean  (plain data over the types of TracksV1/BindTypes.lean)

  * `strEnum`, `intEnum`                 enumerator -> numeric value (header);
  * `trackRowMembers`, `perfRowMembers`  struct members in declaration order;
  * `constants`                          file-scope constants of engine_track_impl.cpp with their integer value;
  * per statement of engine_storage.cpp and per schema (the `if (schema >= …)` chains are evaluated for
    each of the eleven legacy versions): SQL column list paired, `?` by `?`, with the operand bound at that
    position (function parameter by INDEX and name, `x.encode()`, enumerator under static_cast, literal,
    value-less optional local); for a SELECT: column -> lambda parameter -> position in the aggregate
    initialiser -> struct member;
  * per member function of engine_track_impl: the storage accesses in source order (enumerator /
    column string of every get_/set_ call, private helpers inlined);
  * `snapshot()`: the two `switch (row.type)` tables (enumerator -> snapshot member) and, per snapshot
    member assigned outside them, the row-struct members read;
  * `update` / `create_track`: the argument lists of the five storage calls as sources (snapshot member,
    local (+ member), file-scope constant, id), and per local the helper called and the snapshot members
    its initialiser reads (transitively).

Names of parameters / lambda parameters are carried for readability only: every pairing is by position
or by declaration identity, so renaming them or reflowing an SQL literal leaves the tables unchanged
up to those informational names (the Lean alignment predicates do not look at them).

Fails CLOSED: any shape outside the recognised fragment raises Unsupported, the previous
Gen/BindingsV1.lean stays and `translator: unsupported-node` is printed; the correspondence tie decides.
"""
import json, os, re, subprocess, sys
from concurrent.futures import ThreadPoolExecutor
sys.path.insert(0, os.path.dirname(os.path.abspath(__file__)))
from common import *

TARGET = os.path.join(LEAN, "EngineModel", "Gen", "BindingsV1.lean")
V1 = "src/djinterop/engine/v1/"
DEFINES = ["-DNDEBUG", "-D_GLIBCXX_ASSERTIONS", "-DDJINTEROP_SOURCE", "-DDjInterop_EXPORTS", "-DDJINTEROP_VERIF"]
SCHEMAS = ["schema_1_6_0", "schema_1_7_1", "schema_1_9_1", "schema_1_11_1", "schema_1_13_0", "schema_1_13_1",
           "schema_1_13_2", "schema_1_15_0", "schema_1_17_0", "schema_1_18_0_desktop", "schema_1_18_0_os"]
ROW_STRUCTS = ("track_row", "performance_data_row", "track_data", "beat_data", "quick_cues_data", "loops_data",
               "high_res_waveform_data", "overview_waveform_data", "meta_data_row", "meta_data_integer_row")


class Unsupported(Exception):
    pass


# ---------------------------------------------------------------- clang

def clang_ast(src, filt):
    cmd = (["clang++-14", "-std=gnu++17", "-fsyntax-only"] + DEFINES +
           ["-I" + GENINC, "-I" + REPO + "/include", "-I" + REPO + "/src",
            "-I" + REPO + "/ext/sqlite_modern_cpp", "-I" + REPO + "/ext/date",
            "-Xclang", "-ast-dump=json", "-Xclang", "-ast-dump-filter=" + filt, src])
    r = subprocess.run(cmd, stdout=subprocess.PIPE, stderr=subprocess.PIPE, text=True)
    txt, dec, i, docs = r.stdout, json.JSONDecoder(), 0, []
    n = len(txt)
    while i < n:
        while i < n and txt[i].isspace():
            i += 1
        if i >= n:
            break
        o, i = dec.raw_decode(txt, i)
        docs.append(o)
    if not docs:
        raise Unsupported("clang produced no declarations for %s (%s)" % (
            filt, (r.stderr.strip().split("\n") or ["?"])[0][:160]))
    flat = []

    def add(d):     # a namespace that matches the filter is dumped as one unit
        if d.get("kind") == "NamespaceDecl":
            for c in d.get("inner") or []:
                if isinstance(c, dict) and c.get("kind"):
                    add(c)
        else:
            flat.append(d)
    for d in docs:
        add(d)
    return flat


WRAPPERS = ("ParenExpr", "ConstantExpr", "ExprWithCleanups", "MaterializeTemporaryExpr", "CXXBindTemporaryExpr",
            "ImplicitCastExpr")


def kids(n):
    return [c for c in (n.get("inner") or []) if isinstance(c, dict) and c.get("kind")]


def strip(n):
    """Look through nodes that only move / convert a value: wrappers, implicit casts, single-argument
    constructions (copy / move / converting constructors, `std::string{x}`)."""
    while True:
        k = n.get("kind")
        ks = kids(n)
        if k in WRAPPERS and len(ks) == 1:
            n = ks[0]
        elif k in ("CXXConstructExpr", "CXXFunctionalCastExpr", "CXXTemporaryObjectExpr") and len(ks) == 1:
            n = ks[0]
        else:
            return n


def walk(n):
    yield n
    for c in kids(n):
        yield from walk(c)


def qtype(n):
    t = n.get("type", {}) if isinstance(n, dict) else {}
    return t.get("qualType", "")


def ref(n):
    return n.get("referencedDecl") or {}


def callee(call):
    """Name of what a CallExpr / CXXMemberCallExpr / CXXOperatorCallExpr calls."""
    ks = kids(call)
    if not ks:
        return None
    c = strip(ks[0])
    if c.get("kind") == "DeclRefExpr":
        return ref(c).get("name")
    if c.get("kind") == "MemberExpr":
        return c.get("name")
    return None


def string_value(n):
    n = strip(n)
    if n.get("kind") != "StringLiteral":
        return None
    try:
        return json.loads(n["value"])
    except (ValueError, KeyError):
        raise Unsupported("string literal with an escape outside JSON: %r" % n.get("value"))


def enum_const(n):
    """`static_cast<int64_t>(E::x)` or `E::x` -> (enum type, enumerator)"""
    n = strip(n)
    if n.get("kind") in ("CXXStaticCastExpr", "CStyleCastExpr") and len(kids(n)) == 1:
        n = strip(kids(n)[0])
    if n.get("kind") == "DeclRefExpr" and ref(n).get("kind") == "EnumConstantDecl":
        return (ref(n).get("type", {}).get("qualType", ""), ref(n)["name"])
    return None


def is_op(n, sym):
    return n.get("kind") == "CXXOperatorCallExpr" and callee(n) == "operator" + sym


def body_of(decl):
    for c in kids(decl):
        if c.get("kind") == "CompoundStmt":
            return c
    return None


def params_of(decl):
    return [c for c in kids(decl) if c.get("kind") == "ParmVarDecl"]


# ---------------------------------------------------------------- SQL text

def sql_ws(s):
    return " ".join(s.split())


def split_commas(s):
    out, depth, cur = [], 0, ""
    for ch in s:
        if ch == "(":
            depth += 1
        elif ch == ")":
            depth -= 1
        if ch == "," and depth == 0:
            out.append(cur.strip())
            cur = ""
        else:
            cur += ch
    if cur.strip():
        out.append(cur.strip())
    return out


def col_name(c):
    c = c.strip()
    m = re.fullmatch(r"\[?(\w+)\]?", c)
    if not m:
        raise Unsupported("column name: " + c[:40])
    return m.group(1)


def parse_where(w):
    """`a = ? AND b = ? AND text IS NOT NULL` -> [(column, '?' | sql text)]"""
    out = []
    for part in re.split(r"\s+AND\s+", w.strip(), flags=re.I):
        m = re.fullmatch(r"(\[?\w+\]?)\s*=\s*(.+)", part.strip())
        if m:
            out.append((col_name(m.group(1)), m.group(2).strip()))
            continue
        m = re.fullmatch(r"(\[?\w+\]?)\s+IS\s+NOT\s+NULL", part.strip(), flags=re.I)
        if m:
            out.append((col_name(m.group(1)), "IS NOT NULL"))
            continue
        raise Unsupported("WHERE term: " + part[:60])
    return out


def parse_sql(sql):
    """-> dict(kind, table, rows=[[(column, item)]], where=[(column, item)], cols=[...]); item '?' = placeholder."""
    s = sql_ws(sql)
    m = re.fullmatch(r"(INSERT OR REPLACE|INSERT|REPLACE) INTO (\w+) ?\(([^)]*)\) ?VALUES ?(.*)", s, flags=re.I)
    if m:
        cols = [col_name(c) for c in split_commas(m.group(3))]
        rows = []
        for tup in split_commas(m.group(4)):
            mm = re.fullmatch(r"\((.*)\)", tup.strip())
            if not mm:
                raise Unsupported("VALUES tuple: " + tup[:40])
            items = split_commas(mm.group(1))
            if len(items) != len(cols):
                raise Unsupported("VALUES tuple width differs from the column list")
            rows.append(list(zip(cols, items)))
        kind = "insert" if m.group(1).upper() == "INSERT" else "replace"
        return dict(kind=kind, table=m.group(2), rows=rows, where=[], cols=cols)
    m = re.fullmatch(r"UPDATE (\w+) SET (.*?)(?: WHERE (.*))?", s, flags=re.I)
    if m:
        row = []
        for a in split_commas(m.group(2)):
            mm = re.fullmatch(r"(\[?\w+\]?)\s*=\s*(.+)", a)
            if not mm:
                raise Unsupported("SET term: " + a[:40])
            row.append((col_name(mm.group(1)), mm.group(2).strip()))
        return dict(kind="update", table=m.group(1), rows=[row], where=parse_where(m.group(3)) if m.group(3) else [],
                    cols=[c for c, _ in row])
    m = re.fullmatch(r"SELECT (.*?) FROM (\w+)(?: WHERE (.*))?", s, flags=re.I)
    if m:
        cols = []
        for c in split_commas(m.group(1)):
            cols.append("COUNT(*)" if re.fullmatch(r"COUNT\(\*\)", c, flags=re.I) else col_name(c))
        return dict(kind="select", table=m.group(2), rows=[], where=parse_where(m.group(3)) if m.group(3) else [],
                    cols=cols)
    m = re.fullmatch(r"DELETE FROM (\w+)(?: WHERE (.*))?", s, flags=re.I)
    if m:
        return dict(kind="delete", table=m.group(1), rows=[], where=parse_where(m.group(2)) if m.group(2) else [],
                    cols=[])
    raise Unsupported("SQL shape: " + s[:80])


# ---------------------------------------------------------------- Lean output helpers

def lstr(s):
    if not all(32 <= ord(ch) < 127 for ch in s):
        raise Unsupported("non-ASCII text in a table: %r" % s[:40])
    return json.dumps(s)


def llist(items, indent="  ", per_line=1):
    if not items:
        return "[]"
    if per_line == 0:
        return "[" + ", ".join(items) + "]"
    return "[\n" + ",\n".join(indent + "  " + it for it in items) + "]"


def lopt(x, f=lambda v: v):
    return "none" if x is None else "(some %s)" % f(x)


def lint(v):
    return str(v) if v >= 0 else "(%d)" % v


# ---------------------------------------------------------------- engine_storage.cpp

class Fn:
    """One function definition: parameters by declaration id."""
    def __init__(self, decl):
        self.decl = decl
        self.name = decl.get("name")
        self.params = params_of(decl)
        self.pidx = {p["id"]: i for i, p in enumerate(self.params)}
        self.body = body_of(decl)
        self.locals = {}
        if self.body is not None:
            for n in walk(self.body):
                if n.get("kind") == "VarDecl":
                    self.locals[n["id"]] = n


def schema_threshold(cond):
    """`schema >= engine_schema::X` -> X (None when the condition is something else)."""
    c = strip(cond)
    if c.get("kind") == "BinaryOperator" and c.get("opcode") == ">=":
        l, r = [strip(x) for x in kids(c)]
        e = enum_const(r)
        if l.get("kind") == "MemberExpr" and l.get("name") == "schema" and e and e[0].endswith("engine_schema"):
            return e[1]
    return None


def is_db_stmt(n):
    """Top of a `db << … [>> …]` expression."""
    n = strip(n)
    if not (is_op(n, "<<") or is_op(n, ">>")):
        return False
    m = n
    while is_op(m, "<<") or is_op(m, ">>"):
        m = strip(kids(m)[1])
    return m.get("kind") == "MemberExpr" and m.get("name") == "db" and "sqlite::database" in qtype(m)


def flatten(n):
    n = strip(n)
    ext = None
    if is_op(n, ">>"):
        _, lhs, ext = kids(n)
        n = strip(lhs)
    ops = []
    while is_op(n, "<<"):
        _, lhs, rhs = kids(n)
        ops.append(rhs)
        n = strip(lhs)
    if is_op(n, ">>"):
        raise Unsupported("more than one >> in a statement")
    ops.reverse()
    if not ops:
        raise Unsupported("statement without SQL text")
    return ops[0], ops[1:], ext


def collect_db_stmts(n, guards, out):
    k = n.get("kind")
    if k == "IfStmt":
        ks = kids(n)
        if len(ks) not in (2, 3):
            raise Unsupported("if statement with init / condition variable")
        thr = schema_threshold(ks[0])
        if thr is not None:
            if thr not in SCHEMAS:
                raise Unsupported("schema threshold " + thr)
            collect_db_stmts(ks[1], guards + [(thr, True)], out)
            if len(ks) == 3:
                collect_db_stmts(ks[2], guards + [(thr, False)], out)
        else:
            for c in ks[1:]:
                collect_db_stmts(c, guards + [("?", True)], out)
        return
    if k == "LambdaExpr":
        return
    if is_db_stmt(n):
        out.append((guards, n))
        return
    for c in kids(n):
        collect_db_stmts(c, guards, out)


def applies(guards, schema):
    """None when a non-schema condition guards the statement."""
    si = SCHEMAS.index(schema)
    for thr, pol in guards:
        if thr == "?":
            continue
        if (si >= SCHEMAS.index(thr)) != pol:
            return False
    return True


def operand(fn, n):
    """One bound operand -> Lean `Opnd` term."""
    e = enum_const(n)
    if e:
        if e[0].endswith("metadata_str_type"):
            return ".enumStr %s" % lstr(e[1])
        if e[0].endswith("metadata_int_type"):
            return ".enumInt %s" % lstr(e[1])
        raise Unsupported("enumerator of %s bound to a statement" % e[0])
    m = strip(n)
    k = m.get("kind")
    if k == "CXXStaticCastExpr" and len(kids(m)) == 1:      # static_cast<int64_t>(type)
        m = strip(kids(m)[0])
        k = m.get("kind")
    if k == "DeclRefExpr":
        d = ref(m)
        if d.get("id") in fn.pidx:
            return ".param %d %s" % (fn.pidx[d["id"]], lstr(d["name"]))
        if d.get("id") in fn.locals:
            v = fn.locals[d["id"]]
            init = [strip(c) for c in kids(v)]
            if "optional" in qtype(v) and (not init or (init[0].get("kind") == "CXXConstructExpr" and not kids(init[0]))):
                return ".localNull %s" % lstr(d["name"])
            raise Unsupported("local %s bound to a statement is not a value-less optional" % d.get("name"))
        raise Unsupported("bound variable %s is neither parameter nor local" % d.get("name"))
    if k == "CXXMemberCallExpr" and callee(m) == "encode" and len(kids(m)) == 1:
        obj = strip(kids(strip(kids(m)[0]))[0])
        if obj.get("kind") == "DeclRefExpr" and ref(obj).get("id") in fn.pidx:
            return ".encode %d %s" % (fn.pidx[ref(obj)["id"]], lstr(ref(obj)["name"]))
        if obj.get("kind") in ("CXXTemporaryObjectExpr", "CXXConstructExpr", "InitListExpr", "CXXFunctionalCastExpr"):
            return ".encodeDefault %s" % lstr(re.sub(r"^.*::", "", qtype(obj)))
        raise Unsupported("encode() of something that is not a parameter")
    if k == "StringLiteral":
        return ".text %s" % lstr(string_value(m))
    if k == "IntegerLiteral":
        return ".int %s" % lint(int(m["value"]))
    if k == "FloatingLiteral":
        return ".real %s" % lstr(str(m["value"]))
    if k == "CXXNullPtrLiteralExpr":
        return ".null"
    raise Unsupported("bound operand of kind %s" % k)


def statement(fn, node):
    """-> dict(sql=parsed, ops=[Opnd terms], ext=node)"""
    sqln, ops, ext = flatten(node)
    sql = string_value(sqln)
    if sql is None:
        raise Unsupported("%s: SQL text is not a string literal" % fn.name)
    p = parse_sql(sql)
    rendered = [operand(fn, o) for o in ops]
    slots = [(r, i) for r, row in enumerate(p["rows"]) for i, (c, it) in enumerate(row) if it == "?"]
    wslots = [i for i, (c, it) in enumerate(p["where"]) if it == "?"]
    if len(rendered) != len(slots) + len(wslots):
        raise Unsupported("%s: %d operands for %d placeholders" % (fn.name, len(rendered), len(slots) + len(wslots)))
    rows = [[(c, (".sql %s" % lstr(it)) if it != "?" else None) for c, it in row] for row in p["rows"]]
    for (r, i), o in zip(slots, rendered):
        rows[r][i] = (rows[r][i][0], o)
    where = [(c, (".sql %s" % lstr(it)) if it != "?" else None) for c, it in p["where"]]
    for i, o in zip(wslots, rendered[len(slots):]):
        where[i] = (where[i][0], o)
    return dict(kind=p["kind"], table=p["table"], cols=p["cols"], rows=rows, where=where, ext=ext)


def per_schema(fn, want):
    """Statements of `fn` matching `want(stmt)` -> {schema: stmt}; exactly one per schema."""
    found = []
    collect_db_stmts(fn.body, [], found)
    sts = []
    for g, node in found:
        st = statement(fn, node)
        if want(st):
            if any(t == "?" for t, _ in g):
                raise Unsupported("%s: the statement is under a condition that is not a schema test" % fn.name)
            sts.append((g, st))
    out = {}
    for s in SCHEMAS:
        hit = [st for g, st in sts if applies(g, s)]
        if len(hit) != 1:
            raise Unsupported("%s: %d statements apply to %s" % (fn.name, len(hit), s))
        out[s] = hit[0]
    return out


def pairs(row):
    return llist(["(%s, %s)" % (lstr(c), o) for c, o in row], "    ")


def emit_per_schema(name, doc, ty, tab, render):
    lines = ["/-- %s -/" % doc, "def %s : List (String × %s) := [" % (name, ty)]
    ents = []
    for s in SCHEMAS:
        ents.append("  (%s, %s)" % (lstr(s), render(tab[s])))
    lines.append(",\n".join(ents) + "]")
    return "\n".join(lines) + "\n"


def select_binding(fn, st, members, struct):
    """SELECT: column k -> k-th lambda parameter -> where it is used in the aggregate initialiser of `struct`
    -> that member.  -> ([(column, member, conv)], [members initialised without a column])"""
    ext = st["ext"]
    if ext is None:
        raise Unsupported("%s: SELECT without extractor" % fn.name)
    lam = strip(ext)
    if lam.get("kind") != "LambdaExpr":
        raise Unsupported("%s: extractor is not a lambda" % fn.name)
    call = None
    for c in kids(lam):
        if c.get("kind") == "CXXRecordDecl":
            for m in kids(c):
                if m.get("kind") == "CXXMethodDecl" and m.get("name") == "operator()":
                    call = m
    if call is None:
        raise Unsupported("%s: lambda without call operator" % fn.name)
    lps = params_of(call)
    if len(lps) != len(st["cols"]):
        raise Unsupported("%s: %d lambda parameters for %d columns" % (fn.name, len(lps), len(st["cols"])))
    lidx = {p["id"]: i for i, p in enumerate(lps)}
    inits = [n for n in walk(body_of(call)) if n.get("kind") == "InitListExpr" and qtype(n).endswith(struct)]
    if len(inits) != 1:
        raise Unsupported("%s: %d aggregate initialisers of %s in the callback" % (fn.name, len(inits), struct))
    elems = kids(inits[0])
    if len(elems) > len(members):
        raise Unsupported("%s: more initialisers than members" % fn.name)
    used, bind, defaults = {}, {}, []
    for pos, e in enumerate(elems):
        m = strip(e)
        conv = "direct"
        if m.get("kind") == "CallExpr" and callee(m) in ("move", "decode") and len(kids(m)) == 2:
            if callee(m) == "decode":
                conv = "decode"
            m = strip(kids(m)[1])
        if m.get("kind") == "DeclRefExpr" and ref(m).get("id") in lidx:
            k = lidx[ref(m)["id"]]
            if k in used:
                raise Unsupported("%s: lambda parameter used twice" % fn.name)
            used[k] = pos
            bind[k] = (members[pos], conv)
        elif m.get("kind") in ("ImplicitValueInitExpr", "CXXDefaultInitExpr") or \
                (m.get("kind") == "DeclRefExpr" and ref(m).get("name") == "nullopt") or \
                (m.get("kind") == "CXXConstructExpr" and not kids(m)):
            defaults.append(members[pos])
        else:
            raise Unsupported("%s: initialiser %d of %s is %s" % (fn.name, pos, struct, m.get("kind")))
    defaults += members[len(elems):]
    if sorted(used) != list(range(len(lps))):
        raise Unsupported("%s: a lambda parameter does not reach the row" % fn.name)
    return [(st["cols"][k], bind[k][0], bind[k][1]) for k in range(len(lps))], defaults


def storage_tables(docs, out):
    fns, records = {}, {}
    for d in docs:
        if d.get("kind") == "CXXMethodDecl" and body_of(d) is not None:
            fns.setdefault(d["name"], []).append(Fn(d))
        if d.get("kind") == "CXXRecordDecl" and d.get("name") in ROW_STRUCTS and d.get("completeDefinition"):
            records[d["name"]] = [c["name"] for c in kids(d) if c.get("kind") == "FieldDecl"]
    for r in ("track_row", "performance_data_row"):
        if r not in records:
            raise Unsupported("struct %s not found" % r)

    def the(name, nparams=None, pred=None):
        c = [f for f in fns.get(name, []) if (nparams is None or len(f.params) == nparams) and (pred is None or pred(f))]
        if len(c) != 1:
            raise Unsupported("engine_storage::%s: %d definitions" % (name, len(c)))
        return c[0]

    out.append("/-- members of `track_row` / `performance_data_row`, declaration order -/\n"
               "def trackRowMembers : List String := %s\n" % llist([lstr(m) for m in records["track_row"]], per_line=0))
    out.append("def perfRowMembers : List String := %s\n" % llist([lstr(m) for m in records["performance_data_row"]], per_line=0))

    def params_doc(fn):
        return llist([lstr(p.get("name", "")) for p in fn.params], per_line=0)

    def one_row(st, fn, table, kind):
        if st["table"] != table or st["kind"] not in kind or len(st["rows"]) != 1:
            raise Unsupported("%s: statement is not a single-row %s of %s" % (fn.name, "/".join(kind), table))
        return st

    # Track INSERT / UPDATE / SELECT
    f = the("create_track")
    tab = per_schema(f, lambda st: st["kind"] in ("insert", "replace"))
    for s in SCHEMAS:
        one_row(tab[s], f, "Track", ("insert",))
    out.append("def createTrackParams : List String := %s\n" % params_doc(f))
    out.append(emit_per_schema("trackInsert", "engine_storage::create_track: `INSERT INTO Track (…) VALUES (?, …)`",
                               "List (String × Opnd)", tab, lambda st: pairs(st["rows"][0])))
    f = the("update_track")
    tab = per_schema(f, lambda st: st["kind"] == "update")
    for s in SCHEMAS:
        one_row(tab[s], f, "Track", ("update",))
    out.append("def updateTrackParams : List String := %s\n" % params_doc(f))
    out.append(emit_per_schema("trackUpdate", "engine_storage::update_track: `UPDATE Track SET col = ?, … WHERE id = ?` (SET part)",
                               "List (String × Opnd)", tab, lambda st: pairs(st["rows"][0])))
    out.append(emit_per_schema("trackUpdateWhere", "engine_storage::update_track: the WHERE part",
                               "List (String × Opnd)", tab, lambda st: pairs(st["where"])))
    f = the("get_track")
    tab = per_schema(f, lambda st: st["kind"] == "select")
    sel = {}
    for s in SCHEMAS:
        if tab[s]["table"] != "Track":
            raise Unsupported("get_track reads " + tab[s]["table"])
        sel[s] = (select_binding(f, tab[s], records["track_row"], "track_row"), tab[s]["where"])
    out.append(emit_per_schema("trackSelect", "engine_storage::get_track: column -> lambda parameter -> aggregate initialiser of "
                               "`track_row` -> member (third component: conversion)", "List (String × String × String)", sel,
                               lambda v: llist(["(%s, %s, %s)" % (lstr(c), lstr(m), lstr(cv)) for c, m, cv in v[0][0]], "    ")))
    out.append(emit_per_schema("trackSelectDefaults", "engine_storage::get_track: members initialised without a column",
                               "List String", sel, lambda v: llist([lstr(m) for m in v[0][1]], per_line=0)))
    out.append(emit_per_schema("trackSelectWhere", "engine_storage::get_track: WHERE", "List (String × Opnd)", sel,
                               lambda v: pairs(v[1])))

    # MetaData / MetaDataInteger bulk statements
    for name, lean, table in (("set_meta_data", "metaBulk", "MetaData"), ("set_meta_data_integer", "metaIntBulk", "MetaDataInteger")):
        f = the(name, pred=lambda fn: len(fn.params) > 3)
        tab = per_schema(f, lambda st: st["kind"] in ("insert", "replace"))
        for s in SCHEMAS:
            st = tab[s]
            if st["table"] != table or st["kind"] != "replace" or st["cols"][:2] != ["id", "type"] or len(st["cols"]) != 3:
                raise Unsupported("%s: bulk statement shape" % name)
        out.append("def %sParams : List String := %s\n" % (lean, params_doc(f)))
        out.append(emit_per_schema(lean, "engine_storage::%s (bulk overload): per VALUES tuple the operands bound to (id, type, %s)"
                                   % (name, "text" if table == "MetaData" else "value"), "List (Opnd × Opnd × Opnd)", tab,
                                   lambda st: llist(["(%s, %s, %s)" % (r[0][1], r[1][1], r[2][1]) for r in st["rows"]], "    ")))
        out.append("def %sValueColumn : String := %s\n" % (lean, lstr(tab[SCHEMAS[0]]["cols"][2])))

    # single-row MetaData / MetaDataInteger statements
    singles = []
    for name, np_ in (("set_meta_data", 3), ("set_meta_data_integer", 3), ("get_meta_data", 2), ("get_meta_data_integer", 2)):
        for f in [x for x in fns.get(name, []) if len(x.params) == np_]:
            found = []
            collect_db_stmts(f.body, [], found)
            for g, node in found:
                st = statement(f, node)
                row = st["rows"][0] if st["rows"] else []
                singles.append("(%s, %s, %s, %s, %s)" % (lstr(name), lstr(st["table"]), lstr(st["kind"]), pairs(row), pairs(st["where"])))
    out.append("/-- the single-row statements of get_/set_meta_data(_integer): (function, table, kind, VALUES / SET pairs, WHERE pairs) -/\n"
               "def metaSingles : List (String × String × String × List (String × Opnd) × List (String × Opnd)) := %s\n"
               % llist(singles))

    # PerformanceData
    f = the("set_performance_data")
    tab = per_schema(f, lambda st: st["kind"] in ("insert", "replace"))
    for s in SCHEMAS:
        one_row(tab[s], f, "PerformanceData", ("replace",))
    out.append("def perfInsertParams : List String := %s\n" % params_doc(f))
    out.append(emit_per_schema("perfInsert", "engine_storage::set_performance_data: `INSERT OR REPLACE INTO PerformanceData`",
                               "List (String × Opnd)", tab, lambda st: pairs(st["rows"][0])))
    f = the("get_performance_data")
    tab = per_schema(f, lambda st: st["kind"] == "select")
    sel = {}
    for s in SCHEMAS:
        if tab[s]["table"] != "PerformanceData":
            raise Unsupported("get_performance_data reads " + tab[s]["table"])
        sel[s] = (select_binding(f, tab[s], records["performance_data_row"], "performance_data_row"), tab[s]["where"])
    out.append(emit_per_schema("perfSelect", "engine_storage::get_performance_data: column -> lambda parameter -> aggregate "
                               "initialiser of `performance_data_row` -> member", "List (String × String × String)", sel,
                               lambda v: llist(["(%s, %s, %s)" % (lstr(c), lstr(m), lstr(cv)) for c, m, cv in v[0][0]], "    ")))
    out.append(emit_per_schema("perfSelectDefaults", "engine_storage::get_performance_data: members initialised without a column",
                               "List String", sel, lambda v: llist([lstr(m) for m in v[0][1]], per_line=0)))
    f = the("clear_performance_data")
    found = []
    collect_db_stmts(f.body, [], found)
    if len(found) != 1:
        raise Unsupported("clear_performance_data: statements")
    st = statement(f, found[0][1])
    out.append("/-- engine_storage::clear_performance_data -/\ndef perfClear : String × String × List (String × Opnd) := (%s, %s, %s)\n"
               % (lstr(st["kind"]), lstr(st["table"]), pairs(st["where"])))
    return records


# ---------------------------------------------------------------- engine_track_impl.cpp

STORAGE_META = {"get_meta_data": ".getStr", "set_meta_data": ".setStr", "get_meta_data_integer": ".getInt",
                "set_meta_data_integer": ".setInt"}
STORAGE_COL = {"get_track_column": ".getCol", "set_track_column": ".setCol", "get_performance_data_column": ".getPerf",
               "set_performance_data_column": ".setPerf"}
STORAGE_BULK = {"get_track": ".call", "get_all_meta_data": ".call", "get_all_meta_data_integer": ".call",
                "get_performance_data": ".call", "update_track": ".call", "create_track": ".call",
                "set_performance_data": ".call", "clear_performance_data": ".call"}


def is_storage_call(n):
    if n.get("kind") != "CXXMemberCallExpr":
        return False
    me = strip(kids(n)[0])
    return me.get("kind") == "MemberExpr" and "engine_storage" in qtype(strip(kids(me)[0])) if kids(me) else False


def accesses(fn_decl, helpers, depth=0):
    """Storage accesses of one member function in source order (helper calls inlined)."""
    out = []
    body = body_of(fn_decl)

    def visit(n):
        if n.get("kind") == "CXXMemberCallExpr":
            name = callee(n)
            args = kids(n)[1:]
            me = strip(kids(n)[0])
            base = strip(kids(me)[0]) if me.get("kind") == "MemberExpr" and kids(me) else {}
            if "engine_storage" in qtype(base):
                # arguments first (source order of evaluation is unspecified; nested storage calls are reads)
                for a in args:
                    visit(a)
                if name in STORAGE_META:
                    if len(args) < 2:
                        raise Unsupported("%s: arguments" % name)
                    e = enum_const(args[1])
                    if e is None:
                        if len(args) > 3:
                            out.append(".call %s" % lstr(name))
                            return
                        raise Unsupported("%s in %s: the type is not an enumerator" % (name, fn_decl.get("name")))
                    out.append("%s %s" % (STORAGE_META[name], lstr(e[1])))
                elif name in STORAGE_COL:
                    c = string_value(args[1]) if len(args) >= 2 else None
                    if c is None:
                        raise Unsupported("%s in %s: the column is not a string literal" % (name, fn_decl.get("name")))
                    out.append("%s %s" % (STORAGE_COL[name], lstr(c)))
                elif name in STORAGE_BULK:
                    out.append(".call %s" % lstr(name))
                else:
                    raise Unsupported("engine_storage::%s called from %s" % (name, fn_decl.get("name")))
                return
            if base.get("kind") == "CXXThisExpr" and name in helpers:
                for a in args:
                    visit(a)
                if depth > 3:
                    raise Unsupported("helper recursion")
                out.extend(accesses(helpers[name], helpers, depth + 1))
                return
        if is_db_stmt(n):
            sqln, ops, ext = flatten(n)
            out.append(".sql %s" % lstr(sql_ws(string_value(sqln) or "?")))
            return
        for c in kids(n):
            visit(c)
    if body is not None:
        visit(body)
    return out


def assigned_snapshot_members(stmt, snapvar_id):
    res = []
    for n in walk(stmt):
        if (n.get("kind") == "BinaryOperator" and n.get("opcode") == "=") or is_op(n, "="):
            ks = kids(n)
            lhs = strip(ks[-2])
            if lhs.get("kind") == "MemberExpr":
                b = strip(kids(lhs)[0])
                if b.get("kind") == "DeclRefExpr" and ref(b).get("id") == snapvar_id:
                    res.append((lhs["name"], ks[-1], lhs))
    return res


def snapshot_tables(decl, field_ids, out):
    body = body_of(decl)
    snapvar = None
    for n in walk(body):
        if n.get("kind") == "VarDecl" and n.get("name") == "snapshot":
            snapvar = n["id"]
            break
    if snapvar is None:
        raise Unsupported("snapshot(): no local named snapshot")
    switches = {}
    in_switch = set()
    for sw in [n for n in walk(body) if n.get("kind") == "SwitchStmt"]:
        for n in walk(sw):
            in_switch.add(id(n))
        ks = kids(sw)
        cond = strip(ks[0])
        ty = qtype(cond)
        which = "str" if ty.endswith("metadata_str_type") else "int" if ty.endswith("metadata_int_type") else None
        if which is None or cond.get("kind") != "MemberExpr" or cond.get("name") != "type":
            raise Unsupported("snapshot(): switch over " + ty)
        comp = ks[-1]
        if comp.get("kind") != "CompoundStmt":
            raise Unsupported("snapshot(): switch body")
        table, labels = [], None
        def handle(stmt):
            for m, rhs, _ in assigned_snapshot_members(stmt, snapvar):
                src = [x.get("name") for x in walk(rhs) if x.get("kind") == "MemberExpr" and x.get("referencedMemberDecl") in field_ids]
                for l in labels or []:
                    table.append((l, m, src))
        for st in kids(comp):
            while st.get("kind") in ("CaseStmt", "DefaultStmt"):
                sk = kids(st)
                if st["kind"] == "CaseStmt":
                    e = enum_const(sk[0])
                    if e is None:
                        raise Unsupported("snapshot(): case label is not an enumerator")
                    labels = (labels or []) + [e[1]] if labels is not None and getattr(handle, "fresh", False) else [e[1]]
                else:
                    labels = []
                handle.fresh = True
                st = sk[-1]
            handle.fresh = False
            if st.get("kind") == "BreakStmt":
                labels = None
                continue
            if labels is None:
                raise Unsupported("snapshot(): statement outside a case")
            handle(st)
        if which in switches:
            raise Unsupported("snapshot(): two switches over the same enum")
        switches[which] = table
    for which, name in (("str", "snapshotStr"), ("int", "snapshotInt")):
        if which not in switches:
            raise Unsupported("snapshot(): no switch over the %s types" % which)
        out.append("/-- snapshot(): `switch (row.type)` over the rows of get_all_meta_data%s — (enumerator, snapshot member "
                   "assigned, row members read) -/\ndef %s : List (String × String × List String) := %s\n"
                   % ("_integer" if which == "int" else "", name,
                      llist(["(%s, %s, %s)" % (lstr(e), lstr(m), llist([lstr(x) for x in src], per_line=0)) for e, m, src in switches[which]])))
    # assignments outside the switches: snapshot member -> row-struct members read in the same top-level statement
    reads = []
    for st in kids(body):
        if any(n.get("kind") == "SwitchStmt" for n in walk(st)):
            continue
        asg = assigned_snapshot_members(st, snapvar)
        if not asg:
            continue
        if len({m for m, _, _ in asg}) != 1:
            raise Unsupported("snapshot(): one statement assigns several members")
        lhs_ids = {id(x) for _, _, l in asg for x in walk(l)}
        src = []
        for x in walk(st):
            if x.get("kind") == "MemberExpr" and x.get("referencedMemberDecl") in field_ids and id(x) not in lhs_ids:
                nm = (field_ids[x["referencedMemberDecl"]], x["name"])
                if nm not in src:
                    src.append(nm)
        reads.append((asg[0][0], src))
    out.append("/-- snapshot(): per member assigned outside the switches, the (struct, member) pairs the statement reads -/\n"
               "def snapshotReads : List (String × List (String × String)) := %s\n"
               % llist(["(%s, %s)" % (lstr(m), llist(["(%s, %s)" % (lstr(a), lstr(b)) for a, b in s], per_line=0))
                        for m, s in reads]))
    calls = [callee(n) for n in walk(body) if is_storage_call(n)]
    out.append("def snapshotCalls : List String := %s\n" % llist([lstr(c) for c in calls], per_line=0))


def caller_tables(decl, lean, consts, out):
    """update / create_track: the argument lists of the storage calls."""
    fn = Fn(decl)
    snap = [p for p in fn.params if p.get("name") == "snapshot" or "track_snapshot" in qtype(p)]
    if len(snap) != 1:
        raise Unsupported("%s: snapshot parameter" % lean)
    snap_id = snap[0]["id"]
    deps_cache = {}

    def snapshot_members(n):
        res = []
        for x in walk(n):
            if x.get("kind") == "MemberExpr":
                b = strip(kids(x)[0]) if kids(x) else {}
                if b.get("kind") == "DeclRefExpr" and ref(b).get("id") == snap_id and x["name"] not in res:
                    res.append(x["name"])
            if x.get("kind") == "DeclRefExpr" and ref(x).get("id") in fn.locals:
                for m in local_deps(ref(x)["id"])[1]:
                    if m not in res:
                        res.append(m)
        return res

    def local_deps(vid):
        if vid in deps_cache:
            return deps_cache[vid]
        deps_cache[vid] = ("", [])
        v = fn.locals[vid]
        ks = kids(v)
        fnname, deps = "", []
        if ks:
            init = strip(ks[0])
            if init.get("kind") in ("CallExpr", "CXXMemberCallExpr"):
                fnname = callee(init) or ""
            deps = snapshot_members(ks[0])
        deps_cache[vid] = (fnname, deps)
        return deps_cache[vid]

    def src(a):
        m = strip(a)
        while m.get("kind") == "CallExpr" and callee(m) in ("optional_static_cast", "move") and len(kids(m)) == 2:
            m = strip(kids(m)[1])
        if m.get("kind") == "CXXMemberCallExpr" and callee(m) == "id" and len(kids(m)) == 1:
            return ".id"
        if m.get("kind") == "MemberExpr" and kids(m):
            b = strip(kids(m)[0])
            if b.get("kind") == "DeclRefExpr":
                if ref(b).get("id") == snap_id:
                    return ".snap %s" % lstr(m["name"])
                if ref(b).get("id") in fn.locals:
                    f_, d_ = local_deps(ref(b)["id"])
                    return ".loc %s (some %s)" % (lstr(ref(b)["name"]), lstr(m["name"]))
        if m.get("kind") == "DeclRefExpr":
            d = ref(m)
            if d.get("id") in fn.locals:
                f_, d_ = local_deps(d["id"])
                if f_ == "create_track":
                    return ".id"
                return ".loc %s none" % lstr(d["name"])
            if d.get("name") in consts:
                return ".const %s" % lstr(d["name"])
        raise Unsupported("%s: argument of kind %s" % (lean, m.get("kind")))

    calls = []
    for n in walk(fn.body):
        if is_storage_call(n):
            name = callee(n)
            args = kids(n)[1:]
            if name in ("create_track", "update_track", "set_performance_data") or \
                    (name in ("set_meta_data", "set_meta_data_integer") and len(args) > 3):
                calls.append((name, [src(a) for a in args]))
    names = [c for c, _ in calls]
    want = ["create_track" if lean == "createTrack" else "update_track", "set_meta_data", "set_meta_data_integer",
            "set_performance_data"]
    if names != want:
        raise Unsupported("%s: storage calls %s" % (lean, names))
    for (name, args), short in zip(calls, ("Track", "Meta", "MetaInt", "Perf")):
        out.append("/-- %s: arguments of storage->%s -/\ndef %s%sArgs : List Src := %s\n"
                   % (lean, name, lean, short, llist(args)))
    # only the locals the storage calls name (directly), sorted: plumbing locals (the transaction, flags) stay out
    named = set()
    for _, args in calls:
        for a in args:
            m = re.match(r'\.loc "(\w+)"', a)
            if m:
                named.add(m.group(1))
    locs = []
    for vid, v in sorted(fn.locals.items(), key=lambda kv: kv[1].get("name", "")):
        if v.get("name") not in named:
            continue
        f_, d_ = local_deps(vid)
        lit = None
        ks = kids(v)
        if ks and strip(ks[0]).get("kind") == "IntegerLiteral":
            lit = int(strip(ks[0])["value"])
        locs.append("(%s, %s, %s, %s)" % (lstr(v.get("name", "")), lstr(f_), llist([lstr(x) for x in d_], per_line=0),
                                          lopt(lit, lint)))
    out.append("/-- %s: local named by a storage call -> (function its initialiser calls, snapshot members the initialiser\n"
               "reads (transitively), integer literal it is initialised with) -/\n"
               "def %sLocals : List (String × String × List String × Option Int) := %s\n" % (lean, lean, llist(locs)))


def track_impl_tables(docs, out):
    methods, helpers_src, free, consts, field_ids = [], {}, [], {}, {}
    for d in docs:
        if d.get("kind") == "CXXRecordDecl" and d.get("name") in ROW_STRUCTS and d.get("completeDefinition"):
            for c in kids(d):
                if c.get("kind") == "FieldDecl":
                    field_ids[c["id"]] = d["name"]
    for d in docs:
        k = d.get("kind")
        if k == "CXXMethodDecl" and body_of(d) is not None and d.get("parentDeclContextId") is not None:
            methods.append(d)
        elif k == "FunctionDecl" and d.get("name") == "create_track" and body_of(d) is not None:
            free.append(d)
        elif k == "VarDecl" and "previousDecl" not in d:
            ks = kids(d)
            val = None
            if ks:
                m = strip(ks[0])
                if m.get("kind") == "IntegerLiteral":
                    val = int(m["value"])
                elif m.get("kind") == "CXXConstructExpr" and not kids(m):
                    val = None
                else:
                    continue
            consts[d["name"]] = val
    # engine_track_impl's own methods: those defined in engine_track_impl.cpp (the filter also shows inline
    # members of other classes from headers): pick by the names the class declares
    own = [m for m in methods if any(("engine_track_impl.cpp" in json.dumps(m.get(key, {}))) for key in ("loc", "range"))]
    if not own:
        own = methods
    cls_methods = {}
    order = []
    for m in own:
        if m["name"] in cls_methods:
            raise Unsupported("two definitions of engine_track_impl::%s" % m["name"])
        cls_methods[m["name"]] = m
        order.append(m["name"])
    helpers = {n: cls_methods[n] for n in ("get_track_data", "set_track_data", "get_beat_data", "set_beat_data",
                                           "get_quick_cues_data", "set_quick_cues_data", "get_loops_data", "set_loops_data",
                                           "get_high_res_waveform_data", "set_high_res_waveform_data",
                                           "get_overview_waveform_data", "set_overview_waveform_data", "relative_path")
               if n in cls_methods}
    for need in ("snapshot", "update", "title", "set_title"):
        if need not in cls_methods:
            raise Unsupported("engine_track_impl::%s not found" % need)
    acc = []
    for name in order:
        if name in ("snapshot", "update", "db", "containing_crates"):
            continue
        a = accesses(cls_methods[name], helpers)
        acc.append("(%s, %s)" % (lstr(name), llist(a, per_line=0)))
    out.append("/-- engine_track_impl.cpp: per member function the storage accesses in source order (private helpers and\n"
               "`relative_path()` inlined) -/\ndef accessors : List (String × List Acc) := %s\n" % llist(acc))
    out.append("/-- file-scope constants of engine_track_impl.cpp: integer value, `none` = value-less optional -/\n"
               "def constants : List (String × Option Int) := %s\n"
               % llist(["(%s, %s)" % (lstr(n), lopt(v, lint)) for n, v in sorted(consts.items())]))
    snapshot_tables(cls_methods["snapshot"], field_ids, out)
    caller_tables(cls_methods["update"], "update", consts, out)
    if len(free) != 1:
        raise Unsupported("free function create_track: %d definitions" % len(free))
    caller_tables(free[0], "createTrack", consts, out)


# ---------------------------------------------------------------- enums

def enum_tables(docs, out):
    seen = {}
    for d in docs:
        if d.get("kind") == "EnumDecl" and d.get("name") in ("metadata_str_type", "metadata_int_type"):
            vals, nxt = [], 0
            for c in kids(d):
                if c.get("kind") != "EnumConstantDecl":
                    continue
                v = None
                for x in walk(c):
                    if x.get("kind") == "ConstantExpr" and "value" in x:
                        v = int(x["value"])
                        break
                    if x.get("kind") == "IntegerLiteral" and x is not c:
                        v = int(x["value"])
                        break
                if v is None:
                    v = nxt
                nxt = v + 1
                vals.append((c["name"], v))
            seen[d["name"]] = vals
    for en, lean in (("metadata_str_type", "strEnum"), ("metadata_int_type", "intEnum")):
        if en not in seen or not seen[en]:
            raise Unsupported("enum %s not found" % en)
        out.append("/-- `enum class %s` (src/djinterop/engine/metadata_types.hpp): enumerator, numeric value -/\n"
                   "def %s : List (String × Int) := %s\n"
                   % (en, lean, llist(["(%s, %s)" % (lstr(n), lint(v)) for n, v in seen[en]])))


# ---------------------------------------------------------------- main

def translate():
    jobs = [(REPO + "/" + V1 + "engine_storage.cpp", "djinterop::engine::v1::"),
            (REPO + "/" + V1 + "engine_track_impl.cpp", "djinterop::engine::v1::"),
            (REPO + "/" + V1 + "engine_track_impl.cpp", "djinterop::engine::metadata_")]
    with ThreadPoolExecutor(max_workers=3) as ex:
        futs = [ex.submit(clang_ast, s, f) for s, f in jobs]
        sdocs, tdocs, edocs = [f.result() for f in futs]
    out = ["/- GENERATED by tools/tr_v1bindings.py from src/djinterop/engine/metadata_types.hpp,\n"
           "   src/djinterop/engine/v1/engine_storage.{hpp,cpp} and src/djinterop/engine/v1/engine_track_impl.cpp\n"
           "   (clang typed AST) — do not edit. -/",
           "import EngineModel.TracksV1.BindTypes", "",
           "namespace EngineModel.Gen.BindingsV1", "open EngineModel.TracksV1.Bind", ""]
    enum_tables(edocs, out)
    storage_tables(sdocs, out)
    track_impl_tables(tdocs, out)
    out += ["end EngineModel.Gen.BindingsV1", ""]
    return "\n".join(out)


def main():
    try:
        txt = translate()
    except Unsupported as e:
        print("translator: unsupported-node: %s" % e)
        return 2
    except (KeyError, IndexError, TypeError, ValueError, AttributeError) as e:   # an AST shape this script does not know
        print("translator: unsupported-node: %r" % (e,))
        return 2
    old = open(TARGET).read() if os.path.exists(TARGET) else None
    if old != txt:
        with open(TARGET, "w") as f:
            f.write(txt)
        print("translator: regenerated (changed)")
    else:
        print("translator: regenerated (identical)")
    return 0


if __name__ == "__main__":
    sys.exit(main())
