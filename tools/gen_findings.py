#!/usr/bin/env python3
"""Merge findings/<Cxx>.json fragments into /verif/known_findings.json (the one
file the checks read).  Run after editing a fragment; never run by a check.

fragment = {"known": [ {property, id, signature, what, witness} ... ],
            "fixed": [ {property, commit, what} ... ]}
`known` entries suppress exactly the violation whose `signature` they carry and
make the check print `KNOWN-FINDING: property=<id> <what>`; `fixed` entries
suppress nothing (they document fix: commits in /repo)."""
import json, os, sys
sys.path.insert(0, os.path.dirname(os.path.abspath(__file__)))
from common import *

def main():
    known, fixed = [], []
    d = os.path.join(VERIF, "findings")
    for n in sorted(os.listdir(d)):
        if not n.endswith(".json"):
            continue
        f = json.load(open(os.path.join(d, n)))
        for e in f.get("known", []):
            known.append(e)
        for e in f.get("fixed", []):
            e = dict(e)
            e["line"] = "fixed: property=%s %s %s" % (e["property"], e["commit"], e["what"])
            fixed.append(e)
    out = {"_doc": "known: genuine defects recorded but not repaired (suppress exactly the listed signature). "
                   "fixed: repaired by a 'fix:' commit in /repo; suppresses nothing. Generated from findings/*.json "
                   "by tools/gen_findings.py.",
           "known": known, "fixed": fixed}
    json.dump(out, open(os.path.join(VERIF, "known_findings.json"), "w"), indent=1)
    print("known_findings.json: %d known, %d fixed" % (len(known), len(fixed)))

if __name__ == "__main__":
    main()
