#!/usr/bin/env python3
"""C15: inventory of undefined-behaviour sites + translator of their guards, from clang's typed AST.

Every run of the C15 check

  1. dumps the AST (clang++-14 -ast-dump=json) of the translation units that implement the public
     track / crate / database operations of both schema generations and lists every SITE at which the
     library's own code can invoke undefined behaviour:
        opt-deref   `*x` / `x->m` on a std::optional          (empty: UB)
        iter-deref  `*it` / `it->m` on a container iterator   (end(): UB)
        index       `v[i]` on a vector / array                (out of range: UB)
        int-div     integer `/` `%`                           (zero divisor, INT_MIN / -1: UB)
        float-int   double -> integer conversion              (out of range: UB)
        signed      `*` `+` `-` on signed 32/64-bit integers  (overflow: UB)
        shift       `<<` `>>` on integers
        ptr-deref   `*p` on a raw pointer
        front-back  .front() / .back() / .pop_back()          (empty container: UB)
        loop        while / do / for(;;)                      (termination)
        recursion   a function calling itself                 (termination / stack)
     together with the GUARDS that dominate it (conditions of enclosing if / ?: / && / || / loops and of
     preceding `if (c) throw/return/continue;` statements) — `sites()`;
  2. compares that inventory with the confirmed one (tools/props/parts/c15_sites.json) — `diff()`:
     a site that is new, or whose expression or guards changed and whose guards are not among the
     translated conditions of step 3, is UNCONFIRMED: the check fails closed (C15_sites part);
  3. translates the guard conditions the wrapper models of lean/EngineModel/Api/Guarded*.lean use into
     Lean (`lean/EngineModel/Gen/C15Guards.lean`) — `translate()`.  The wrapper models dereference /
     index exactly where the C++ does and test exactly these regenerated conditions before; the
     theorems "wrapper = package model, and never `ub`" are re-checked against them.  A condition the
     translator cannot express (or no longer finds) is emitted as `false` (= the guard is gone): the
     model then predicts the `ub` the sanitizer sees, and the proofs no longer go through.

Usage:  tr_c15guards.py            regenerate Gen/C15Guards.lean, print the inventory diff
        tr_c15guards.py --confirm  write the current inventory as the confirmed one
        tr_c15guards.py --table    print the markdown table of design/C15.md
"""
import json, os, re, subprocess, sys
sys.path.insert(0, os.path.dirname(os.path.abspath(__file__)))
from common import *

ENG = "src/djinterop/engine/"
TUS = ["v2/track_impl.cpp", "v2/crate_impl.cpp", "v2/database_impl.cpp", "v2/playlist_table.cpp",
       "v2/playlist_entity_table.cpp", "v1/engine_track_impl.cpp", "v1/engine_crate_impl.cpp",
       "v1/engine_database_impl.cpp"]
# files whose sites are inventoried (the TUs + the headers that carry conversion code)
FILES = TUS + ["v2/convert_beatgrid.hpp", "v2/convert_hot_cues.hpp", "v2/convert_loops.hpp", "v2/convert_track.hpp",
               "v2/convert_waveform.hpp", "track_utils.hpp"]
CONFIRMED = os.path.join(VERIF, "tools", "props", "parts", "c15_sites.json")
GEN = os.path.join(LEAN, "EngineModel", "Gen", "C15Guards.lean")
CACHE = os.path.join(BUILD, "c15ast")

SIGNED = {"int", "long", "long long", "int64_t", "int32_t", "std::int64_t", "std::int32_t", "short", "signed char"}
INTS = SIGNED | {"unsigned int", "unsigned long", "unsigned long long", "size_t", "std::size_t", "uint64_t", "uint32_t",
                 "unsigned short", "unsigned char", "uint8_t", "uint16_t", "char", "bool", "std::vector::size_type",
                 "size_type"}


class Unsupported(Exception):
    pass


# --------------------------------------------------------------------------------------- AST access

def includes():
    return ["-I" + GENINC, "-I" + REPO + "/include", "-I" + REPO + "/ext/sqlite_modern_cpp", "-I" + REPO + "/ext/date",
            "-I" + REPO + "/src"]


def clang_docs(tu):
    cmd = ["clang++-14", "-std=gnu++17", "-fsyntax-only"] + includes() + \
          ["-Xclang", "-ast-dump=json", "-Xclang", "-ast-dump-filter=djinterop::engine", os.path.join(REPO, ENG, tu)]
    r = subprocess.run(cmd, stdout=subprocess.PIPE, stderr=subprocess.PIPE, text=True)
    if r.returncode != 0 and not r.stdout.strip():
        raise Unsupported("clang failed on %s: %s" % (tu, r.stderr[-400:]))
    txt = r.stdout
    dec = json.JSONDecoder()
    i, docs = 0, []
    n = len(txt)
    while i < n:
        while i < n and txt[i].isspace():
            i += 1
        if i >= n:
            break
        o, j = dec.raw_decode(txt, i)
        docs.append(o)
        i = j
    return docs


class Loc:
    """clang prints `file` / `line` only when they differ from the previously printed location."""

    def __init__(self):
        self.file = None
        self.line = None

    def bare(self, l):
        if not l:
            return None
        if "file" in l:
            self.file = l["file"]
        if "line" in l:
            self.line = l["line"]
        if "offset" not in l:
            return None
        return (self.file, self.line, l["offset"], l.get("tokLen", 0))

    def read(self, l):
        if not l:
            return None
        if "spellingLoc" in l or "expansionLoc" in l:
            self.bare(l.get("spellingLoc"))
            return self.bare(l.get("expansionLoc"))
        return self.bare(l)


_src_cache = {}


def src(path):
    if path not in _src_cache:
        try:
            _src_cache[path] = open(path, "rb").read()
        except OSError:
            _src_cache[path] = b""
    return _src_cache[path]


def norm(s):
    s = re.sub(r"//[^\n]*", "", s)
    s = re.sub(r"/\*.*?\*/", "", s, flags=re.S)
    return re.sub(r"\s+", " ", s).strip()


def qt(n):
    t = n.get("type", {})
    return t.get("qualType", "")


def dqt(n):
    t = n.get("type", {})
    return t.get("desugaredQualType") or t.get("qualType", "")


def short_type(t):
    t = t.replace("const ", "").replace("djinterop::engine::v2::", "").replace("djinterop::engine::v1::", "")
    t = t.replace("djinterop::", "").replace("std::", "")
    t = re.sub(r"__gnu_cxx::__normal_iterator<\s*(.*?) \*,.*", r"vector-iterator<\1>", t)
    t = re.sub(r"_List_iterator<(.*)>", r"list-iterator<\1>", t)
    t = re.sub(r"__detail::_Node_(const_)?iterator<pair<(.*?)>,.*", r"map-iterator<\2>", t)
    return t.strip()[:90]


# --------------------------------------------------------------------------------------- site extraction

class Scan:
    def __init__(self):
        self.loc = Loc()
        self.sites = []
        self.conds = {}          # fn -> [ {text, node, kind, line} ]  every condition expression, in source order
        self.seen = set()
        self.sptr = {}
        self.cur_ids = set()

    def node_pos(self, n):
        p = self.loc.read(n.get("loc"))
        r = n.get("range") or {}
        b = self.loc.read(r.get("begin"))
        e = self.loc.read(r.get("end"))
        n["_b"], n["_e"], n["_p"] = b, e, p or b
        return b, e

    def annotate(self, n):
        """first pass: resolve all locations in print order"""
        if not isinstance(n, dict):
            return
        self.node_pos(n)
        for c in n.get("inner", []) or []:
            self.annotate(c)

    def text(self, n):
        b, e = n.get("_b"), n.get("_e")
        if not b or not e or b[0] != e[0] or not b[0]:
            return "?"
        data = src(b[0])
        return norm(data[b[2]:e[2] + e[3]].decode("utf-8", "replace"))

    def in_scope(self, n):
        b = n.get("_b") or n.get("_p")
        if not b or not b[0]:
            return None
        f = b[0]
        for rel in FILES:
            if f.endswith("/" + ENG + rel):
                return rel
        return None

    # ---- statements / expressions with the set of dominating conditions
    def exits(self, s):
        """does statement `s` always leave the enclosing block (throw / return / continue / break)?"""
        if not isinstance(s, dict):
            return False
        k = s.get("kind")
        if k in ("CXXThrowExpr", "ReturnStmt", "ContinueStmt", "BreakStmt"):
            return True
        if k in ("ExprWithCleanups", "AttributedStmt"):
            return any(self.exits(c) for c in s.get("inner", [])[-1:])
        if k == "CompoundStmt":
            inner = s.get("inner", [])
            return bool(inner) and self.exits(inner[-1])
        if k == "IfStmt":
            parts = self.if_parts(s)
            return parts[2] is not None and self.exits(parts[1]) and self.exits(parts[2])
        return False

    def if_parts(self, s):
        inner = list(s.get("inner", []))
        if s.get("hasInit"):
            inner = inner[1:]
        if s.get("hasVar"):
            inner = inner[1:]
        cond = inner[0] if inner else None
        then = inner[1] if len(inner) > 1 else None
        els = inner[2] if len(inner) > 2 else None
        return cond, then, els

    def add_cond(self, fn, node, kind):
        if fn is None or not self.in_scope(node):
            return
        b = node.get("_b")
        key = (b[0], b[2], kind)
        lst = self.conds.setdefault(fn, [])
        if any(c["key"] == key for c in lst):
            return
        lst.append({"key": key, "text": self.text(node), "node": node, "kind": kind, "line": b[1]})

    def walk(self, n, fn, pc, in_range_for=False):
        if not isinstance(n, dict) or not n:
            return
        k = n.get("kind")
        if k in ("FunctionDecl", "CXXMethodDecl", "CXXConstructorDecl", "CXXDestructorDecl", "CXXConversionDecl"):
            name = n.get("mangledName") or n.get("name")
            if fn is not None and n.get("name") == "operator()":
                name = fn + "::lambda"
            saved = self.cur_ids
            self.cur_ids = saved | {n.get("id")} | ({n.get("previousDecl")} if n.get("previousDecl") else set())
            for c in n.get("inner", []):
                self.walk(c, name, [] if not (fn and name.startswith(fn)) else pc)
            self.cur_ids = saved
            return
        if k == "LambdaExpr":
            for c in n.get("inner", []):
                if c.get("kind") == "CXXRecordDecl":
                    for m in c.get("inner", []):
                        if m.get("kind") == "CXXMethodDecl" and m.get("name") == "operator()":
                            for x in m.get("inner", []):
                                self.walk(x, (fn or "?") + "::lambda", pc)
            return
        if k == "CompoundStmt":
            cur = list(pc)
            for s in n.get("inner", []):
                self.walk(s, fn, cur)
                if s.get("kind") == "IfStmt":
                    cond, then, els = self.if_parts(s)
                    if els is None and self.exits(then):
                        cur = cur + [("not", self.text(cond))]
                    elif els is not None and self.exits(then) and not self.exits(els):
                        cur = cur + [("not", self.text(cond))]
                    elif els is not None and self.exits(els) and not self.exits(then):
                        cur = cur + [("", self.text(cond))]
            return
        if k == "IfStmt":
            inner = list(n.get("inner", []))
            pre = []
            if n.get("hasInit"):
                pre.append(inner.pop(0))
            if n.get("hasVar"):
                pre.append(inner.pop(0))
            for p in pre:
                self.walk(p, fn, pc)
            cond, then, els = self.if_parts(n)
            self.add_cond(fn, cond, "if")
            self.walk(cond, fn, pc)
            ct = self.text(cond)
            self.walk(then, fn, pc + [("", ct)])
            if els is not None:
                self.walk(els, fn, pc + [("not", ct)])
            return
        if k == "ConditionalOperator":
            c, a, b = (n.get("inner", []) + [None, None, None])[:3]
            self.add_cond(fn, c, "?:")
            self.walk(c, fn, pc)
            ct = self.text(c)
            self.walk(a, fn, pc + [("", ct)])
            self.walk(b, fn, pc + [("not", ct)])
            return
        if k == "BinaryOperator" and n.get("opcode") in ("&&", "||"):
            l, r = n.get("inner", [None, None])[:2]
            self.walk(l, fn, pc)
            self.walk(r, fn, pc + [("" if n["opcode"] == "&&" else "not", self.text(l))])
            return
        if k in ("WhileStmt", "ForStmt", "DoStmt"):
            self.site(n, fn, pc, "loop", "", self.loop_head(n))
            inner = n.get("inner", [])
            if k == "WhileStmt":
                cond, body = inner[-2], inner[-1]
                self.add_cond(fn, cond, "while")
                self.walk(cond, fn, pc)
                self.walk(body, fn, pc + [("", self.text(cond))])
            elif k == "DoStmt":
                body, cond = inner[0], inner[1]
                self.add_cond(fn, cond, "do-while")
                self.walk(body, fn, pc)
                self.walk(cond, fn, pc)
            else:
                init, _, cond, inc, body = (inner + [None] * 5)[:5]
                self.walk(init, fn, pc)
                if cond:
                    self.add_cond(fn, cond, "for")
                self.walk(cond, fn, pc)
                g = pc + ([("", self.text(cond))] if cond else [])
                self.walk(inc, fn, g)
                self.walk(body, fn, g)
            return
        if k == "CXXForRangeStmt":
            inner = n.get("inner", [])
            for c in inner[:-1]:
                self.walk(c, fn, pc, True)
            if inner:
                self.walk(inner[-1], fn, pc)
            return
        # ---- sites
        if k == "CXXOperatorCallExpr":
            inner = n.get("inner", [])
            op = self.callee_name(inner[0]) if inner else None
            arg = inner[1] if len(inner) > 1 else {}
            at = dqt(arg) or qt(arg)
            if op in ("operator*", "operator->") and len(inner) == 2:
                if "optional<" in at:
                    self.site(n, fn, pc, "opt-deref", at)
                elif "shared_ptr" in at or "unique_ptr" in at:
                    rel = self.in_scope(n)
                    if rel:
                        key = (n["_b"][0], n["_b"][2])
                        if key not in self.seen:
                            self.seen.add(key)
                            self.sptr[rel] = self.sptr.get(rel, 0) + 1
                elif "iterator" in at:
                    self.site(n, fn, pc, "range-for" if in_range_for else "iter-deref", at,
                              "for (… : …)" if in_range_for else None)
            elif op == "operator[]":
                if "map<" in at:
                    self.site(n, fn, pc, "map-index", at)
                else:
                    self.site(n, fn, pc, "index", at)
        elif k == "ArraySubscriptExpr":
            self.site(n, fn, pc, "index", qt(n))
        elif k == "BinaryOperator" or k == "CompoundAssignOperator":
            opc = n.get("opcode", "")
            base = opc.rstrip("=") if k == "CompoundAssignOperator" else opc
            t = dqt(n)
            if base in ("/", "%") and self.is_int(t):
                self.site(n, fn, pc, "int-div", t)
            elif base in ("*", "+", "-") and t.replace("const ", "") in SIGNED:
                self.site(n, fn, pc, "signed", t)
            elif base in ("<<", ">>") and self.is_int(t):
                self.site(n, fn, pc, "shift", t)
        elif k in ("ImplicitCastExpr", "CXXStaticCastExpr", "CStyleCastExpr", "CXXFunctionalCastExpr") and \
                n.get("castKind") == "FloatingToIntegral":
            self.site(n, fn, pc, "float-int", dqt(n))
        elif k == "UnaryOperator" and n.get("opcode") == "*":
            sub = (n.get("inner") or [{}])[0]
            if sub.get("kind") != "CXXThisExpr":
                self.site(n, fn, pc, "ptr-deref", qt(n))
        elif k == "CallExpr":
            ref = self.callee_ref(n.get("inner", [{}])[0] if n.get("inner") else {})
            if ref and ref in self.cur_ids:
                self.site(n, fn, pc, "recursion", "")
        elif k == "CXXMemberCallExpr":
            inner = n.get("inner", [])
            if inner and inner[0].get("kind") == "MemberExpr" and inner[0].get("name") in ("front", "back", "pop_back", "pop_front"):
                obj = (inner[0].get("inner") or [{}])[0]
                self.site(n, fn, pc, "front-back", dqt(obj) or qt(obj))
        for c in n.get("inner", []) or []:
            self.walk(c, fn, pc, in_range_for)

    def is_int(self, t):
        t = t.replace("const ", "").strip()
        return t in INTS

    def loop_head(self, n):
        k = n.get("kind")
        inner = n.get("inner", [])
        try:
            if k == "WhileStmt":
                return "while (%s)" % self.text(inner[-2])
            if k == "DoStmt":
                return "do … while (%s)" % self.text(inner[1])
            init, _, cond, inc, _ = (inner + [None] * 5)[:5]
            return "for (%s; %s; %s)" % (self.text(init).rstrip(";") if init else "", self.text(cond) if cond else "",
                                          self.text(inc) if inc else "")
        except Exception:
            return k

    def callee_ref(self, x):
        if not isinstance(x, dict):
            return None
        if x.get("kind") == "DeclRefExpr":
            return x.get("referencedDecl", {}).get("id")
        for y in x.get("inner", []) or []:
            r = self.callee_ref(y)
            if r:
                return r
        return None

    def callee_name(self, x):
        if x.get("kind") == "DeclRefExpr":
            return x.get("referencedDecl", {}).get("name")
        for y in x.get("inner", []) or []:
            r = self.callee_name(y)
            if r:
                return r
        return None

    def site(self, n, fn, pc, kind, typ, expr=None):
        rel = self.in_scope(n)
        if not rel or fn is None:
            return
        b = n["_b"]
        key = (b[0], b[2], kind)
        if key in self.seen:
            return
        self.seen.add(key)
        self.sites.append({"file": rel, "line": b[1], "fn": fn, "kind": kind, "type": short_type(typ),
                           "expr": expr if expr is not None else self.text(n),
                           "guards": [("!(%s)" % t if p else t) for p, t in pc]})


def demangle(names):
    names = [n for n in names if n]
    if not names:
        return {}
    r = subprocess.run(["c++filt"], input="\n".join(names), stdout=subprocess.PIPE, text=True)
    out = r.stdout.split("\n")
    m = {}
    for a, b in zip(names, out):
        b = b.replace("(anonymous namespace)::", "")
        b = re.sub(r"\(.*$", "", b)                       # drop the parameter list
        b = b.replace("djinterop::engine::", "")
        b = re.sub(r"\[abi:[^\]]*\]", "", b)
        m[a] = b.strip()
    return m


def source_key():
    h = hashlib.sha1()
    for root in (os.path.join(REPO, "src"), os.path.join(REPO, "include")):
        for dp, dn, fs in sorted(os.walk(root)):
            dn.sort()
            for f in sorted(fs):
                if f.endswith((".cpp", ".hpp", ".h")):
                    h.update(f.encode())
                    h.update(file_sha(os.path.join(dp, f)).encode())
    h.update(file_sha(os.path.abspath(__file__)).encode())
    return h.hexdigest()


def scan_all(use_cache=True):
    """-> (sites, conds, sptr): sites with demangled function names, ordinal ids; conds per function"""
    key = source_key()
    cpath = os.path.join(CACHE, key + ".json")
    if use_cache and os.path.exists(cpath):
        d = json.load(open(cpath))
        return d["sites"], d["conds"], d["sptr"]
    sc = Scan()
    for tu in TUS:
        docs = clang_docs(tu)
        for d in docs:
            sc.annotate(d)
        for d in docs:
            sc.walk(d, None, [])
    dm = demangle(sorted({s["fn"].split("::lambda")[0] for s in sc.sites} | {f.split("::lambda")[0] for f in sc.conds}))

    def nice(fn):
        base = fn.split("::lambda")[0]
        return dm.get(base, base) + ("::lambda" * fn.count("::lambda"))
    sites = []
    for s in sorted(sc.sites, key=lambda s: (s["file"], s["line"])):
        s = dict(s)
        s["fn"] = nice(s["fn"])
        sites.append(s)
    count = {}
    for s in sites:
        k = (s["fn"], s["kind"], s["type"])
        count[k] = count.get(k, 0) + 1
        s["id"] = "%s#%s#%s#%d" % (s["fn"], s["kind"], s["type"], count[k])
    conds = {}
    for fn, lst in sc.conds.items():
        conds.setdefault(nice(fn), [])
        for c in sorted(lst, key=lambda c: c["key"][1]):
            conds[nice(fn)].append({"text": c["text"], "kind": c["kind"], "line": c["line"], "ast": strip_ast(c["node"])})
    os.makedirs(CACHE, exist_ok=True)
    json.dump({"sites": sites, "conds": conds, "sptr": sc.sptr}, open(cpath, "w"))
    return sites, conds, sc.sptr


def strip_ast(n):
    """the part of a condition's AST the translator needs"""
    if not isinstance(n, dict):
        return n
    o = {k: n[k] for k in ("kind", "opcode", "castKind", "value", "name", "isArrow") if k in n}
    if "type" in n:
        o["type"] = n["type"].get("desugaredQualType") or n["type"].get("qualType")
    if n.get("kind") == "DeclRefExpr":
        o["ref"] = n.get("referencedDecl", {}).get("name")
    b, e = n.get("_b"), n.get("_e")
    if b and e and b[0] == e[0] and b[0]:
        o["text"] = norm(src(b[0])[b[2]:e[2] + e[3]].decode("utf-8", "replace"))
    o["inner"] = [strip_ast(c) for c in n.get("inner", []) or []]
    return o


# --------------------------------------------------------------------------------------- guard translator

# (lean name, function (demangled, as in the inventory), selector, params [(lean param, lean type, C++ atom text)])
# selector = ("if"|"?:"|"for"|"while"|"do-while", n): the n-th condition (0-based) of that kind in the function whose
# atoms are all among `params` — robust against unrelated conditions being added to the function.
B = "Bool"
TABLE = [
    ("v2_crate_name_norow", "v2::crate_impl::name", ("if", 0), [("row", B, "row")]),
    ("v2_crate_parent_norow", "v2::crate_impl::parent", ("if", 0), [("row", B, "row")]),
    ("v2_crate_set_name_norow", "v2::crate_impl::set_name", ("if", 0), [("row", B, "row")]),
    ("v2_crate_set_parent_self", "v2::crate_impl::set_parent", ("if", 0),
     [("parent", B, "parent"), ("parent_is_self", B, "parent->id() == id()")]),
    ("v2_crate_set_parent_norow", "v2::crate_impl::set_parent", ("if", 0), [("row", B, "row")]),
    ("v2_crate_set_parent_given", "v2::crate_impl::set_parent", ("if", 0), [("parent", B, "parent")]),
    ("v2_crate_set_parent_given2", "v2::crate_impl::set_parent", ("?:", 0), [("parent", B, "parent")]),
    ("v2_crate_sub_after_norow", "v2::crate_impl::create_sub_crate_after", ("if", 0), [("after_row", B, "after_row")]),
    ("v2_crate_remove_track_found", "v2::crate_impl::remove_track", ("if", 0), [("row", B, "row")]),
    ("v2_crate_sub_by_name_none", "v2::crate_impl::sub_crate_by_name", ("if", 0), [("id_maybe", B, "id_maybe")]),
    ("v2_db_root_after_norow", "v2::database_impl::create_root_crate_after", ("if", 0), [("after_row", B, "after_row")]),
    ("v2_db_remove_track_found", "v2::database_impl::remove_track", ("if", 0), [("row", B, "row")]),
    ("v2_db_root_by_name_none", "v2::database_impl::root_crate_by_name", ("if", 0), [("id_maybe", B, "id_maybe")]),
    ("v2_db_tracks_by_path_found", "v2::database_impl::tracks_by_relative_path", ("if", 0), [("id_maybe", B, "id_maybe")]),
    ("v2_pe_add_back_existing", "v2::playlist_entity_table::add_back", ("if", 0), [("existing_id", B, "existing_id")]),
    ("v2_pl_sort_ids_empty", "v2::sort_ids", ("if", 0), [("map_empty", B, "next_list_id_to_id_map.empty()")]),
    ("v2_pe_get_for_list_empty", "v2::playlist_entity_table::get_for_list", ("if", 0),
     [("map_empty", B, "next_entity_id_map.empty()")]),
    ("v1_crate_name_none", "v1::engine_crate_impl::name", ("if", 0), [("name", B, "name")]),
    # ---- tracks 2.x
    ("v2_track_hot_cue_at_range", "v2::track_impl::hot_cue_at", ("if", 0),
     [("index", "Int", "index"), ("size", "Nat", "quick_cues.quick_cues.size()")]),
    ("v2_track_set_hot_cue_at_range", "v2::track_impl::set_hot_cue_at", ("if", 0),
     [("index", "Int", "index"), ("size", "Nat", "quick_cues.quick_cues.size()")]),
    ("v2_track_loop_at_range", "v2::track_impl::loop_at", ("if", 0),
     [("index", "Int", "index"), ("size", "Nat", "loops.loops.size()")]),
    ("v2_track_set_loop_at_range", "v2::track_impl::set_loop_at", ("if", 0),
     [("index", "Int", "index"), ("size", "Nat", "loops.loops.size()")]),
    ("v2_track_snapshot_norow", "v2::track_impl::snapshot", ("if", 0), [("row_maybe", B, "row_maybe")]),
    ("v2_wave_empty", "v2::convert::write::waveform", ("if", 0), [("w_empty", B, "w.empty()")]),
    ("v2_wave_absent", "v2::convert::write::waveform", ("if", 0),
     [("sample_count", B, "sample_count"), ("sample_rate", B, "sample_rate")]),
    ("v2_wave_range", "v2::convert::write::waveform", ("if", 0),
     [("rate_in_i64", B, "*sample_rate >= -9223372036854775808.0 && *sample_rate < 9223372036854775808.0")]),
    ("v2_wave_noextent", "v2::convert::write::waveform", ("if", 0), [("extents_size", "Nat", "extents.size")]),
    ("v2_wave_nonempty", "v2::convert::write::waveform", ("if", 0), [("w_empty", B, "w.empty()")]),
    ("v2_wave_loop", "v2::convert::write::waveform", ("for", 0), [("i", "Nat", "i"), ("extents_size", "Nat", "extents.size")]),
    ("v2_bpm_inrange", "v2::convert::write::bpm", ("if", 0),
     [("bpm", B, "bpm"), ("ge_min", B, "*bpm >= -9223372036854775808.0"), ("lt_max", B, "*bpm < 9223372036854775808.0")]),
    ("v2_key_given", "v2::convert::write::key", ("if", 0), [("key", B, "key")]),
    ("v2_hot_cue_none", "v2::convert::write::hot_cue", ("if", 0), [("hot_cue", B, "hot_cue")]),
    ("v2_loop_none", "v2::convert::write::loop", ("if", 0), [("loop", B, "loop")]),
    # ---- track_utils.hpp (shared by both generations): "no extents" test before the divisions by qn
    ("util_hires_zero", "util::calculate_high_resolution_waveform_extents", ("if", 0),
     [("sample_count", "Nat", "?sample_count"), ("qn", "Int", "?qn"), ("sample_rate", "F64.Bits", "?sample_rate")]),
    ("util_ovw_zero", "util::calculate_overview_waveform_extents", ("if", 0),
     [("sample_count", "Nat", "?sample_count"), ("qn", "Int", "?qn"), ("sample_rate", "F64.Bits", "?sample_rate")]),
    # ---- tracks 1.x
    ("v1_track_hot_cue_at_range", "v1::engine_track_impl::hot_cue_at", ("if", 0),
     [("index", "Int", "index"), ("size", "Nat", "quick_cues_d.hot_cues.size()")]),
    ("v1_track_set_hot_cue_at_range", "v1::engine_track_impl::set_hot_cue_at", ("if", 0),
     [("index", "Int", "index"), ("size", "Nat", "quick_cues_d.hot_cues.size()")]),
    ("v1_track_loop_at_range", "v1::engine_track_impl::loop_at", ("if", 0),
     [("index", "Int", "index"), ("size", "Nat", "loops_d.loops.size()")]),
    ("v1_track_set_loop_at_range", "v1::engine_track_impl::set_loop_at", ("if", 0),
     [("index", "Int", "index"), ("size", "Nat", "loops_d.loops.size()")]),
    ("v1_length_calc_none", "v1::to_length_calculated", ("if", 0),
     [("sample_count", B, "sample_count"), ("sample_rate", B, "sample_rate"), ("rate_ge_1", B, "*sample_rate >= 1"),
      ("rate_lt_max", B, "*sample_rate < 9223372036854775808.0")]),
    ("v1_length_fields_given", "v1::to_length_fields", ("if", 0), [("duration", B, "duration")]),
    ("v1_bpm_fields_inrange", "v1::to_bpm_fields", ("if", 0),
     [("bpm", B, "bpm"), ("abs_lt_max", B, "std::fabs(*bpm) < 9223372036854775808.0")]),
    ("v1_set_bpm_inrange", "v1::engine_track_impl::set_bpm", ("if", 0),
     [("bpm", B, "bpm"), ("abs_lt_max", B, "std::fabs(*bpm) < 9223372036854775808.0")]),
    ("v1_extents_rate_out", "v1::to_extents_sample_rate", ("if", 0),
     [("abs_lt_max", B, "std::fabs(sample_rate) < 9223372036854775808.0")]),
    ("v1_overview_absent", "v1::to_overview_waveform_data", ("if", 0),
     [("sample_count", B, "sample_count"), ("sample_rate", B, "sample_rate")]),
    ("v1_overview_nonempty", "v1::to_overview_waveform_data", ("if", 0), [("w_empty", B, "waveform.empty()")]),
    ("v1_overview_loop", "v1::to_overview_waveform_data", ("for", 0), [("i", "Nat", "i"), ("extents_size", "Nat", "extents.size")]),
    ("v1_hires_absent", "v1::to_high_res_waveform_data", ("if", 0),
     [("sample_count", B, "sample_count"), ("count_zero", B, "*sample_count == 0"), ("sample_rate", B, "sample_rate"),
      ("rate_zero", B, "*sample_rate == 0")]),
    ("v1_hires_nonempty", "v1::to_high_res_waveform_data", ("if", 0), [("w_empty", B, "waveform.empty()")]),
    ("v1_set_waveform_nonempty", "v1::engine_track_impl::set_waveform", ("if", 0), [("w_empty", B, "waveform.empty()")]),
    ("v1_set_waveform_loop", "v1::engine_track_impl::set_waveform", ("for", 0),
     [("i", "Nat", "i"), ("extents_size", "Nat", "overview_extents.size")]),
]

DOC = {}


def atoms_of(ast, params):
    """translate a condition; params: {cxx text: (lean, type)}; an atom text starting with `?` is optional
    (the condition need not mention it)"""
    by_text = {t.lstrip("?"): (l, ty) for l, ty, t in params}

    CASTS = ("ImplicitCastExpr", "CStyleCastExpr", "CXXStaticCastExpr", "CXXFunctionalCastExpr")

    def tr_bool(n):
        t = n.get("text", "")
        k = n.get("kind")
        if k not in CASTS and t in by_text and by_text[t][1] == B:
            return by_text[t][0]
        inner = n.get("inner", [])
        if k in ("ParenExpr", "ExprWithCleanups", "MaterializeTemporaryExpr", "CXXBindTemporaryExpr"):
            return tr_bool(inner[0])
        if k == "ImplicitCastExpr":
            ck = n.get("castKind")
            if ck in ("NoOp", "LValueToRValue", "UserDefinedConversion"):
                return tr_bool(inner[0])
            if ck == "IntegralToBoolean":
                return "(decide (%s ≠ 0))" % tr_int(inner[0])
            raise Unsupported("bool cast %s in `%s`" % (ck, t))
        if k == "CXXMemberCallExpr":
            # `explicit operator bool` of std::optional: presence of the object
            m = inner[0] if inner else {}
            if m.get("kind") == "MemberExpr" and m.get("name") == "operator bool":
                obj = m.get("inner", [{}])[0]
                return tr_bool(obj)
            raise Unsupported("call `%s`" % t)
        if k == "UnaryOperator" and n.get("opcode") == "!":
            return "(!%s)" % tr_bool(inner[0])
        if k == "BinaryOperator":
            op = n.get("opcode")
            if op in ("&&", "||"):
                return "(%s %s %s)" % (tr_bool(inner[0]), op, tr_bool(inner[1]))
            if op in ("<", "<=", ">", ">=", "==", "!="):
                lt = (inner[0].get("type") or "")
                if "double" in lt or "float" in lt:
                    a, b = tr_f64(inner[0]), tr_f64(inner[1])
                    return {"<": "(F64.lt %s %s)" % (a, b), "<=": "(F64.le %s %s)" % (a, b),
                            ">": "(F64.lt %s %s)" % (b, a), ">=": "(F64.le %s %s)" % (b, a),
                            "==": "(F64.eq %s %s)" % (a, b), "!=": "(F64.ne %s %s)" % (a, b)}[op]
                lean = {"<": "<", "<=": "≤", ">": ">", ">=": "≥", "==": "=", "!=": "≠"}[op]
                return "(decide (%s %s %s))" % (tr_int(inner[0]), lean, tr_int(inner[1]))
        if k == "DeclRefExpr" and t in by_text:
            return by_text[t][0]
        raise Unsupported("condition `%s` (%s)" % (t, k))

    F64_LIT = {0.0: "F64.zero", 1.0: "F64.one", 9223372036854775808.0: "(0x43e0000000000000 : F64.Bits)",
               -9223372036854775808.0: "(0xc3e0000000000000 : F64.Bits)"}

    def tr_f64(n):
        """a double: a declared F64 atom or one of the literals 0, 1, ±2^63 (bit patterns)"""
        t = n.get("text", "")
        k = n.get("kind")
        inner = n.get("inner", [])
        if k not in CASTS and t in by_text and by_text[t][1] == "F64.Bits":
            return by_text[t][0]
        if k in ("ParenExpr", "ExprWithCleanups", "MaterializeTemporaryExpr"):
            return tr_f64(inner[0])
        if k in ("FloatingLiteral", "IntegerLiteral"):
            try:
                v = float(n.get("value"))
            except (TypeError, ValueError):
                raise Unsupported("literal `%s`" % t)
            if v in F64_LIT:
                return F64_LIT[v]
            raise Unsupported("floating literal `%s`" % t)
        if k == "UnaryOperator" and n.get("opcode") == "-" and inner and inner[0].get("kind") in ("FloatingLiteral", "IntegerLiteral"):
            v = -float(inner[0].get("value"))
            if v in F64_LIT:
                return F64_LIT[v]
            raise Unsupported("floating literal `%s`" % t)
        if k in CASTS and n.get("castKind") in ("NoOp", "LValueToRValue", "IntegralToFloating"):
            return tr_f64(inner[0])
        raise Unsupported("floating expression `%s` (%s)" % (t, k))

    def wrap(t, e):
        t = (t or "").replace("const ", "").strip()
        mod = {"unsigned int": 2 ** 32, "unsigned long": 2 ** 64, "unsigned long long": 2 ** 64, "size_t": 2 ** 64,
               "std::size_t": 2 ** 64, "std::vector::size_type": 2 ** 64, "size_type": 2 ** 64}.get(t)
        if mod:
            return "(%s %% %d)" % (e, mod)
        if t in ("long", "long long", "int64_t"):
            return e            # widening of an in-range value
        if t == "int":
            return e
        raise Unsupported("integer conversion to %s" % t)

    def tr_int(n):
        t = n.get("text", "")
        k = n.get("kind")
        if k not in CASTS and t in by_text and by_text[t][1] in ("Int", "Nat"):
            l, ty = by_text[t]
            return l if ty == "Int" else "(%s : Int)" % l
        inner = n.get("inner", [])
        if k in ("ParenExpr", "ExprWithCleanups", "MaterializeTemporaryExpr"):
            return tr_int(inner[0])
        if k == "IntegerLiteral":
            return "(%s : Int)" % n.get("value")
        if k in ("ImplicitCastExpr", "CStyleCastExpr", "CXXStaticCastExpr", "CXXFunctionalCastExpr"):
            ck = n.get("castKind")
            if ck in ("NoOp", "LValueToRValue"):
                return tr_int(inner[0])
            if ck == "IntegralCast":
                return wrap(n.get("type"), tr_int(inner[0]))
            raise Unsupported("cast %s in `%s`" % (ck, t))
        if k == "BinaryOperator" and n.get("opcode") in ("+", "-", "*"):
            ty = (n.get("type") or "").replace("const ", "")
            e = "(%s %s %s)" % (tr_int(inner[0]), n["opcode"], tr_int(inner[1]))
            if ty in SIGNED:
                raise Unsupported("signed arithmetic inside a guard: `%s`" % t)
            return wrap(ty, e)
        raise Unsupported("integer expression `%s` (%s)" % (t, k))

    return tr_bool(ast)


def mentions_only(ast, params):
    """is every variable / call the condition mentions covered by the declared atoms?"""
    try:
        atoms_of(ast, params)
        return True
    except Unsupported:
        return False
    except Exception:
        return False


def translate(conds):
    """-> (lean text, status dict)"""
    out = ["/- GENERATED by tools/tr_c15guards.py from src/djinterop/engine/{v1,v2}/*.cpp, *.hpp — do not edit. -/",
           "import EngineModel.Basic.F64", "", "namespace EngineModel.Gen.C15Guards", "open EngineModel", ""]
    status = {}
    used = {}
    for name, fn, (kind, nth), params in TABLE:
        need = {l for l, _, t in params if not t.startswith("?")}
        cs = [c for c in conds.get(fn, []) if c["kind"] == kind and mentions_only(c["ast"], params) and
              need <= set(uses(c["ast"], params))]
        # conditions already taken by an earlier entry with the same function / kind / atoms are skipped
        sig = (fn, kind, tuple(sorted(l for l, _, _ in params)))
        k = used.get(sig, 0) + nth
        sigdecl = " ".join("(%s : %s)" % (l, ty) for l, ty, _ in params)
        params = [(l, ty, t.lstrip("?")) for l, ty, t in params]
        if k < len(cs):
            c = cs[k]
            used[sig] = used.get(sig, 0) + 1
            body = atoms_of(c["ast"], params)
            out.append("/-- %s `%s`: `%s` -/" % (ENG.split("/")[-2] and "", fn, c["text"]))
            out[-1] = "/-- `%s`: `%s` -/" % (fn, c["text"])
            out.append("def %s %s : Bool := %s" % (name, sigdecl, body))
            status[name] = {"fn": fn, "line": c["line"], "text": c["text"], "lean": body}
        else:
            out.append("/-- `%s`: NOT FOUND in the source (guard removed or rewritten beyond the translator's fragment) -/" % fn)
            out.append("def %s %s : Bool := false" % (name, sigdecl))
            status[name] = {"fn": fn, "missing": True}
        out.append("")
    out.append("end EngineModel.Gen.C15Guards")
    return "\n".join(out) + "\n", status


def uses(ast, params):
    """lean params the translation of `ast` mentions"""
    s = atoms_of(ast, params)
    return [l for l, _, _ in params if re.search(r"(?<![A-Za-z0-9_])%s(?![A-Za-z0-9_])" % re.escape(l), s)]


def regenerate():
    """the TRANSLATORS hook of the C15 plugin"""
    sites, conds, _ = scan_all()
    text, status = translate(conds)
    old = open(GEN).read() if os.path.exists(GEN) else ""
    if text != old:
        open(GEN, "w").write(text)
    missing = [n for n, s in status.items() if s.get("missing")]
    return ("regenerated (%s)" % ("identical" if text == old else "CHANGED")) + \
           ("; guards not found: " + ", ".join(missing) if missing else "")


# --------------------------------------------------------------------------------------- inventory diff

def translated_texts(conds):
    """the condition texts the translator currently expresses in Lean (semantic check by proof)"""
    _, status = translate(conds)
    return {s["text"] for s in status.values() if "text" in s}


def diff():
    sites, conds, sptr = scan_all()
    try:
        conf = json.load(open(CONFIRMED))
    except OSError:
        conf = {"sites": []}
    old = {s["id"]: s for s in conf["sites"]}
    new = {s["id"]: s for s in sites}
    sem = translated_texts(conds)

    def strip_not(g):
        return g[2:-1] if g.startswith("!(") and g.endswith(")") else g

    def within(g):
        """the guard is a translated condition, or a sub-expression of one (short-circuit prefix)"""
        g = strip_not(g)
        return any(g == t or g in t for t in sem)

    def presence_ok(s):
        """an optional dereference must be dominated by a test of THAT optional's presence"""
        if s["kind"] != "opt-deref":
            return True
        x = s["expr"]
        x = x[1:] if x.startswith("*") else (x[:-2] if x.endswith("->") else x)
        x = x.strip()
        for g in s["guards"]:
            if g == x or x in [c.strip() for c in g.split("&&")]:
                return True
            if g.startswith("!(") and g.endswith(")") and ("!" + x) in [c.strip() for c in g[2:-1].split("||")]:
                return True
        return False

    def covered(s):
        return bool(s["guards"]) and all(within(g) for g in s["guards"]) and presence_ok(s)
    added = [s for i, s in new.items() if i not in old]
    removed = [s for i, s in old.items() if i not in new]
    changed, rechecked = [], []
    for i, s in new.items():
        o = old.get(i)
        if o and (o["expr"] != s["expr"] or o["guards"] != s["guards"]):
            (rechecked if covered(s) else changed).append({"id": i, "was": {"expr": o["expr"], "guards": o["guards"]},
                                                           "now": {"expr": s["expr"], "guards": s["guards"], "line": s["line"],
                                                                   "file": s["file"]}})
    return {"sites": len(sites), "added": added, "removed": removed, "changed": changed, "rechecked_by_proof": rechecked,
            "shared_ptr_derefs": sptr}


# how each site is covered: first matching rule wins (regex on function, kind or None)
RULES = [
    (r"^util::", None, "model+gen", "Gen.TrackUtils (regenerated by tools/tr_trackutils.py), run by Api/GuardedTracksV1.siteG / "
     "GuardedTracksV2.waveSiteG and by TracksV1/Model.lean", "Proofs/NoUbGuardsGen (gen_ovw_some, gen_hires_some); v1t_C15_sites, v2t_C15_sites; C19_gen_hi / C19_gen_ov"),
    (r"v2::crate_impl::(set_parent|set_name|create_sub_crate_after|remove_track)$|v2::database_impl::(create_root_crate_after|remove_track)$|v2::playlist_entity_table::add_back$",
     "opt-deref", "model+gen", "Api/GuardedV2.stepGW (deref behind Gen.C15Guards)", "v2c_C15_no_ub, v2c_C15_guard_dropped_counterexample"),
    (r"v2::crate_impl::(name|parent|sub_crate_by_name)$|v2::database_impl::root_crate_by_name$", "opt-deref", "model+gen",
     "Api/GuardedV2.qNameG / qParentG / qByParentNameG", "v2c_C15_queries_no_ub"),
    (r"v2::sort_ids$|v2::playlist_entity_table::get_for_list$", "iter-deref", "model+gen",
     "Api/GuardedV2.sortIdsG / getForListG (`ub oob_read` without a tail; emptiness test from Gen.C15Guards)",
     "v2c_C15_walk_terminates, v2c_C15_queries_no_ub, v2c_C15_table_level_counterexample"),
    (r"v2::sort_ids$|v2::playlist_entity_table::get_for_list$", "loop", "model",
     "Api/GuardedV2.walkFuelG (`ub nontermination`)", "v2c_C15_walk_terminates"),
    (r"v2::track_impl::(set_)?(hot_cue|loop)_at$", "index", "model+gen", "Api/GuardedTracksV2.getHotCueAtG / getLoopAtG / setSiteG",
     "v2t_C15_sites, v2t_C15_guarded_step, v2t_C15_guard_dropped_counterexample"),
    (r"v2::convert::write::(waveform|bpm)$", None, "model+gen", "Api/GuardedTracksV2.waveSiteG / bpmSiteG",
     "v2t_C15_sites, v2t_C15_guard_dropped_counterexample"),
    (r"v2::convert::read::duration$", "signed", "model", "TracksV2.readDuration (`ub signed_overflow`), invariant dbOk",
     "v2t_C15_no_ub, v2t_C15_invariant, v2t_C15_duration_overflow_counterexample"),
    (r"v1::engine_track_impl::(set_)?(hot_cue|loop)_at$", "index", "model+gen", "Api/GuardedTracksV1.slotSiteG",
     "v1t_C15_sites, v1t_C15_guard_dropped_counterexample"),
    (r"v1::(to_length_calculated|to_bpm_fields|to_overview_waveform_data|to_high_res_waveform_data)$|v1::engine_track_impl::set_bpm$",
     None, "model+gen", "Api/GuardedTracksV1.lengthCalcSiteG / bpmFieldsSiteG / overviewSiteG / hiresSiteG / setBpmSiteG",
     "v1t_C15_sites, v1t_C15_guard_dropped_counterexample"),
    (r"v1::engine_track_impl::(snapshot|duration)$", "signed", "model", "TracksV1.optMul (`ub signed_overflow`), invariant DbInv",
     "v1t_C15_no_ub, v1t_C15_invariant, v1t_C15_duration_overflow_counterexample"),
    (r"v1::engine_track_impl::set_waveform$|v1::engine_track_impl::set_sample_(count|rate)$", None, "model",
     "TracksV1/Accessors.set (resample1024: `ub oob_index`; hand-mirrored guards)", "v1t_C15_no_ub (v1_C06_never_ub)"),
    (r"v1::update_path$", "recursion", "model", "Api/CratesV1 updatePath (fuel |CrateParentList|+1, `ub nontermination`)",
     "v1c_C15_no_ub, v1c_C15_cyclic_table_counterexample"),
    (r"v1::engine_crate_impl::name$", "opt-deref", "model+gen", "Api/GuardedCratesV1.crateNameG", "v1c_C15_queries_no_ub"),
    (r"v1::engine_crate_impl::|v1::engine_database_impl::", "opt-deref", "model",
     "Api/CratesV1.step (the `parent` / `name` tests are `Option` matches: hand-mirrored guards)", "v1c_C15_no_ub"),
    (r"v1::engine_track_impl::|v1::(create_track|to_key_num|to_length_fields)$|v2::convert::write::(hot_cue|loop|key|hot_cues|loops)$|v2::snapshot_to_row$|v2::track_impl::snapshot$|v2::database_impl::tracks_by_relative_path$",
     "opt-deref", "model", "tracks package model (the `if (x)` / `x ? … : …` test is an `Option` match: hand-mirrored guard)",
     "v1t_C15_no_ub / v2t_C15_no_ub"),
]


def classify(s):
    for rx, kind, status, model, thm in RULES:
        if (kind is None or kind == s["kind"]) and re.search(rx, s["fn"]):
            return status, model, thm
    if s["kind"] == "range-for":
        return "by-construction", "range-based for: `*it` with `it != end()` (language rule)", "—"
    if s["kind"] == "map-index":
        return "by-construction", "`unordered_map::operator[]` inserts; never out of range", "—"
    if s["kind"] == "int-div" and re.search(r"[/%] *\d+$", s["expr"]):
        return "by-construction", "constant non-zero divisor (not -1)", "—"
    if s["kind"] == "loop" and re.search(r"\.size\(\) < MAX_", s["expr"]):
        return "by-construction", "push_back loop up to a constant size", "—"
    return "tie-only", "sanitizer build during the tie", "—"


def table():
    sites, conds, sptr = scan_all()
    rows = ["| file:line | function | kind | expression | guards (dominating conditions) | covered by | theorem |",
            "|---|---|---|---|---|---|---|"]
    for s in sites:
        st, model, thm = classify(s)
        rows.append("| %s:%d | `%s` | %s | `%s` | %s | %s: %s | %s |" % (
            s["file"], s["line"], s["fn"], s["kind"], s["expr"][:70].replace("|", "\\|"),
            "; ".join("`%s`" % g[:60].replace("|", "\\|") for g in s["guards"]) or "—", st, model, thm))
    rows.append("")
    rows.append("shared_ptr / unique_ptr dereferences (members set in the constructor, never null): " +
                ", ".join("%s: %d" % kv for kv in sorted(sptr.items())))
    return "\n".join(rows)


if __name__ == "__main__":
    if "--table" in sys.argv:
        print(table())
    elif "--confirm" in sys.argv:
        sites, conds, sptr = scan_all(use_cache="--no-cache" not in sys.argv)
        json.dump({"sites": sites}, open(CONFIRMED, "w"), indent=1, sort_keys=True)
        print("confirmed %d sites" % len(sites))
    else:
        print(regenerate())
        d = diff()
        print(json.dumps({k: (v if not isinstance(v, list) else len(v)) for k, v in d.items()}, indent=1))
        for k in ("added", "changed"):
            for s in d[k][:12]:
                print(k, json.dumps(s)[:300])
