#!/usr/bin/env python3
"""Print a markdown table of the seeded changes under seeded/ (one row each):
id, property, origin (independent agent / worker self-validation), what it needs,
and what each registered check said (from meta.json / the confirm logs)."""
import json, os, sys
sys.path.insert(0, os.path.dirname(os.path.abspath(__file__)))
from common import VERIF

def main():
    d = os.path.join(VERIF, "seeded")
    rows = []
    for n in sorted(os.listdir(d)):
        p = os.path.join(d, n)
        if not os.path.isdir(p):
            continue
        try:
            m = json.load(open(os.path.join(p, "meta.json")))
        except (OSError, ValueError):
            m = {}
        indep = n[:1] == "C" and n[1:3].isdigit() and "self" not in n
        ci = m.get("confirmed_by_integrator", {})
        checks = ci.get("checks") or m.get("checks") or {}
        verdict = ", ".join("%s %s" % (k, v) for k, v in checks.items()) or m.get("verdict", "") or m.get("result", "")
        rows.append((n, m.get("property") or m.get("breaks_property") or "", "independent" if indep else "self",
                     (m.get("summary") or m.get("what") or "")[:160].replace("|", "/").replace("\n", " "),
                     (m.get("needs") or "")[:140].replace("|", "/").replace("\n", " "), verdict))
    print("| id | property | origin | change | needs | checks |")
    print("|---|---|---|---|---|---|")
    for r in rows:
        print("| %s | %s | %s | %s | %s | %s |" % r)

if __name__ == "__main__":
    main()
