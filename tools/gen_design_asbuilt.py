#!/usr/bin/env python3
"""Regenerate the machine-written part of DESIGN.md section 11 (between the
markers ASBUILT:BEGIN / ASBUILT:END): per property the number of registered
theorems, the Lean modules, translators, parts, design note, known findings and
the seeded changes with the verdict of the owning check."""
import importlib, json, os, re, sys
sys.path.insert(0, os.path.dirname(os.path.abspath(__file__)))
from common import VERIF

ALL = ["C%02d" % i for i in range(1, 21)]


def seeded_rows():
    d = os.path.join(VERIF, "seeded")
    out = {}
    for n in sorted(os.listdir(d)):
        p = os.path.join(d, n)
        if not os.path.isdir(p):
            continue
        try:
            m = json.load(open(os.path.join(p, "meta.json")))
        except (OSError, ValueError):
            m = {}
        pid = str(m.get("breaks_property") or m.get("property") or "")
        mm = re.search(r"C\d\d", pid) or re.search(r"C\d\d", n)
        if not mm:
            continue
        pid = mm.group(0)
        indep = bool(re.match(r"^C\d\d-\d+$", n))
        first = (m.get("confirmed_by_integrator", {}).get("checks") or {}).get(pid)
        now = (m.get("recheck", {}).get("checks") or {}).get(pid) or first
        out.setdefault(pid, []).append((n, indep, first, now,
                                        (m.get("summary") or m.get("what") or "").replace("|", "/").replace("\n", " ")[:140]))
    return out


def main():
    props = {json.loads(l)["id"]: json.loads(l) for l in open(os.path.join(VERIF, "properties.jsonl"))}
    kf = json.load(open(os.path.join(VERIF, "known_findings.json")))
    seeds = seeded_rows()
    L = []
    L.append("| id | theorems | Lean property modules | model regenerated from source by | design note | known findings | fix: commits | independent seeded changes caught |")
    L.append("|---|---|---|---|---|---|---|---|")
    tot = 0
    for pid in ALL:
        try:
            m = importlib.import_module("props." + pid)
        except ImportError:
            L.append("| %s | — | — | — | — | — | — | — |" % pid)
            continue
        ths = getattr(m, "THEOREMS", [])
        tot += len(ths)
        mods = ", ".join(x.replace("Properties.", "") for x in getattr(m, "LEAN_MODULES", []) if x.startswith("Properties."))
        tr = ", ".join(getattr(m, "TRANSLATORS", {}).keys()) or "— (hand model + correspondence)"
        notes = sorted(f for f in os.listdir(os.path.join(VERIF, "design")) if f.startswith(pid))
        known = [k["id"] for k in kf["known"] if k["property"] == pid]
        fixed = sorted({(c if isinstance(c, str) else c[0])[:7] for f in kf["fixed"] if f["property"] == pid
                        for c in [f["commit"]]})
        ind = [s for s in seeds.get(pid, []) if s[1]]
        caught = sum(1 for s in ind if s[3] == "CAUGHT")
        L.append("| %s | %d | %s | %s | %s | %s | %d | %d / %d |" % (
            pid, len(ths), mods, tr, ", ".join("design/" + n for n in notes) or "—",
            ", ".join(known) or "—", len(fixed), caught, len(ind)))
    L.append("")
    L.append("Registered theorems in total: %d.  Known findings: %d.  `fix:` commits recorded: %d." % (
        tot, len(kf["known"]), len({(f["commit"] if isinstance(f["commit"], str) else f["commit"][0])[:7] for f in kf["fixed"]})))
    L.append("")
    L.append("#### Seeded changes (kept under `seeded/`)")
    L.append("")
    L.append("`independent` = written by a fresh sub-agent that saw only the property text and a scratch worktree of /repo; "
             "`self` = made by the work-package that owns the check (reverted `fix:` commits, hand mutations, behaviour-preserving refactors). "
             "`first` is the verdict of the owning check when the change was first confirmed, `now` the verdict at the last re-check.")
    L.append("")
    L.append("| id | property | origin | first | now | change |")
    L.append("|---|---|---|---|---|---|")
    for pid in ALL:
        for (n, indep, first, now, what) in seeds.get(pid, []):
            L.append("| %s | %s | %s | %s | %s | %s |" % (n, pid, "independent" if indep else "self", first or "", now or "", what))
    text = "\n".join(L) + "\n"
    p = os.path.join(VERIF, "DESIGN.md")
    s = open(p).read()
    b, e = "<!-- ASBUILT:BEGIN -->\n", "<!-- ASBUILT:END -->\n"
    if b in s and e in s:
        s = s[:s.index(b) + len(b)] + text + s[s.index(e):]
        open(p, "w").write(s)
        print("DESIGN.md: as-built table regenerated (%d theorems)" % tot)
    else:
        print(text)

if __name__ == "__main__":
    main()
