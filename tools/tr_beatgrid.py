#!/usr/bin/env python3
"""Translator: normalize_beatgrid (src/djinterop/engine/engine.cpp) -> lean/EngineModel/Gen/BeatgridGen.lean.

The function is read from clang's typed AST (every implicit conversion is a node there) and emitted
as a definition over the SAME arithmetic class `Num α` as the hand model `Pure/Beatgrid.lean`, so
that `Proofs/BeatgridGenEq.lean` can prove the two equal for every instance at once.  The vector /
iterator / integer vocabulary it maps to is `Pure/BeatgridVec.lean`; the table is in
design/C20_gen.md and in `TABLE` below (printed by `--table`).

Fragment: a function `vector<beatgrid_marker> f(vector<beatgrid_marker> v, int64_t n)` whose body is
a sequence of
  * `if (c) return v;`  /  `if (c) throw std::X{..};`  /  `return v;`
  * top-level `{ … }` blocks (each becomes its own definition `normalize_block<k>`; it may only
    modify `v`), containing local declarations, one-armed `if`s, `v.erase(a, b)`, element-field
    assignments `v[i].f = e`, `v[i].f -= e`, `v[i].f += e` (also through `front()` / `back()`), throws;
  * expressions over int / int64_t / size_t / double / iterators of `v` as listed in TABLE.
Anything else raises Unsupported: the previous file stays, the status `unsupported-node: …` goes
into the evidence and the differential tie decides (fail closed).
"""
import json, os, re, subprocess, sys
sys.path.insert(0, os.path.dirname(os.path.abspath(__file__)))
from common import *

FUNC = "normalize_beatgrid"
SRC = "src/djinterop/engine/engine.cpp"
TARGET = os.path.join(LEAN, "EngineModel", "Gen", "BeatgridGen.lean")
DEFINES = ["-DNDEBUG", "-D_GLIBCXX_ASSERTIONS", "-DDJINTEROP_SOURCE", "-DDjInterop_EXPORTS", "-DDJINTEROP_VERIF"]

TABLE = [
    ("std::vector<beatgrid_marker> (parameter, by value)", "List (Marker α), threaded through the do-block"),
    ("int64_t parameter / int, int64_t locals", "Int"),
    ("size_t values", "Nat"),
    ("double values", "α"),
    ("v.empty()", "v.isEmpty"),
    ("v.size()", "v.length"),
    ("v.begin() / v.end()", "Vec.ibegin v (= 0) / Vec.iend v (= v.length)"),
    ("std::find_if(v.begin(), v.end(), [..](const beatgrid_marker& m){ return e; })", "Vec.findIf v (fun m => e)  (= List.findIdx)"),
    ("it != jt / it == jt (iterators)", "decide (it ≠ jt) / decide (it = jt)"),
    ("it + k / it - k (iterator, k integral)", "← Vec.iterAdd v it k / ← Vec.iterSub v it k  (ub outside [begin, end])"),
    ("v.erase(first, last)", "v ← Vec.erase v first last  (= take first ++ drop last; ub unless first ≤ last ≤ size)"),
    ("v[i] (read)", "← Vec.get v i  (ub oob_index outside the vector)"),
    ("v.front() / v.back()", "position ← Vec.frontPos v / Vec.backPos v (ub when empty), then as v[i]"),
    ("m.index / m.sample_offset", "m.index / m.off"),
    ("v[i].sample_offset = e, -= e, += e", "v ← Vec.setOff v i e / (num.sub old e) / (num.add old e)"),
    ("v[i].index = e", "v ← Vec.setIndex v i e"),
    ("int literal, -literal", "(k : Int) / (k : Nat) after a cast to size_t"),
    ("int -> int64_t, static_cast<int64_t>(int)", "identity on Int"),
    ("int / int64_t -> size_t", "Cxx.u64OfInt e  (value modulo 2^64)"),
    ("size_t / int64_t -> int (static_cast<int32_t>)", "Vec.wrapI32 e  (modular)"),
    ("+ - * on int64_t", "← chk64 (a ∘ b)  (ub signed_overflow outside int64_t)"),
    ("+ - * on int", "← Vec.chk32 (a ∘ b)  (ub signed_overflow outside int32_t)"),
    ("+ - * on size_t", "Cxx.U64.add / sub / mul  (wrapping)"),
    ("< <= > >= == != on integers", "decide (a ⋈ b)"),
    ("int / int64_t -> double (IntegralToFloating)", "num.ofInt e"),
    ("a < b, a <= b on double", "num.lt a b, num.le a b"),
    ("a > b, a >= b on double", "num.lt b a, num.le b a"),
    ("+ - * / on double", "num.add / sub / mul / div"),
    ("a || b, a && b", "(a || b), (a && b) when b is pure; otherwise ← Vec.orElse a (do …b…) / Vec.andAlso"),
    ("!a", "(!a)"),
    ("double r = std::ceil(e);  if (!(r >= -2147483648.0 && r <= 2147483647.0)) throw X;  … static_cast<int32_t>(r)",
     "let some r_i32 := num.ceil32 e | .throw .X   (the class's `ceil32` IS ceil + this range test + the cast)"),
    ("static_cast<int32_t>(r), r = std::ceil(e), with no such test before it", "let some t := num.ceil32 e | .ub .float_cast_range"),
    ("r = std::floor / round / trunc (e) in the same two patterns", "the same with e replaced by Vec.outside \"std::floor\" e (opaque: nothing provable)"),
    ("if (c) throw std::invalid_argument{..} (also length_error, out_of_range, runtime_error, logic_error)", "if c then .throw .invalid_argument else"),
    ("if (c) { statements modifying v }", "let v ← if c then (do …; pure v) else pure v"),
    ("top-level { … }", "def normalize_block<k> num v n : Res (List (Marker α)); let v ← normalize_block<k> num v n"),
    ("return v;", "pure v"),
]

THROWS = {"std::invalid_argument": "invalid_argument", "std::length_error": "length_or_alloc",
          "std::out_of_range": "out_of_range", "std::runtime_error": "runtime_error",
          "std::logic_error": "logic_error"}
ROUNDERS = {"ceil": None, "floor": "std::floor", "round": "std::round", "trunc": "std::trunc",
            "nearbyint": "std::nearbyint", "rint": "std::rint"}


class Unsupported(Exception):
    def __init__(self, kind, node=None):
        loc = ""
        if isinstance(node, dict):
            loc = " at %s" % node.get("_loc", "?")
        Exception.__init__(self, "%s%s" % (kind, loc))


def clang_ast(src, filt):
    cmd = (["clang++-14", "-std=gnu++17", "-fsyntax-only"] + DEFINES +
           ["-I" + GENINC, "-I" + REPO + "/include", "-I" + REPO + "/src",
            "-I" + REPO + "/ext/sqlite_modern_cpp", "-I" + REPO + "/ext/date",
            "-Xclang", "-ast-dump=json", "-Xclang", "-ast-dump-filter=" + filt, src])
    r = subprocess.run(cmd, stdout=subprocess.PIPE, stderr=subprocess.PIPE, text=True)
    txt = r.stdout
    dec = json.JSONDecoder()
    i, docs = 0, []
    while i < len(txt):
        while i < len(txt) and txt[i].isspace():
            i += 1
        if i >= len(txt):
            break
        o, j = dec.raw_decode(txt, i)
        docs.append(o)
        i = j
    if not docs:
        raise Unsupported("clang-error: " + (r.stderr.strip().split("\n") or ["?"])[0][:160])
    return docs


def annotate(doc, fname):
    st = {"line": 0}

    def loc_line(l):
        if not isinstance(l, dict):
            return None
        for k in ("expansionLoc", "spellingLoc"):
            if k in l and isinstance(l[k], dict) and "line" in l[k]:
                return l[k]["line"]
        return l.get("line")

    def walk(n):
        if not isinstance(n, dict):
            return
        for l in (n.get("loc"), (n.get("range") or {}).get("begin")):
            ln = loc_line(l)
            if ln:
                st["line"] = ln
        n["_loc"] = "%s:%d" % (fname, st["line"])
        for c in n.get("inner", []) or []:
            walk(c)
    walk(doc)


WRAPPERS = ("ParenExpr", "ConstantExpr", "ExprWithCleanups", "MaterializeTemporaryExpr", "CXXBindTemporaryExpr")


def kids(n):
    return [c for c in (n.get("inner") or []) if isinstance(c, dict) and c.get("kind")]


def ctype(n):
    t = n.get("type", {}) if isinstance(n, dict) else {}
    q = t.get("desugaredQualType") or t.get("qualType", "")
    q = re.sub(r"\bconst\b", "", q).replace("&", "").strip()
    q = re.sub(r"\s+", " ", q)
    if "__normal_iterator" in q:
        return "iter"
    if re.fullmatch(r"(struct )?(djinterop::)?beatgrid_marker", q):
        return "marker"
    if re.fullmatch(r"std::vector<(djinterop::)?beatgrid_marker(, ?std::allocator<(djinterop::)?beatgrid_marker> ?)?>", q):
        return "vec"
    return {"int": "i32", "long": "i64", "long long": "i64", "unsigned long": "u64", "unsigned long long": "u64",
            "double": "f64", "bool": "bool", "void": "void"}.get(q, "?" + q)


def unwrap(n):
    """Strip nodes without semantics of their own (parentheses, temporaries, no-op casts, the
    iterator -> const_iterator conversion of `erase`'s arguments)."""
    while True:
        k = n.get("kind")
        ks = kids(n)
        if k in WRAPPERS and len(ks) == 1:
            n = ks[0]
        elif k in ("ImplicitCastExpr", "CXXStaticCastExpr") and n.get("castKind") in ("NoOp", "FunctionToPointerDecay") \
                and len(ks) == 1 and (k == "ImplicitCastExpr" or ctype(ks[0]) == ctype(n)):
            n = ks[0]
        elif k == "ImplicitCastExpr" and n.get("castKind") == "ConstructorConversion" and ctype(n) == "iter" and len(ks) == 1:
            n = ks[0]
        elif k == "CXXConstructExpr" and ctype(n) in ("iter", "vec") and len(ks) == 1 and ctype(ks[0]) == ctype(n):
            n = ks[0]
        else:
            return n


def callee_name(call):
    c = kids(call)[0]
    while c.get("kind") != "DeclRefExpr":
        ks = kids(c)
        if not ks:
            return None
        c = ks[0]
    return c["referencedDecl"].get("name")


class Rounded:
    """A double local defined by a rounding call; usable only through ceil32."""
    def __init__(self, arg):
        self.arg = arg          # Lean term of type α whose ceiling-with-range-test is `num.ceil32 arg`
        self.checked = None     # Lean name of the int32 value once the range test has been seen


class Block:
    """One do-block being emitted.  `vec` is the C++ name of the vector parameter."""

    def __init__(self, tr, vec, env):
        self.tr, self.vec = tr, vec
        self.lines = []
        self.env = dict(env)        # C++ local -> ("i32"|"i64"|"u64"|"f64"|"bool"|"iter"|Rounded, lean name, vec version)
        self.version = 0            # bumped on every structural modification of the vector (iterator invalidation)

    def tmp(self):
        self.tr.n += 1
        return "t%d" % self.tr.n

    def bind(self, rhs):
        t = self.tmp()
        self.lines.append("let %s ← %s" % (t, rhs))
        return t

    def sub(self):
        b = Block(self.tr, self.vec, self.env)
        b.version = self.version
        return b

    # ------------------------------------------------------------ expressions
    def is_vec(self, n):
        n = unwrap(n)
        return n.get("kind") == "DeclRefExpr" and n["referencedDecl"].get("name") == self.vec and ctype(n) == "vec"

    def member_call(self, n):
        """(method name, object node, args) of a CXXMemberCallExpr."""
        ks = kids(n)
        me = ks[0]
        if me.get("kind") != "MemberExpr":
            raise Unsupported("member call shape", n)
        return me.get("name"), kids(me)[0], ks[1:]

    def elem_pos(self, n):
        """Position (Lean Nat term) of the element an lvalue `v[i]` / `v.front()` / `v.back()` denotes."""
        n = unwrap(n)
        k = n.get("kind")
        if k == "CXXOperatorCallExpr" and callee_name(n) == "operator[]":
            ks = kids(n)
            if len(ks) != 3 or not self.is_vec(ks[1]):
                raise Unsupported("operator[] on something else than the grid", n)
            if ctype(ks[2]) != "u64":
                raise Unsupported("index type " + ctype(ks[2]), n)
            return self.expr(ks[2])
        if k == "CXXMemberCallExpr":
            name, obj, args = self.member_call(n)
            if self.is_vec(obj) and not args and name in ("front", "back"):
                return self.bind("Vec.%sPos %s" % (name, self.vec))
        raise Unsupported("element reference " + str(k), n)

    def field(self, n):
        """(position term, Lean field) for an lvalue `<element>.index` / `<element>.sample_offset`."""
        n = unwrap(n)
        if n.get("kind") != "MemberExpr" or n.get("name") not in ("index", "sample_offset"):
            raise Unsupported("lvalue " + str(n.get("kind")), n)
        want = {"index": "i32", "sample_offset": "f64"}[n["name"]]
        if ctype(n) != want:
            raise Unsupported("field %s of type %s" % (n["name"], ctype(n)), n)
        return kids(n)[0], {"index": "index", "sample_offset": "off"}[n["name"]]

    def int_lit(self, n):
        n = unwrap(n)
        if n.get("kind") == "IntegerLiteral":
            return int(n["value"])
        if n.get("kind") == "UnaryOperator" and n.get("opcode") == "-":
            v = self.int_lit(kids(n)[0])
            return None if v is None else -v
        return None

    def float_lit(self, n):
        n = unwrap(n)
        if n.get("kind") == "FloatingLiteral":
            return float(n["value"])
        if n.get("kind") == "UnaryOperator" and n.get("opcode") == "-":
            v = self.float_lit(kids(n)[0])
            return None if v is None else -v
        return None

    def rounded_ref(self, n):
        """The Rounded local an expression reads, or None."""
        n = unwrap(n)
        if n.get("kind") == "ImplicitCastExpr" and n.get("castKind") == "LValueToRValue":
            n = unwrap(kids(n)[0])
        if n.get("kind") == "DeclRefExpr":
            e = self.env.get(n["referencedDecl"].get("name"))
            if e and isinstance(e[0], Rounded):
                return e[0]
        return None

    def range_test(self, c):
        """`!(r >= -2147483648.0 && r <= 2147483647.0)` for a Rounded local r -> r, else None."""
        c = unwrap(c)
        if c.get("kind") != "UnaryOperator" or c.get("opcode") != "!":
            return None
        a = unwrap(kids(c)[0])
        if a.get("kind") != "BinaryOperator" or a.get("opcode") != "&&":
            return None
        l, r = [unwrap(x) for x in kids(a)]
        if l.get("kind") != "BinaryOperator" or r.get("kind") != "BinaryOperator":
            return None
        if l.get("opcode") != ">=" or r.get("opcode") != "<=":
            return None
        r1, r2 = self.rounded_ref(kids(l)[0]), self.rounded_ref(kids(r)[0])
        if r1 is None or r1 is not r2:
            return None
        if self.float_lit(kids(l)[1]) != -2147483648.0 or self.float_lit(kids(r)[1]) != 2147483647.0:
            return None
        return r1

    def expr(self, n):
        n = unwrap(n)
        k = n.get("kind")
        ty = ctype(n)
        ks = kids(n)
        if k == "IntegerLiteral":
            return "(%s : %s)" % (n["value"], "Nat" if ty == "u64" else "Int")
        if k == "CXXBoolLiteralExpr":
            return "true" if n.get("value") else "false"
        if k == "DeclRefExpr":
            name = n["referencedDecl"].get("name")
            if name in self.env:
                t, lean, ver = self.env[name]
                if isinstance(t, Rounded):
                    raise Unsupported("use of a rounded double outside ceil32's pattern", n)
                if t == "iter" and ver != self.version:
                    raise Unsupported("iterator used after the vector was modified", n)
                return lean
            raise Unsupported("reference to " + str(name), n)
        if k in ("ImplicitCastExpr", "CXXStaticCastExpr", "CStyleCastExpr", "CXXFunctionalCastExpr"):
            ck = n.get("castKind")
            if ck in ("LValueToRValue", "NoOp"):
                return self.expr(ks[0])
            src = ctype(unwrap(ks[0]))
            if ck == "IntegralCast":
                lit = self.int_lit(ks[0])
                if lit is not None and ty == "u64" and lit >= 0:
                    return "(%d : Nat)" % lit
                if lit is not None and ty in ("i32", "i64"):
                    return "(%d : Int)" % lit
                e = self.expr(ks[0])
                if src == "i32" and ty == "i64" or src == ty:
                    return e
                if src in ("i32", "i64") and ty == "u64":
                    return "(Cxx.u64OfInt %s)" % e
                if src == "i64" and ty == "i32":
                    return "(Vec.wrapI32 %s)" % e
                if src == "u64" and ty == "i32":
                    return "(Vec.wrapI32 (Int.ofNat %s))" % e
                if src == "u64" and ty == "i64":
                    return "(Cxx.i64OfU64 %s)" % e
                raise Unsupported("IntegralCast %s->%s" % (src, ty), n)
            if ck == "IntegralToFloating":
                if src in ("i32", "i64") and ty == "f64":
                    return "(num.ofInt %s)" % self.expr(ks[0])
                raise Unsupported("IntegralToFloating from " + src, n)
            if ck == "FloatingToIntegral":
                r = self.rounded_ref(ks[0])
                if r is None or ty != "i32":
                    raise Unsupported("FloatingToIntegral outside ceil32's pattern", n)
                if r.checked:
                    return r.checked
                t = self.tmp()
                self.lines.append("let some %s := num.ceil32 %s | .ub .float_cast_range" % (t, r.arg))
                return t
            raise Unsupported("cast " + str(ck), n)
        if k == "UnaryOperator":
            op = n.get("opcode")
            lit = self.int_lit(n)
            if lit is not None and ty in ("i32", "i64"):
                return "(%d : Int)" % lit
            if op == "!" and ty == "bool":
                return "(!%s)" % self.expr(ks[0])
            raise Unsupported("unary " + str(op), n)
        if k == "MemberExpr":
            obj, fld = self.field(n)
            if ctype(unwrap(obj)) != "marker":
                raise Unsupported("member of " + ctype(unwrap(obj)), n)
            o = unwrap(obj)
            if o.get("kind") == "DeclRefExpr":      # lambda parameter
                return "%s.%s" % (self.expr(o), fld)
            pos = self.elem_pos(o)
            m = self.bind("Vec.get %s %s" % (self.vec, pos))
            return "%s.%s" % (m, fld)
        if k == "CXXMemberCallExpr":
            name, obj, args = self.member_call(n)
            if not self.is_vec(obj):
                raise Unsupported("method of something else than the grid", n)
            if name == "size" and not args:
                return "%s.length" % self.vec
            if name == "empty" and not args:
                return "%s.isEmpty" % self.vec
            if name == "begin" and not args:
                return "(Vec.ibegin %s)" % self.vec
            if name == "end" and not args:
                return "(Vec.iend %s)" % self.vec
            raise Unsupported("method " + str(name), n)
        if k == "CXXOperatorCallExpr":
            name = callee_name(n)
            a = ks[1:]
            if name in ("operator!=", "operator==") and len(a) == 2 and ctype(unwrap(a[0])) == "iter" == ctype(unwrap(a[1])):
                return "(decide (%s %s %s))" % (self.expr(a[0]), "≠" if name == "operator!=" else "=", self.expr(a[1]))
            if name in ("operator+", "operator-") and len(a) == 2 and ctype(unwrap(a[0])) == "iter" and ty == "iter" \
                    and ctype(unwrap(a[1])) in ("i32", "i64"):
                it, kk = self.expr(a[0]), self.expr(a[1])
                return self.bind("Vec.%s %s %s %s" % ("iterAdd" if name == "operator+" else "iterSub", self.vec, it, kk))
            raise Unsupported("operator call " + str(name), n)
        if k == "CallExpr":
            name = callee_name(n)
            if name == "find_if" and len(ks) == 4 and ty == "iter":
                b, e, lam = unwrap(ks[1]), unwrap(ks[2]), unwrap(ks[3])
                for node, want in ((b, "begin"), (e, "end")):
                    if node.get("kind") != "CXXMemberCallExpr":
                        raise Unsupported("find_if range", n)
                    nm, obj, args = self.member_call(node)
                    if nm != want or args or not self.is_vec(obj):
                        raise Unsupported("find_if range is not the whole grid", n)
                return "(Vec.findIf %s %s)" % (self.vec, self.lam(lam))
            raise Unsupported("call " + str(name), n)
        if k == "BinaryOperator":
            op = n["opcode"]
            lt, rt = ctype(unwrap(ks[0])), ctype(unwrap(ks[1]))
            if op in ("||", "&&"):
                a = self.expr(ks[0])
                s = self.sub()
                b = s.expr(ks[1])
                if not s.lines:
                    return "(%s %s %s)" % (a, op, b)
                return self.bind("Vec.%s %s (do %s; pure %s)" % ("orElse" if op == "||" else "andAlso", a,
                                                                    "; ".join(s.lines), b))
            if lt != rt:
                raise Unsupported("binary operator on %s and %s" % (lt, rt), n)
            a, b = self.expr(ks[0]), self.expr(ks[1])
            if lt in ("i32", "i64", "u64"):
                cmp_ = {"<": "<", "<=": "≤", ">": ">", ">=": "≥", "==": "=", "!=": "≠"}.get(op)
                if cmp_:
                    return "(decide (%s %s %s))" % (a, cmp_, b)
                if op in ("+", "-", "*"):
                    if lt == "u64":
                        return "(Cxx.U64.%s %s %s)" % ({"+": "add", "-": "sub", "*": "mul"}[op], a, b)
                    return self.bind("%s (%s %s %s)" % ("chk64" if lt == "i64" else "Vec.chk32", a, op, b))
                raise Unsupported("integer operator " + op, n)
            if lt == "f64":
                if op in ("<", "<=", ">", ">="):
                    f = "lt" if op in ("<", ">") else "le"
                    x, y = (a, b) if op in ("<", "<=") else (b, a)
                    return "(num.%s %s %s)" % (f, x, y)
                f = {"+": "add", "-": "sub", "*": "mul", "/": "div"}.get(op)
                if f:
                    return "(num.%s %s %s)" % (f, a, b)
                raise Unsupported("double operator " + op, n)
            raise Unsupported("binary operator on " + lt, n)
        raise Unsupported("expression " + str(k), n)

    def lam(self, n):
        if n.get("kind") != "LambdaExpr":
            raise Unsupported("predicate is not a lambda", n)
        rec = [c for c in kids(n) if c.get("kind") == "CXXRecordDecl"]
        body = [c for c in kids(n) if c.get("kind") == "CompoundStmt"]
        if len(rec) != 1 or len(body) != 1:
            raise Unsupported("lambda shape", n)
        call = [c for c in kids(rec[0]) if c.get("kind") == "CXXMethodDecl" and c.get("name") == "operator()"]
        if len(call) != 1:
            raise Unsupported("lambda operator()", n)
        ps = [c for c in kids(call[0]) if c.get("kind") == "ParmVarDecl"]
        if len(ps) != 1 or ctype(ps[0]) != "marker" or "&" not in ps[0]["type"].get("qualType", ""):
            raise Unsupported("lambda parameter", n)
        st = kids(body[0])
        if len(st) != 1 or st[0].get("kind") != "ReturnStmt":
            raise Unsupported("lambda body", n)
        s = self.sub()
        s.env[ps[0]["name"]] = ("marker", ps[0]["name"], 0)
        e = s.expr(kids(st[0])[0])
        if s.lines:
            raise Unsupported("lambda body with checked operations", n)
        return "(fun %s => %s)" % (ps[0]["name"], e)

    # ------------------------------------------------------------ statements
    def throw_class(self, s):
        """`throw std::X{..};` possibly inside `{ }` -> Exn constructor, else None."""
        s = unwrap(s)
        if s.get("kind") == "CompoundStmt":
            ks = kids(s)
            if len(ks) != 1:
                return None
            s = unwrap(ks[0])
        if s.get("kind") != "CXXThrowExpr":
            return None
        e = unwrap(kids(s)[0])
        q = (e.get("type", {}).get("qualType") or "").replace("class ", "")
        return THROWS.get(q)

    def returns_vec(self, s):
        s = unwrap(s)
        if s.get("kind") == "CompoundStmt":
            ks = kids(s)
            if len(ks) != 1:
                return False
            s = unwrap(ks[0])
        return s.get("kind") == "ReturnStmt" and len(kids(s)) == 1 and self.is_vec(kids(s)[0])

    def decl(self, v):
        if v.get("kind") != "VarDecl" or not kids(v):
            raise Unsupported("declaration", v)
        name, ty = v["name"], ctype(v)
        init = kids(v)[-1]
        u = unwrap(init)
        if ty == "f64" and u.get("kind") == "CallExpr" and callee_name(u) in ROUNDERS and len(kids(u)) == 2:
            arg = self.expr(kids(u)[1])
            outside = ROUNDERS[callee_name(u)]
            if outside:
                arg = "(Vec.outside \"%s\" %s)" % (outside, arg)
            lean = "%s_arg" % name
            self.lines.append("let %s := %s" % (lean, arg))
            self.env[name] = (Rounded(lean), lean, self.version)
            return
        if ty not in ("i32", "i64", "u64", "f64", "bool", "iter"):
            raise Unsupported("local of type " + ty, v)
        if ctype(u) != ty:
            raise Unsupported("initialiser of type %s for a local of type %s" % (ctype(u), ty), v)
        e = self.expr(init)
        self.lines.append("let %s := %s" % (name, e))
        self.env[name] = (ty, name, self.version)

    def assign(self, s):
        """`<elem>.f = e`, `<elem>.f -= e`, `<elem>.f += e`."""
        op = s.get("opcode")
        lhs, rhs = kids(s)
        obj, fld = self.field(lhs)
        fty = "i32" if fld == "index" else "f64"
        if ctype(unwrap(rhs)) != fty:
            raise Unsupported("assignment of %s to a field of type %s" % (ctype(unwrap(rhs)), fty), s)
        if s.get("kind") == "CompoundAssignOperator":
            for key in ("computeLHSType", "computeResultType"):
                if key in s and ctype({"type": s[key]}) != fty:
                    raise Unsupported("compound assignment computed in another type", s)
        pos = self.elem_pos(obj)
        if op == "=":
            e = self.expr(rhs)
        elif op in ("-=", "+=") and fld == "off":
            old = self.bind("Vec.get %s %s" % (self.vec, pos))
            e = self.expr(rhs)
            e = "(num.%s %s.off %s)" % ("sub" if op == "-=" else "add", old, e)
        else:
            raise Unsupported("assignment operator " + str(op), s)
        self.lines.append("let %s ← Vec.%s %s %s %s" % (self.vec, "setOff" if fld == "off" else "setIndex",
                                                       self.vec, pos, e))

    def stmt(self, s, toplevel):
        """Translate one statement; returns True when it ends the block (return)."""
        s = unwrap(s)
        k = s.get("kind")
        if k == "NullStmt":
            return False
        if k == "DeclStmt":
            for v in kids(s):
                self.decl(v)
            return False
        if k == "ReturnStmt":
            if not toplevel or not self.returns_vec(s):
                raise Unsupported("return", s)
            self.lines.append("pure %s" % self.vec)
            return True
        if k == "IfStmt":
            ks = kids(s)
            if len(ks) != 2 or s.get("hasElse") or s.get("hasInit") or s.get("hasVar"):
                raise Unsupported("if with else / init", s)
            cond, then = ks
            exn = self.throw_class(then)
            r = self.range_test(cond)
            if r is not None:
                if not exn or r.checked:
                    raise Unsupported("range test of a rounded double without throw", s)
                r.checked = r.arg.replace("_arg", "_i32")
                self.lines.append("let some %s := num.ceil32 %s | .throw .%s" % (r.checked, r.arg, exn))
                return False
            c = self.expr(cond)
            if exn:
                self.lines.append("if %s then .throw .%s else" % (c, exn))
                return False
            if toplevel and self.returns_vec(then):
                self.lines.append("if %s then pure %s else" % (c, self.vec))
                return False
            body = kids(then) if unwrap(then).get("kind") == "CompoundStmt" else [then]
            b = self.sub()
            for st in body:
                st = unwrap(st)
                if st.get("kind") in ("DeclStmt", "IfStmt", "ReturnStmt", "CompoundStmt"):
                    raise Unsupported("statement %s under a one-armed if" % st.get("kind"), st)
                b.stmt(st, False)
            self.lines.append("let %s ← (if %s then (do" % (self.vec, c))
            self.lines += ["    " + l for l in b.lines]
            self.lines.append("    pure %s) else pure %s)" % (self.vec, self.vec))
            self.version = b.version + 1
            return False
        if k == "CXXMemberCallExpr":
            name, obj, args = self.member_call(s)
            if name == "erase" and self.is_vec(obj) and len(args) == 2:
                a, b = self.expr(args[0]), self.expr(args[1])
                self.lines.append("let %s ← Vec.erase %s %s %s" % (self.vec, self.vec, a, b))
                self.version += 1
                return False
            raise Unsupported("call of method " + str(name), s)
        if k in ("BinaryOperator", "CompoundAssignOperator") and s.get("opcode") in ("=", "-=", "+="):
            self.assign(s)
            return False
        if k == "CXXThrowExpr":
            exn = self.throw_class(s)
            if not exn:
                raise Unsupported("throw of another class", s)
            self.lines.append(".throw .%s" % exn)
            return True
        if k == "CompoundStmt":
            if not toplevel:
                raise Unsupported("nested block", s)
            self.tr.nblocks += 1
            name = "normalize_block%d" % self.tr.nblocks
            b = Block(self.tr, self.vec, self.tr.params_env)
            for st in kids(s):
                if b.stmt(st, False):
                    raise Unsupported("block ends early", st)
            b.lines.append("pure %s" % self.vec)
            self.tr.defs.append((name, b.lines))
            self.lines.append("let %s ← %s num %s %s" % (self.vec, name, self.vec, self.tr.count))
            self.version += 1
            return False
        raise Unsupported("statement " + str(k), s)


class Translator:
    def __init__(self):
        self.n = 0
        self.nblocks = 0
        self.defs = []

    def function(self, decl):
        ps = [p for p in kids(decl) if p.get("kind") == "ParmVarDecl"]
        body = [p for p in kids(decl) if p.get("kind") == "CompoundStmt"]
        if len(ps) != 2 or len(body) != 1 or ctype(ps[0]) != "vec" or ctype(ps[1]) != "i64":
            raise Unsupported("signature", decl)
        if "&" in ps[0]["type"].get("qualType", ""):
            raise Unsupported("grid passed by reference", decl)
        rty = decl["type"]["qualType"].split("(")[0].strip()
        if ctype({"type": {"qualType": rty}}) != "vec":
            raise Unsupported("return type " + rty, decl)
        self.vec, self.count = ps[0]["name"], ps[1]["name"]
        self.params_env = {self.count: ("i64", self.count, 0)}
        top = Block(self, self.vec, self.params_env)
        done = False
        for s in kids(body[0]):
            if done:
                raise Unsupported("statement after return", s)
            done = top.stmt(s, True)
        if not done:
            raise Unsupported("no return", decl)
        sig = "{α : Type} (num : Num α) (%s : List (Marker α)) (%s : Int) : Res (List (Marker α))" % (self.vec, self.count)
        out = []
        for name, lines in self.defs:
            out.append("def %s %s := do" % (name, sig))
            out += ["  " + l for l in lines]
            out.append("")
        out.append("/-- `%s` as the source has it. -/" % FUNC)
        out.append("def normalize %s := do" % sig)
        out += ["  " + l for l in top.lines]
        return "\n".join(out)


def translate():
    src = os.path.join(REPO, SRC)
    docs = clang_ast(src, FUNC)
    fns = [d for d in docs if d.get("kind") == "FunctionDecl" and d.get("name") == FUNC
           and any(c.get("kind") == "CompoundStmt" for c in kids(d))]
    if len(fns) != 1:
        raise Unsupported("expected one definition of %s, found %d" % (FUNC, len(fns)))
    annotate(fns[0], SRC)
    body = Translator().function(fns[0])
    head = ["/- GENERATED by tools/tr_beatgrid.py from %s (%s) — do not edit." % (SRC, FUNC),
            "   Vocabulary: EngineModel/Pure/BeatgridVec.lean; mapping table: design/C20_gen.md. -/",
            "import EngineModel.Pure.BeatgridVec", "", "set_option linter.unusedVariables false", "",
            "namespace EngineModel.Gen.Beatgrid", "open EngineModel EngineModel.Pure.Beatgrid", ""]
    return "\n".join(head) + "\n" + body + "\n\nend EngineModel.Gen.Beatgrid\n"


def run():
    """TRANSLATORS entry of tools/props/C20.py: regenerate, fail closed."""
    try:
        txt = translate()
    except Unsupported as e:
        return "unsupported-node: %s; kept previous translation" % e
    old = open(TARGET).read() if os.path.exists(TARGET) else None
    if old != txt:
        open(TARGET, "w").write(txt)
        return "regenerated (changed)"
    return "regenerated (identical)"


def main():
    if "--table" in sys.argv:
        for a, b in TABLE:
            print("| `%s` | `%s` |" % (a.replace("|", "\\|"), b.replace("|", "\\|")))
        return 0
    st = run()
    print("translator: " + st)
    return 2 if st.startswith("unsupported") else 0


if __name__ == "__main__":
    sys.exit(main())
