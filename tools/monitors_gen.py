"""Generators shared by the monitor properties C14 / C16 / C10: track snapshots,
field values, and seeded histories of crate / track / membership operations in
the harness line protocol.  The histories are *self-consistent*: they only use
handles that exist, avoid re-parenting a crate under its own descendant (the
2.x recursive views would not terminate — C07/C15's subject), and keep values
inside the ranges where other properties' known defects do not crash the
library (rates >= 1, <= 8 slots, labels <= 40 bytes, grids of 0 or >= 2
increasing markers)."""
import random, struct

SCHEMAS_V1 = ["schema_1_6_0", "schema_1_7_1", "schema_1_9_1", "schema_1_11_1", "schema_1_13_0", "schema_1_13_1",
              "schema_1_13_2", "schema_1_15_0", "schema_1_17_0", "schema_1_18_0_desktop", "schema_1_18_0_os"]
SCHEMAS_V2 = ["schema_2_18_0", "schema_2_20_1", "schema_2_20_2", "schema_2_20_3", "schema_2_21_0", "schema_2_21_1",
              "schema_2_21_2"]
SCHEMAS = SCHEMAS_V1 + SCHEMAS_V2


def family(schema):
    return "v1" if schema.startswith("schema_1") else "v2"


def pick_schemas(tier, seed, per_family=2):
    """quick: the newest of each generation plus seeded others; thorough: all 18."""
    if tier == "thorough":
        return list(SCHEMAS)
    rng = random.Random(seed * 7919 + 5)
    out = []
    for fam in (SCHEMAS_V1, SCHEMAS_V2):
        chosen = [fam[-1]] + rng.sample(fam[:-1], per_family - 1)
        out += chosen
    return out


def hx(s):
    if isinstance(s, str):
        s = s.encode()
    return s.hex() if s else "-"


def fb(x):
    return struct.pack(">d", float(x)).hex()


NAMES = ["A", "B", "Cé", "Deep House", "x.y", "Äö", "r&b", "90s", "Z" * 30, "lo-fi", "Q", "mix 1", "mix 2"]
WORDS = ["Alpha", "Beta", "Gamma", "Delta", "Epsilon", "Zeta", "Eta", "Theta", "Iota", "Kappa", "Ünï", "x;y", ""]


def opt(rng, f, p_none=0.25):
    return None if rng.random() < p_none else f()


LABELS = [w for w in WORDS if w]


def gen_cue(rng):
    return ("some", rng.choice(LABELS)[:40], float(rng.randrange(0, 5000000)),
            (rng.randrange(256), rng.randrange(256), rng.randrange(256), rng.randrange(256)))


def gen_loop(rng):
    a = rng.randrange(0, 4000000)
    return ("some", rng.choice(LABELS)[:40], float(a), float(a + rng.randrange(1, 100000)),
            (rng.randrange(256), rng.randrange(256), rng.randrange(256), rng.randrange(256)))


def gen_grid(rng, sample_count):
    if rng.random() < 0.4:
        return []
    n = rng.choice([2, 2, 3, 5])
    sc = sample_count or 10000000
    offs = sorted(rng.sample(range(0, max(n + 1, int(sc))), n))
    idx = 0
    out = []
    for o in offs:
        out.append((idx, float(o)))
        idx += rng.randrange(1, 200)
    return out


def gen_wave(rng, n=None):
    n = rng.choice([0, 0, 1, 4, 16]) if n is None else n
    return bytes(rng.randrange(256) for _ in range(6 * n))


def gen_snapshot(rng, rich=None, path=None, full=False):
    """dict of the 26 snapshot fields (None = absent); full: every optional field present."""
    rich = True if full else (rng.random() < 0.7 if rich is None else rich)
    p = 0.0 if full else (0.15 if rich else 0.85)
    o = lambda f: opt(rng, f, p)
    sc = o(lambda: rng.randrange(44100, 30000000))
    sr = o(lambda: float(rng.choice([44100, 48000, 22050, 96000])))
    wave = gen_wave(rng) if (rich and sc and sr) else b""
    s = dict(
        album=o(lambda: rng.choice(WORDS)), artist=o(lambda: rng.choice(WORDS)),
        average_loudness=o(lambda: rng.choice([0.5, 0.25, 0.75, 0.1])),
        beatgrid=gen_grid(rng, sc) if rich else [],
        bitrate=o(lambda: rng.choice([128, 192, 256, 320, 1411])),
        bpm=o(lambda: rng.choice([120.0, 128.0, 90.5, 174.0, 60.25])),
        comment=o(lambda: rng.choice(WORDS)), composer=o(lambda: rng.choice(WORDS)),
        duration=o(lambda: rng.randrange(1, 900) * 1000),
        file_bytes=o(lambda: rng.randrange(1, 10 ** 9)),
        genre=o(lambda: rng.choice(WORDS)),
        hot_cues=[opt(rng, lambda: gen_cue(rng), 0.5) for _ in range(8)] if rich and rng.random() < 0.7 else [],
        key=o(lambda: rng.randrange(1, 25)),
        last_played_at=o(lambda: rng.randrange(1, 2000000000) * 10 ** 9),
        loops=[opt(rng, lambda: gen_loop(rng), 0.5) for _ in range(8)] if rich and rng.random() < 0.7 else [],
        main_cue=o(lambda: float(rng.randrange(1, 1000000))),
        publisher=o(lambda: rng.choice(WORDS)),
        rating=o(lambda: rng.choice([0, 20, 40, 60, 80, 100])),
        relative_path=path or "../Music/%s/%s.%s" % (rng.choice(["a", "b b", "c"]), rng.choice(WORDS[:10]) + str(rng.randrange(1000)),
                                                     rng.choice(["mp3", "flac", "wav", "m4a"])),
        sample_count=sc, sample_rate=sr,
        title=o(lambda: rng.choice(WORDS)),
        track_number=o(lambda: rng.randrange(1, 30)),
        waveform=wave,
        year=o(lambda: rng.randrange(1950, 2030)),
    )
    return s


def _ostr(v):
    return "none" if v is None else "s" + hx(v)


def _of(v):
    return "none" if v is None else fb(v)


def _oi(v):
    return "none" if v is None else str(int(v))


def cue_text(c):
    if c is None:
        return "none"
    return "some %s %s %d %d %d %d" % (hx(c[1]), fb(c[2]), *c[3])


def loop_text(l):
    if l is None:
        return "none"
    return "some %s %s %s %d %d %d %d" % (hx(l[1]), fb(l[2]), fb(l[3]), *l[4])


def grid_text(g):
    return " ".join([str(len(g))] + ["%d %s" % (i, fb(o)) for i, o in g])


def cues_text(cs):
    return " ".join([str(len(cs))] + [cue_text(c) for c in cs])


def loops_text(ls):
    return " ".join([str(len(ls))] + [loop_text(l) for l in ls])


def snap_text(s):
    return " ".join([
        _ostr(s["album"]), _ostr(s["artist"]), _of(s["average_loudness"]), grid_text(s["beatgrid"]),
        _oi(s["bitrate"]), _of(s["bpm"]), _ostr(s["comment"]), _ostr(s["composer"]), _oi(s["duration"]),
        _oi(s["file_bytes"]), _ostr(s["genre"]), cues_text(s["hot_cues"]), _oi(s["key"]), _oi(s["last_played_at"]),
        loops_text(s["loops"]), _of(s["main_cue"]), _ostr(s["publisher"]), _oi(s["rating"]),
        _ostr(s["relative_path"]), _oi(s["sample_count"]), _of(s["sample_rate"]), _ostr(s["title"]),
        _oi(s["track_number"]), hx(s["waveform"]), _oi(s["year"])])


SETTER_FIELDS = ["album", "artist", "average_loudness", "beatgrid", "bitrate", "bpm", "comment", "composer",
                 "duration", "genre", "hot_cues", "key", "last_played_at", "loops", "main_cue", "publisher",
                 "rating", "relative_path", "sample_count", "sample_rate", "title", "track_number", "waveform",
                 "year", "hot_cue_at", "loop_at"]


def setter_value(rng, field, cur=None):
    """value text for `set <t> <field> <value>`; chosen to differ from what a
    generated snapshot is likely to hold, so that the write is visible."""
    tag = "m%d" % rng.randrange(10 ** 6)
    if field in ("album", "artist", "comment", "composer", "genre", "publisher", "title"):
        return _ostr(rng.choice(WORDS[:8]) + tag) if rng.random() < 0.85 else "none"
    if field == "average_loudness":
        return _of(rng.choice([0.3, 0.6, 0.9]) + rng.randrange(1000) / 1e5)
    if field == "beatgrid":
        return grid_text(gen_grid(random.Random(rng.random()), 5000000) or [(0, 10.0 + rng.randrange(1000)), (8, 200000.0)])
    if field == "bitrate":
        return _oi(rng.randrange(64, 2000))
    if field == "bpm":
        return _of(rng.randrange(60, 190) + rng.choice([0.0, 0.5, 0.25]))
    if field == "duration":
        return _oi(rng.randrange(1000, 2000) * 1000)
    if field == "hot_cues":
        return cues_text([gen_cue(rng) if i == 0 else opt(rng, lambda: gen_cue(rng), 0.5) for i in range(8)])
    if field == "key":
        return _oi(rng.randrange(1, 25))
    if field == "last_played_at":
        return _oi(rng.randrange(1, 2000000000) * 10 ** 9)
    if field == "loops":
        return loops_text([gen_loop(rng) if i == 0 else opt(rng, lambda: gen_loop(rng), 0.5) for i in range(8)])
    if field == "main_cue":
        return _of(float(rng.randrange(1, 1000000)))
    if field == "rating":
        return _oi(rng.choice([10, 30, 50, 70, 90]))
    if field == "relative_path":
        return hx("../Moved/%s/%s.%s" % (tag, rng.choice(WORDS[:8]), rng.choice(["ogg", "aiff", "mp3"])))
    if field == "sample_count":
        return _oi(rng.randrange(50000, 20000000))
    if field == "sample_rate":
        return _of(float(rng.choice([32000, 88200, 11025, 44100, 48000])))
    if field == "track_number":
        return _oi(rng.randrange(31, 99))
    if field == "waveform":
        return hx(gen_wave(rng, rng.choice([2, 8])))
    if field == "year":
        return _oi(rng.randrange(1900, 1949))
    if field == "hot_cue_at":
        return "%d %s" % (rng.randrange(8), cue_text(gen_cue(rng)))
    if field == "loop_at":
        return "%d %s" % (rng.randrange(8), loop_text(gen_loop(rng)))
    raise KeyError(field)


ALL_OPS = ["create_root_crate", "create_root_crate_after", "create_sub_crate", "create_sub_crate_after", "crate.set_name",
           "crate.set_parent", "crate.set_parent(root)", "remove_crate", "crate.add_track", "crate.remove_track",
           "crate.clear_tracks", "create_track", "track.update", "remove_track"] + ["track.set_" + f for f in SETTER_FIELDS]


class Hist:
    """A history under construction.  Tracks which handles are live so that
    generated operations are applicable.  Lines are harness commands."""

    def __init__(self, rng, schema):
        self.rng, self.schema, self.fam = rng, schema, family(schema)
        self.lines = []
        self.crates = {}     # var -> parent var or None (live)
        self.tracks = []     # live track vars
        self.members = set()  # (crate var, track var)
        self.nc = self.nt = 0
        self.names = {}      # var -> name
        self.ops_used = {}
        self.op_names = []
        self.full_track = None   # a track created with every optional field present (every setter applies to it)

    def _count(self, op):
        self.ops_used[op] = self.ops_used.get(op, 0) + 1
        self.op_names.append(op)        # aligned with self.lines (every line is counted just before it is appended)

    def fresh_name(self, parent):
        used = {self.names[c] for c, p in self.crates.items() if p == parent}
        cand = [n for n in NAMES if n not in used]
        if cand and self.rng.random() < 0.9:
            return self.rng.choice(cand)
        return "n%d" % self.rng.randrange(10 ** 6)

    def descendants(self, c):
        out, todo = set(), [c]
        while todo:
            x = todo.pop()
            for k, p in self.crates.items():
                if p == x and k not in out:
                    out.add(k)
                    todo.append(k)
        return out

    def siblings(self, parent):
        return [c for c, p in self.crates.items() if p == parent]

    # ---- operation constructors: return (opname, line) and update the abstract state
    def op_mkroot(self):
        self.nc += 1
        v = "c%d" % self.nc
        n = self.fresh_name(None)
        self.crates[v], self.names[v] = None, n
        return "create_root_crate", "mkroot %s %s" % (v, hx(n))

    def op_mkroot_after(self):
        sib = self.siblings(None)
        if not sib:
            return None
        after = self.rng.choice(sib)
        self.nc += 1
        v = "c%d" % self.nc
        n = self.fresh_name(None)
        self.crates[v], self.names[v] = None, n
        return "create_root_crate_after", "mkroot_after %s %s %s" % (v, hx(n), after)

    def op_mksub(self, p=None, name=None):
        if not self.crates:
            return None
        p = p or self.rng.choice(sorted(self.crates))
        self.nc += 1
        v = "c%d" % self.nc
        n = name or self.fresh_name(p)
        self.crates[v], self.names[v] = p, n
        return "create_sub_crate", "mksub %s %s %s" % (v, p, hx(n))

    def op_mksub_after(self):
        cands = [c for c in self.crates if self.crates[c] is not None]
        if not cands:
            return None
        after = self.rng.choice(sorted(cands))
        p = self.crates[after]
        self.nc += 1
        v = "c%d" % self.nc
        n = self.fresh_name(p)
        self.crates[v], self.names[v] = p, n
        return "create_sub_crate_after", "mksub_after %s %s %s %s" % (v, p, hx(n), after)

    def op_rename(self):
        if not self.crates:
            return None
        c = self.rng.choice(sorted(self.crates))
        n = self.fresh_name(self.crates[c])
        self.names[c] = n
        return "crate.set_name", "rename %s %s" % (c, hx(n))

    def op_setparent(self, last_only=None, c=None, to_root=False):
        if len(self.crates) < 2:
            return None
        if to_root:
            # a crate that can become a root: it has a parent and no root crate carries its name
            roots = {self.names[s] for s in self.siblings(None)}
            el = sorted(x for x in self.crates if self.crates[x] is not None and self.names[x] not in roots)
            if not el:
                return None
            c = self.rng.choice(el)
            self.crates[c] = None
            return "crate.set_parent(root)", "setparent %s -" % c
        c = c or self.rng.choice(sorted(self.crates))
        bad = self.descendants(c) | {c}
        cands = [p for p in self.crates if p not in bad and p != self.crates[c]]
        # name clash under the new parent would be rejected on 2.x; avoid
        cands = [p for p in cands if self.names[c] not in {self.names[s] for s in self.siblings(p)}]
        to_root = self.crates[c] is not None and self.names[c] not in {self.names[s] for s in self.siblings(None)}
        choices = cands + (["-"] if to_root else [])
        if not choices:
            return None
        p = self.rng.choice(sorted(choices))
        self.crates[c] = None if p == "-" else p
        return ("crate.set_parent(root)" if p == "-" else "crate.set_parent"), "setparent %s %s" % (c, p)

    def op_rmcrate(self, c=None):
        if not self.crates:
            return None
        leaves = [c for c in self.crates if not self.descendants(c)]
        # mostly leaves (removing inner crates leaves orphans on the unrepaired tree: not our subject)
        c = c or self.rng.choice(sorted(leaves if leaves and self.rng.random() < 0.8 else self.crates))
        gone = self.descendants(c) | {c}
        for g in gone:
            self.crates.pop(g, None)
        self.members = {(a, b) for (a, b) in self.members if a not in gone}
        return "remove_crate", "rmcrate %s" % c

    def op_mktrack(self, rich=None, full=False):
        self.nt += 1
        v = "t%d" % self.nt
        s = gen_snapshot(self.rng, rich, path="../Music/lib/%s-%d.%s" % (v, self.rng.randrange(1000), self.rng.choice(["mp3", "flac", "wav"])), full=full)
        self.tracks.append(v)
        if full:
            self.full_track = v
        return "create_track", "mktrack %s %s" % (v, snap_text(s))

    def op_update(self):
        if not self.tracks:
            return None
        t = self.rng.choice(self.tracks)
        s = gen_snapshot(self.rng, None, path="../Music/upd/%s-%d.mp3" % (t, self.rng.randrange(1000)))
        return "track.update", "update %s %s" % (t, snap_text(s))

    def op_rmtrack(self, t=None):
        if not self.tracks:
            return None
        t = t or self.rng.choice(self.tracks)
        self.tracks.remove(t)
        self.members = {(a, b) for (a, b) in self.members if b != t}
        return "remove_track", "rmtrack %s" % t

    def op_set(self, field=None, t=None):
        if not self.tracks:
            return None
        t = t or self.rng.choice(self.tracks)
        field = field or self.rng.choice(SETTER_FIELDS)
        return "track.set_" + field, "set %s %s %s" % (t, field, setter_value(self.rng, field))

    def op_addtrack(self, c=None, t=None):
        if not self.crates or not self.tracks:
            return None
        c, t = c or self.rng.choice(sorted(self.crates)), t or self.rng.choice(self.tracks)
        self.members.add((c, t))
        return "crate.add_track", "addtrack %s %s" % (c, t)

    def op_rmtrackfrom(self, pair=None):
        if not self.members:
            return None
        c, t = pair or self.rng.choice(sorted(self.members))
        self.members.discard((c, t))
        return "crate.remove_track", "rmtrackfrom %s %s" % (c, t)

    def op_cleartracks(self, c=None):
        if not self.crates:
            return None
        withm = sorted({c for c, _ in self.members})
        c = c or self.rng.choice(withm if withm and self.rng.random() < 0.8 else sorted(self.crates))
        self.members = {(a, b) for (a, b) in self.members if a != c}
        return "crate.clear_tracks", "cleartracks %s" % c

    # ---- shape of the current state
    def members_of(self, c):
        return sorted(t for (a, t) in self.members if a == c)

    def crates_of(self, t):
        return sorted(c for (c, b) in self.members if b == t)

    def biggest_crate(self):
        """the crate holding the most tracks (None without memberships)"""
        cs = sorted(self.crates, key=lambda c: (-len(self.members_of(c)), c))
        return cs[0] if cs and self.members_of(cs[0]) else None

    def most_shared_track(self):
        ts = sorted(self.tracks, key=lambda t: (-len(self.crates_of(t)), t))
        return ts[0] if ts and self.crates_of(ts[0]) else None

    def heaviest_subtree(self):
        """a crate with sub-crates, preferring subtrees that hold many memberships"""
        def weight(c):
            sub = self.descendants(c)
            return (len(sub) > 0, sum(len(self.members_of(x)) for x in sub | {c}), len(sub))
        cs = sorted(self.crates, key=lambda c: tuple(-int(x) for x in weight(c)) + (c,))
        return cs[0] if cs and self.descendants(cs[0]) else None

    def shape(self):
        return {"crates": len(self.crates), "tracks": len(self.tracks), "memberships": len(self.members),
                "max_tracks_in_a_crate": max([len(self.members_of(c)) for c in self.crates] or [0]),
                "max_crates_of_a_track": max([len(self.crates_of(t)) for t in self.tracks] or [0]),
                "max_children": max([len(self.siblings(p)) for p in list(self.crates) + [None]] or [0]),
                "max_subtree": max([len(self.descendants(c)) for c in self.crates] or [0])}

    def enrich(self, k=3):
        """Make the state non-degenerate for the multi-row operations: a crate holding >= k tracks (clear_tracks,
        remove_track of a middle member), a track held by >= k crates (remove_track), a crate with >= 2 sub-crates that
        hold tracks themselves (remove_crate of a subtree, set_parent of a middle sibling), >= k root crates."""
        def go(g, **kw):
            r = getattr(self, "op_" + g)(**kw)
            if r:
                self._count(r[0])
                self.lines.append(r[1])
            return r
        if self.full_track not in self.tracks:
            go("mktrack", full=True)
        while len(self.tracks) < k:
            go("mktrack", rich=False)
        while len([c for c in self.crates if self.crates[c] is None]) < k:
            go("mkroot")
        big = self.biggest_crate() or sorted(self.crates)[0]
        for t in self.tracks:
            if len(self.members_of(big)) >= k:
                break
            if (big, t) not in self.members:
                go("addtrack", c=big, t=t)
        t0 = self.most_shared_track() or self.tracks[0]
        for c in sorted(self.crates):
            if len(self.crates_of(t0)) >= k:
                break
            if (c, t0) not in self.members:
                go("addtrack", c=c, t=t0)
        # a subtree: parent (holding tracks) with two sub-crates holding tracks
        par = big
        while len(self.siblings(par)) < 2:
            go("mksub", p=par)
        for ch in sorted(self.siblings(par))[:2]:
            for t in self.tracks[:2]:
                if (ch, t) not in self.members:
                    go("addtrack", c=ch, t=t)
        # a sub-crate that can be moved to the root (no root crate has its name)
        roots = {self.names[s] for s in self.siblings(None)}
        if not any(self.crates[x] is not None and self.names[x] not in roots for x in self.crates):
            go("mksub", p=par, name="u%d" % self.rng.randrange(10 ** 6))
        return self

    def sweep(self):
        """One instance of EVERY public mutating operation on the current state: the 26 setters (on the track that has
        every optional field), then every crate / track / membership operation, each group in random order."""
        def go(g, **kw):
            r = getattr(self, "op_" + g)(**kw)
            if r:
                self._count(r[0])
                self.lines.append(r[1])
            return r
        if self.full_track not in self.tracks:
            go("mktrack", full=True)
        fields = list(SETTER_FIELDS)
        self.rng.shuffle(fields)
        for f in fields:
            go("set", field=f, t=self.full_track)
        rest = [("rename", {}), ("setparent", {}), ("setparent", {"to_root": True}), ("mkroot", {}), ("mkroot_after", {}),
                ("mksub", {}), ("mksub_after", {}), ("mktrack", {}), ("update", {}), ("addtrack", {}), ("rmtrackfrom", {}),
                ("cleartracks", "biggest"), ("rmtrack", {}), ("rmcrate", {})]
        self.rng.shuffle(rest)
        for g, kw in rest:
            if kw == "biggest":
                kw = {"c": self.biggest_crate()}    # chosen when it runs: an earlier call may have removed crates
            if g == "setparent" and not kw:
                for _ in range(12):     # a re-parenting under another crate (not to the root)
                    c = self.clone()
                    c.rng = self.rng
                    r = c.op_setparent()
                    if r and r[0] == "crate.set_parent":
                        break
                else:
                    continue
                # replay the successful choice on self
                v, p_ = r[1].split(" ")[1:3]
                self.crates[v] = p_
                self._count(r[0])
                self.lines.append(r[1])
                continue
            go(g, **kw)
        return self

    GENERATORS = ["mkroot", "mkroot_after", "mksub", "mksub_after", "rename", "setparent", "rmcrate", "mktrack",
                  "update", "rmtrack", "set", "addtrack", "rmtrackfrom", "cleartracks"]
    WEIGHTS = [3, 1, 4, 1, 2, 2, 1, 3, 1, 1, 5, 4, 1, 1]

    def step(self, only=None, **kw):
        for _ in range(20):
            g = only or self.rng.choices(self.GENERATORS, self.WEIGHTS)[0]
            r = getattr(self, "op_" + g)(**kw)
            if r:
                self._count(r[0])
                self.lines.append(r[1])
                return r
        return None

    def clone(self):
        import copy
        h = Hist(self.rng, self.schema)
        h.lines = list(self.lines)
        h.crates, h.tracks, h.members = dict(self.crates), list(self.tracks), set(self.members)
        h.nc, h.nt, h.names = self.nc, self.nt, dict(self.names)
        h.ops_used = dict(self.ops_used)
        h.full_track = self.full_track
        h.op_names = list(self.op_names)
        return h


def gen_history(rng, schema, n, seed_state=True, enrich=False, sweep=False):
    """A history of about n operations (first a few that guarantee crates,
    tracks and memberships exist).  enrich=True: finish with the operations that
    make the state non-degenerate for multi-row operations (see Hist.enrich);
    enrich="early": do that right after the seeding operations instead.
    sweep: then one instance of every public mutating operation (Hist.sweep),
    the random operations follow."""
    h = Hist(rng, schema)
    if seed_state:
        h.step("mkroot"); h.step("mktrack", rich=True); h.step("mksub"); h.step("mkroot")
        h.step("addtrack"); h.step("mktrack", rich=False)
    if enrich == "early":
        h.enrich()      # the random part then works on a state with multi-row crates / shared tracks / subtrees
    if sweep:
        h.sweep()       # every public mutating operation at least once
    while len(h.lines) < n:
        if not h.step():
            break
    if enrich is True:
        h.enrich()
    return h


# ------------------------------------------------------------------ directory shapes (C16 / C10: c16.probe)
import itertools

DIR_SHAPES = ["N0"] + ["".join(x) for x in itertools.product("avzg", "avzg", "aevzg")]
SHAPE_WORD = {"a": "absent", "v": "valid", "z": "zero bytes", "g": "garbage", "e": "present, empty"}

def shape_text(sh):
    if sh == "N0":
        return "no directory"
    return "m.db %s, p.db %s, Database2/ %s" % (SHAPE_WORD[sh[0]], SHAPE_WORD[sh[1]],
                                                 {"a": "absent", "e": "present and empty"}.get(sh[2], "with m.db " + SHAPE_WORD[sh[2]]))


def library_present(sh):
    """the library's own notion (engine_library_dir_utils.cpp): m.db or Database2/m.db is there"""
    return sh != "N0" and (sh[0] != "a" or sh[2] in "vzg")


def parse_probe(o):
    if not o.startswith("ok before="):
        return None
    head, l0, l1 = o[3:].split(" | ", 2)
    d = dict(t.split("=", 1) for t in head.split(" "))
    d["l0"], d["l1"] = l0, l1
    return d




def shape_of_listing(listing):
    """the shape letters of a directory from the harness listing ('m.db:<size>:<sha>,Database2/,...')"""
    if listing == "(no directory)":
        return "N0"
    st = {"m.db": "a", "p.db": "a", "Database2/m.db": "a"}
    d2 = False
    extra = []
    if listing != "(empty)":
        for it in listing.split(","):
            if it == "Database2/":
                d2 = True
                continue
            name, size, _ = it.rsplit(":", 2)
            if name not in st:
                extra.append(name)
                continue
            st[name] = "z" if size == "0" else ("g" if size == "4099" else "v")
    d = "a" if not d2 else ("e" if st["Database2/m.db"] == "a" else st["Database2/m.db"])
    return st["m.db"] + st["p.db"] + d + ("+" + "+".join(extra) if extra else "")


def answer_class(a, detail=True):
    """harness answer of a c16.probe -> the directory model's alphabet"""
    if a.startswith("throw:"):
        n = a[6:]
        if n.startswith("sqlite::"):
            return "throw:sqlite_error"
        return "throw:" + n.split("::")[-1]
    if a in ("0", "1", "created"):
        return a
    if a.startswith("loaded_schema_"):
        return a if detail else "loaded"
    return "loaded"       # load_and_observe: a full observation of the loaded library
