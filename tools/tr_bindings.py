#!/usr/bin/env python3
"""Translator for property C18: the binding tables of the schema-2.x table API.

Reads   src/djinterop/engine/v2/{track,playlist,playlist_entity,information}_table.cpp
        include/djinterop/engine/v2/{track,playlist,playlist_entity,information}_table.hpp
writes  lean/EngineModel/Gen/Bindings.lean:
  * the row members of each row struct with their declared types (header order);
  * per INSERT / UPDATE statement: the column list of the SQL text paired, in order, with the
    operands of the `<<` chain (row member + conversion, or a local constant);
  * per SELECT statement: column list -> lambda parameters (declared C++ type) -> positional
    aggregate initialiser of the row struct -> member in header order;
  * the `if (schema >= …) … else if … else …` thresholds selecting among the statements;
  * per get_*/set_* accessor: column string, template argument, blob codec, schema guard;
  * whether each remove() tests rows_modified().
A careful source-level parse (string literals, balanced brackets, top-level `<<` / `>>` operands).
Fails CLOSED: anything outside the recognised shapes raises Unsupported, the previous
Gen/Bindings.lean is left in place and the check relies on the correspondence tie.
"""
import os, re, sys
sys.path.insert(0, os.path.dirname(os.path.abspath(__file__)))
from common import *


class Unsupported(Exception):
    pass


V2SRC = "src/djinterop/engine/v2/"
V2INC = "include/djinterop/engine/v2/"

# ------------------------------------------------------------------ lexical helpers


def strip_comments(src):
    """Remove // and /* */ comments, keep string / char literals verbatim."""
    out, i, n = [], 0, len(src)
    while i < n:
        c = src[i]
        if c == '"' or c == "'":
            j = i + 1
            while j < n and src[j] != c:
                j += 2 if src[j] == "\\" else 1
            out.append(src[i:j + 1])
            i = j + 1
        elif src.startswith("//", i):
            while i < n and src[i] != "\n":
                i += 1
        elif src.startswith("/*", i):
            j = src.find("*/", i + 2)
            if j < 0:
                raise Unsupported("unterminated comment")
            i = j + 2
        else:
            out.append(c)
            i += 1
    return "".join(out)


OPEN, CLOSE = "([{", ")]}"


def scan(src, i, stop):
    """Advance from i at depth 0 until stop(src, j) holds at depth 0; returns j.  Skips strings."""
    depth, n = 0, len(src)
    while i < n:
        c = src[i]
        if c == '"' or c == "'":
            j = i + 1
            while j < n and src[j] != c:
                j += 2 if src[j] == "\\" else 1
            i = j + 1
            continue
        if depth == 0 and stop(src, i):
            return i
        if c in OPEN:
            depth += 1
        elif c in CLOSE:
            depth -= 1
            if depth < 0:
                raise Unsupported("unbalanced brackets")
        i += 1
    raise Unsupported("scan ran off the end")


def matching(src, i):
    """src[i] is an opening bracket: index of its partner."""
    assert src[i] in OPEN
    j = scan(src, i + 1, lambda s, k: s[k] in CLOSE)
    return j


def split_top(src, sep):
    """Split at top-level occurrences of the string `sep` (outside brackets and strings)."""
    parts, start, i, depth, n = [], 0, 0, 0, len(src)
    while i < n:
        c = src[i]
        if c == '"' or c == "'":
            j = i + 1
            while j < n and src[j] != c:
                j += 2 if src[j] == "\\" else 1
            i = j + 1
            continue
        if depth == 0 and src.startswith(sep, i):
            parts.append(src[start:i])
            i += len(sep)
            start = i
            continue
        if c in OPEN:
            depth += 1
        elif c in CLOSE:
            depth -= 1
        i += 1
    parts.append(src[start:])
    return parts


def ws(s):
    return " ".join(s.split())


def string_literals(expr):
    """An operand made only of adjacent string literals -> their concatenation, else None."""
    s, i, n, out = expr.strip(), 0, 0, []
    n = len(s)
    while i < n:
        if s[i].isspace():
            i += 1
            continue
        if s[i] != '"':
            return None
        j = i + 1
        buf = []
        while j < n and s[j] != '"':
            if s[j] == "\\":
                esc = s[j + 1]
                buf.append({"n": "\n", "t": "\t", '"': '"', "\\": "\\", "'": "'"}.get(esc, None) or _bad_escape(esc))
                j += 2
            else:
                buf.append(s[j])
                j += 1
        out.append("".join(buf))
        i = j + 1
    return "".join(out) if out else None


def _bad_escape(e):
    raise Unsupported("escape \\%s in SQL literal" % e)


# ------------------------------------------------------------------ C++ structure


def function_body(src, qualname, nparams=None):
    """Body (between the braces) and parameter text of the out-of-line definition `qualname(`
    (of the overload with `nparams` parameters, when given)."""
    hits = [m for m in re.finditer(r"\b" + re.escape(qualname) + r"\s*\(", src)]
    defs = []
    for m in hits:
        p0 = m.end() - 1
        p1 = matching(src, p0)
        k = p1 + 1
        tail = re.match(r"\s*(const)?\s*\{", src[k:])
        if tail:
            b0 = k + tail.end() - 1
            b1 = matching(src, b0)
            params = src[p0 + 1:p1]
            if nparams is not None and len([p for p in split_top(params, ",") if p.strip()]) != nparams:
                continue
            defs.append((params, src[b0 + 1:b1]))
    if len(defs) != 1:
        raise Unsupported("%s: %d definitions" % (qualname, len(defs)))
    return defs[0]


def db_statements(body, dbexpr="context_->db"):
    """Every `context_->db << …;` statement of a body, as operand lists."""
    stmts, i = [], 0
    while True:
        i = body.find(dbexpr, i)
        if i < 0:
            break
        after = body[i + len(dbexpr):].lstrip()
        if not after.startswith("<<"):
            i += len(dbexpr)
            continue
        j = scan(body, i, lambda s, k: s[k] == ";")
        stmts.append((i, body[i:j]))
        i = j
    return stmts


def parse_statement(text, dbexpr="context_->db"):
    """-> (sql, [operand…], extractor or None)"""
    sides = split_top(text, ">>")
    if len(sides) > 2:
        raise Unsupported("more than one >>")
    ops = [o.strip() for o in split_top(sides[0], "<<")]
    if ops[0] != dbexpr:
        raise Unsupported("statement does not start with the database")
    sql = string_literals(ops[1])
    if sql is None:
        raise Unsupported("SQL is not a plain string literal: " + ws(ops[1])[:60])
    return ws(sql), ops[2:], (sides[1].strip() if len(sides) == 2 else None)


def schema_chain(body, what):
    """`if (context_->schema >= engine_schema::A) {…} else if (… >= B) {…} else {…}` at the top
    level of a body -> [(threshold or None, block text)]."""
    m = re.search(r"\bif\s*\(\s*context_->schema\s*>=\s*engine_schema::(\w+)\s*\)\s*\{", body)
    if not m:
        raise Unsupported(what + ": no schema chain")
    out, pos = [], m.start()
    thr = m.group(1)
    b0 = m.end() - 1
    while True:
        b1 = matching(body, b0)
        out.append((thr, body[b0 + 1:b1]))
        rest = body[b1 + 1:]
        m2 = re.match(r"\s*else\s+if\s*\(\s*context_->schema\s*>=\s*engine_schema::(\w+)\s*\)\s*\{", rest)
        if m2:
            thr = m2.group(1)
            b0 = b1 + 1 + m2.end() - 1
            continue
        m3 = re.match(r"\s*else\s*\{", rest)
        if m3:
            b0 = b1 + 1 + m3.end() - 1
            b1 = matching(body, b0)
            out.append((None, body[b0 + 1:b1]))
            end = b1 + 1
        else:
            raise Unsupported(what + ": schema chain without a final else")
        break
    # nothing else in the function may talk to the database
    outside = body[:pos] + body[end:]
    if "context_->db <<" in ws(outside).replace("db<<", "db <<") and what != "allow-outside":
        if db_statements(outside):
            raise Unsupported(what + ": database statements outside the schema chain")
    return out, outside


SCHEMAS = {"schema_2_18_0": "s2_18_0", "schema_2_20_1": "s2_20_1", "schema_2_20_2": "s2_20_2",
           "schema_2_20_3": "s2_20_3", "schema_2_21_0": "s2_21_0", "schema_2_21_1": "s2_21_1",
           "schema_2_21_2": "s2_21_2"}


def lean_schema(name):
    if name is None:
        return "none"
    if name not in SCHEMAS:
        raise Unsupported("schema threshold " + name)
    return "(some .%s)" % SCHEMAS[name]


# ------------------------------------------------------------------ types and expressions

TP = "std::chrono::system_clock::time_point"
FIELD_TYPES = {
    "int64_t": "i64", "std::optional<int64_t>": "oi64", "std::optional<int32_t>": "oi32",
    "std::string": "str", "std::optional<std::string>": "ostr", "std::optional<double>": "odbl",
    "bool": "bool", TP: "time", "std::optional<%s>" % TP: "otime",
    "track_data_blob": "blob .track", "overview_waveform_data_blob": "blob .ovw",
    "beat_data_blob": "blob .beat", "quick_cues_blob": "blob .cues", "loops_blob": "blob .loops",
}
PARAM_TYPES = {
    "int64_t": "i64", "std::optional<int64_t>": "oi64", "std::optional<int32_t>": "oi32",
    "std::string": "str", "std::optional<std::string>": "ostr", "std::optional<double>": "odbl",
    "bool": "bool", "std::vector<std::byte>": "bytes",
}
BLOB_KINDS = {"track_data_blob": "track", "overview_waveform_data_blob": "ovw", "beat_data_blob": "beat",
              "quick_cues_blob": "cues", "loops_blob": "loops"}


def norm_type(t):
    t = ws(t)
    t = re.sub(r"\bconst\b", "", t).replace("&", "")
    return re.sub(r"\s+", "", t)


def struct_fields(hdr, struct):
    """Members of `struct DJINTEROP_PUBLIC <struct> { … }` up to the first function / friend."""
    m = re.search(r"struct\s+DJINTEROP_PUBLIC\s+" + struct + r"\s*\{", hdr)
    if not m:
        raise Unsupported("struct " + struct)
    b0 = m.end() - 1
    b1 = matching(hdr, b0)
    body = hdr[b0 + 1:b1]
    cut = len(body)
    for kw in ("friend", "public:", "private:"):
        k = body.find(kw)
        if k >= 0:
            cut = min(cut, k)
    fields = []
    for decl in body[:cut].split(";"):
        d = ws(decl)
        if not d:
            continue
        mm = re.match(r"^(.*\S)\s+(\w+)$", d)
        if not mm or "(" in d or "=" in d:
            raise Unsupported("member declaration: " + d[:60])
        ty = norm_type(mm.group(1))
        if ty not in FIELD_TYPES:
            raise Unsupported("member type " + ty)
        fields.append((mm.group(2), FIELD_TYPES[ty]))
    return fields


def write_operand(e, rowvar="row"):
    """One `<<` operand -> ('field', name, conv) | ('name', identifier)"""
    e = ws(e)
    m = re.fullmatch(rowvar + r"\.(\w+)", e)
    if m:
        return ("field", m.group(1), "direct")
    m = re.fullmatch(r"(?:djinterop::)?util::to_timestamp\(\s*" + rowvar + r"\.(\w+)\s*\)", e)
    if m:
        return ("field", m.group(1), "timestamp")
    m = re.fullmatch(r"(?:djinterop::)?util::to_ft\(\s*" + rowvar + r"\.(\w+)\s*\)", e)
    if m:
        return ("field", m.group(1), "toFt")
    m = re.fullmatch(rowvar + r"\.(\w+)\.to_blob\(\)", e)
    if m:
        return ("field", m.group(1), "toBlob")
    m = re.fullmatch(r"\w+", e)
    if m:
        return ("name", e)
    raise Unsupported("bound operand: " + e[:60])


def read_expr(e, params):
    """One aggregate-initialiser element -> (param index or None, conv / constant)"""
    e = ws(e)

    def idx(name):
        hits = [i for i, (_, n) in enumerate(params) if n == name]
        if len(hits) != 1:
            raise Unsupported("initialiser names unknown parameter " + name)
        return hits[0]
    m = re.fullmatch(r"\w+", e)
    if m and e == "LAST_EDIT_TIME_NONE":
        return (None, "epoch")
    if m:
        return (idx(e), "direct")
    if e == "std::nullopt":
        return (None, "noneOpt")
    m = re.fullmatch(r"std::move\(\s*(\w+)\s*\)", e)
    if m:
        return (idx(m.group(1)), "direct")
    m = re.fullmatch(r"(?:djinterop::)?util::to_time_point\(\s*(\w+)\s*\)", e)
    if m:
        return (idx(m.group(1)), "timePoint")
    m = re.fullmatch(r"(?:djinterop::)?util::parse_ft\(\s*(\w+)\s*\)", e)
    if m:
        return (idx(m.group(1)), "parseFt")
    m = re.fullmatch(r"(\w+)::from_blob\(\s*(\w+)\s*\)", e)
    if m and m.group(1) in BLOB_KINDS:
        return (idx(m.group(2)), "fromBlob .%s" % BLOB_KINDS[m.group(1)])
    raise Unsupported("initialiser element: " + e[:60])


# ------------------------------------------------------------------ SQL shapes

IDENT = r"[A-Za-z_][A-Za-z_0-9]*"


def sql_insert(sql):
    m = re.fullmatch(r"INSERT INTO (%s) ?\(([^()]*)\) ?VALUES ?\(([?, ]*)\)" % IDENT, sql)
    if not m:
        raise Unsupported("INSERT shape: " + sql[:80])
    cols = [c.strip() for c in m.group(2).split(",")]
    marks = [q.strip() for q in m.group(3).split(",")]
    if any(not re.fullmatch(IDENT, c) for c in cols) or any(q != "?" for q in marks) or len(cols) != len(marks):
        raise Unsupported("INSERT columns / placeholders")
    return m.group(1), cols


def sql_where(w):
    """`a = ? AND b = ?` -> [a, b]"""
    keys = []
    for part in re.split(r"\s+AND\s+", w.strip()):
        m = re.fullmatch(r"(%s) ?= ?\?" % IDENT, part.strip())
        if not m:
            raise Unsupported("WHERE shape: " + w[:60])
        keys.append(m.group(1))
    return keys


def sql_update(sql):
    m = re.fullmatch(r"UPDATE (%s) SET (.*?)(?: ?WHERE (.*))?" % IDENT, sql)
    if not m:
        raise Unsupported("UPDATE shape: " + sql[:80])
    cols = []
    for part in m.group(2).split(","):
        mm = re.fullmatch(r"(%s) ?= ?\?" % IDENT, part.strip())
        if not mm:
            raise Unsupported("SET shape: " + part.strip()[:60])
        cols.append(mm.group(1))
    keys = sql_where(m.group(3)) if m.group(3) else []
    return m.group(1), cols, keys


def sql_select(sql):
    m = re.fullmatch(r"SELECT (.*?) FROM (%s)(?: WHERE (.*))?" % IDENT, sql)
    if not m:
        raise Unsupported("SELECT shape: " + sql[:80])
    cols = [c.strip() for c in m.group(1).split(",")]
    if any(not re.fullmatch(IDENT, c) for c in cols):
        raise Unsupported("SELECT column list")
    keys = sql_where(m.group(3)) if m.group(3) else []
    return m.group(2), cols, keys


def sql_delete(sql):
    m = re.fullmatch(r"DELETE FROM (%s) WHERE (.*)" % IDENT, sql)
    if not m:
        raise Unsupported("DELETE shape: " + sql[:80])
    return m.group(1), sql_where(m.group(2))


# ------------------------------------------------------------------ statement -> binding rows


class Table:
    def __init__(self, prefix, table, fields, known_cols):
        self.prefix, self.table, self.fields = prefix, table, fields
        self.fnames = [f for f, _ in fields]
        self.known_cols = known_cols

    def col(self, c):
        if c not in self.known_cols:
            raise Unsupported("%s: unknown column %s" % (self.table, c))
        return "." + c

    def field(self, f):
        if f not in self.fnames:
            raise Unsupported("%s: unknown member %s" % (self.table, f))
        return "." + f


def lean_val_const(body, name):
    """A local `int64_t name = <integer literal>;` -> Lean Val."""
    m = re.search(r"\bint64_t\s+" + name + r"\s*=\s*(-?\d+)\s*;", body)
    if not m:
        raise Unsupported("bound name %s is not a local integer constant" % name)
    v = int(m.group(1))
    return "(.const (.int %s))" % (str(v) if v >= 0 else "(%d)" % v)


def write_bindings(tb, cols, operands, keys, key_operands_expected, body):
    """cols paired with the first len(cols) operands; the remaining operands must be exactly the
    expected key expressions."""
    if len(operands) != len(cols) + len(keys):
        raise Unsupported("%s: %d placeholders, %d operands" % (tb.table, len(cols) + len(keys), len(operands)))
    rows = []
    for c, e in zip(cols, operands):
        w = write_operand(e)
        if w[0] == "field":
            rows.append("⟨%s, .field %s .%s⟩" % (tb.col(c), tb.field(w[1]), w[2]))
        else:
            rows.append("⟨%s, %s⟩" % (tb.col(c), lean_val_const(body, w[1])))
    got = [ws(e) for e in operands[len(cols):]]
    if (keys, got) != key_operands_expected:
        raise Unsupported("%s: WHERE %s bound to %s, expected %s" % (tb.table, keys, got, key_operands_expected))
    return rows


def lambda_parts(extractor):
    m = re.match(r"\[&\]\s*\(", extractor)
    if not m:
        raise Unsupported("extractor is not a [&] lambda")
    p0 = m.end() - 1
    p1 = matching(extractor, p0)
    rest = extractor[p1 + 1:].lstrip()
    if not rest.startswith("{"):
        raise Unsupported("lambda body")
    b1 = matching(rest, 0)
    if rest[b1 + 1:].strip():
        raise Unsupported("text after lambda")
    params = []
    for p in split_top(extractor[p0 + 1:p1], ","):
        mm = re.match(r"^(.*\S)\s+(\w+)$", ws(p))
        if not mm:
            raise Unsupported("lambda parameter " + ws(p)[:60])
        ty = norm_type(mm.group(1))
        if ty not in PARAM_TYPES:
            raise Unsupported("lambda parameter type " + ty)
        params.append((PARAM_TYPES[ty], mm.group(2)))
    return params, rest[1:b1]


def read_bindings(tb, struct, cols, extractor):
    params, lbody = lambda_parts(extractor)
    if len(params) != len(cols):
        raise Unsupported("%s: %d selected columns, %d lambda parameters" % (tb.table, len(cols), len(params)))
    stm = [ws(s) for s in split_top(lbody, ";") if ws(s)]
    stm = [s for s in stm if not s.startswith("assert(")]
    if len(stm) != 1:
        raise Unsupported("%s: lambda body has %d statements" % (tb.table, len(stm)))
    m = re.match(r"result\s*=\s*" + struct + r"\s*\{", stm[0])
    if not m:
        raise Unsupported("%s: lambda does not assign %s{…}" % (tb.table, struct))
    b0 = m.end() - 1
    b1 = matching(stm[0], b0)
    if stm[0][b1 + 1:].strip():
        raise Unsupported("text after initialiser")
    elems = [e for e in split_top(stm[0][b0 + 1:b1], ",")]
    if len(elems) != len(tb.fields):
        raise Unsupported("%s: %d initialiser elements for %d members" % (tb.table, len(elems), len(tb.fields)))
    rows = []
    for (fname, _), e in zip(tb.fields, elems):
        i, k = read_expr(e, params)
        if i is None:
            rows.append("⟨.%s, .%s⟩" % (fname, k))
        else:
            rows.append("⟨.%s, .col %s .%s .%s⟩" % (fname, tb.col(cols[i]), params[i][0],
                                                      k if " " not in k else "(%s)" % k))
            if " " in k:
                rows[-1] = "⟨.%s, .col %s .%s (.%s)⟩" % (fname, tb.col(cols[i]), params[i][0], k)
    return rows


def lean_list(items, indent="    "):
    if not items:
        return "[]"
    return "[\n" + ",\n".join(indent + it for it in items) + "]"


# ------------------------------------------------------------------ per table

HELPERS_EXPECTED = [
    # (regex on the whitespace-normalised anonymous namespace of track_table.cpp, description)
    (r"template <typename ColumnType> ColumnType get_column\( sqlite::database& db, int64_t id, const std::string& column_name\) "
     r"\{ std::optional<ColumnType> result; auto sql = \"SELECT \" \+ column_name \+ \" FROM Track WHERE id = \?\"; "
     r"db << sql << id >> \[&\]\(ColumnType value\) \{ result = value; \}; if \(result\) return \*result; "
     r"throw track_row_id_error\{[^}]*\}; \}", "get_column"),
    (r"template <> std::chrono::system_clock::time_point get_column\( sqlite::database& db, int64_t id, const std::string& column_name\) "
     r"\{ auto timestamp = get_column<int64_t>\(db, id, column_name\); return djinterop::util::to_time_point\(timestamp\); \}",
     "get_column<time_point>"),
    (r"template <> std::optional<std::chrono::system_clock::time_point> get_column\( sqlite::database& db, int64_t id, const std::string& column_name\) "
     r"\{ auto timestamp = get_column<std::optional<int64_t>>\(db, id, column_name\); return djinterop::util::to_time_point\(timestamp\); \}",
     "get_column<optional<time_point>>"),
    (r"template <typename ColumnType> void set_column\( sqlite::database& db, int64_t id, const std::string& column_name, const ColumnType& value\) "
     r"\{ auto sql = \"UPDATE Track SET \" \+ column_name \+ \" = \? WHERE id = \?\"; db << sql << value << id; "
     r"if \(db.rows_modified\(\) > 0\) return; throw track_row_id_error\{[^}]*\}; \}", "set_column"),
    (r"template <> void set_column\( sqlite::database& db, int64_t id, const std::string& column_name, const std::chrono::system_clock::time_point& value\) "
     r"\{ auto timestamp = djinterop::util::to_timestamp\(value\); set_column<int64_t>\(db, id, column_name, timestamp\); \}",
     "set_column<time_point>"),
    (r"template <> void set_column\( sqlite::database& db, int64_t id, const std::string& column_name, const std::optional<std::chrono::system_clock::time_point>& value\) "
     r"\{ auto timestamp = djinterop::util::to_timestamp\(value\); set_column<std::optional<int64_t>>\(db, id, column_name, timestamp\); \}",
     "set_column<optional<time_point>>"),
]


def check_helpers(src):
    m = re.search(r"namespace\s*\{", src)
    if not m:
        raise Unsupported("helper namespace")
    b0 = m.end() - 1
    b1 = matching(src, b0)
    text = ws(src[b0 + 1:b1])
    rest = text
    for rx, what in HELPERS_EXPECTED:
        mm = re.search(rx, rest)
        if not mm:
            raise Unsupported("typed single-column helper changed: " + what)
        rest = rest[:mm.start()] + rest[mm.end():]
    if rest.strip():
        raise Unsupported("unrecognised code in the helper namespace: " + rest.strip()[:80])


THROW_MISSING = r"throw std::invalid_argument\{[^}]*\};"


def removes_check(body, table, keys, operands, tolerant=False):
    """remove(): a DELETE on `table` with the expected WHERE bound to the expected operands.
    Does the function report a missing row — `rows_modified() == 0` after the DELETE, or an
    `exists(id)` test up front — by throwing std::invalid_argument?  (tolerant: other statements,
    e.g. explicit cascades inside a transaction, may surround the DELETE.)"""
    found = None
    for pos, text in db_statements(body):
        sql, ops, ex = parse_statement(text)
        if not sql.startswith("DELETE FROM " + table + " "):
            if tolerant:
                continue
            raise Unsupported("%s remove: unexpected statement %s" % (table, sql[:40]))
        t, k = sql_delete(sql)
        if found is not None or k != keys or ex is not None:
            raise Unsupported("%s remove: DELETE shape" % table)
        found = (pos, text, [ws(o) for o in ops])
    if found is None:
        raise Unsupported("%s remove: no DELETE" % table)
    b = ws(body)
    after = ws(body[found[0] + len(found[1]):])
    rx_after = r"; if \(context_->db\.rows_modified\(\) == 0\) \{? ?" + THROW_MISSING + r" ?\}?"
    if found[2] == operands:
        if re.match(rx_after, after) and (tolerant or re.fullmatch(rx_after, after)):
            return True
        if re.match(r"if \(!exists\(%s\)\) \{? ?%s ?\}?" % (operands[0], THROW_MISSING), b):
            return True
        if "rows_modified" in b or "exists(" in b:
            raise Unsupported("%s remove: unrecognised missing-row test" % table)
        if tolerant or after in (";", ""):
            return False
        raise Unsupported("%s remove: code after the DELETE: %s" % (table, after[:80]))
    if tolerant:
        # the DELETE runs over a collection that starts with the requested id
        if re.match(r"if \(!exists\(%s\)\) \{? ?%s ?\}?" % (operands[0], THROW_MISSING), b):
            return True
        if "rows_modified" in b or "exists(" in b:
            raise Unsupported("%s remove: unrecognised missing-row test" % table)
        return False
    raise Unsupported("%s remove: DELETE bound to %s" % (table, found[2]))


def translate():
    rd = lambda p: strip_comments(open(os.path.join(REPO, p)).read())
    tsrc, thdr = rd(V2SRC + "track_table.cpp"), rd(V2INC + "track_table.hpp")
    psrc, phdr = rd(V2SRC + "playlist_table.cpp"), rd(V2INC + "playlist_table.hpp")
    esrc, ehdr = rd(V2SRC + "playlist_entity_table.cpp"), rd(V2INC + "playlist_entity_table.hpp")
    isrc, ihdr = rd(V2SRC + "information_table.cpp"), rd(V2INC + "information_table.hpp")

    tfields = struct_fields(thdr, "track_row")
    pfields = struct_fields(phdr, "playlist_row")
    efields = struct_fields(ehdr, "playlist_entity_row")
    ifields = struct_fields(ihdr, "information_row")
    names = open(os.path.join(LEAN, "EngineModel", "Table", "Names.lean")).read()

    def known(enum):
        m = re.search(r"inductive %s where(.*?)deriving" % enum, names, re.S)
        return set(re.findall(r"\|\s*(\w+)", m.group(1)))
    T = Table("T", "Track", tfields, known("TCol"))
    P = Table("P", "Playlist", pfields, known("PCol"))
    E = Table("E", "PlaylistEntity", efields, known("ECol"))
    I = Table("I", "Information", ifields, known("ICol"))
    for tb, enum in ((T, "TField"), (P, "PField"), (E, "EField"), (I, "IField")):
        extra = set(tb.fnames) - known(enum)
        if extra:
            raise Unsupported("%s: members unknown to the Spec: %s" % (tb.table, sorted(extra)))

    out = ["/- GENERATED by tools/tr_bindings.py from src/djinterop/engine/v2/*_table.cpp and",
           "   include/djinterop/engine/v2/*_table.hpp — do not edit. -/",
           "import EngineModel.Table.Names", "", "namespace EngineModel.Gen.Bindings", "open EngineModel.Table", ""]

    def emit_fields(name, ftype, fields):
        out.append("/-- members of the row struct, declaration order, declared types -/")
        out.append("def %s : List (%s × FTy) := %s\n" % (
            name, ftype, lean_list(["(.%s, .%s)" % (f, t) for f, t in fields])))
    emit_fields("trackFields", "TField", tfields)
    emit_fields("playlistFields", "PField", pfields)
    emit_fields("entityFields", "EField", efields)
    emit_fields("infoFields", "IField", ifields)

    # ---------------- track_table
    check_helpers(tsrc)
    _, body = function_body(tsrc, "track_table::add")
    if not re.search(r"if \(row\.id != TRACK_ROW_ID_NONE\) \{ throw track_row_id_error\{", ws(body)):
        raise Unsupported("track add: id guard")
    if not ws(body).endswith("return context_->db.last_insert_rowid();"):
        raise Unsupported("track add: return")
    chain, _ = schema_chain(body, "track add")
    branches = []
    for thr, blk in chain:
        st = db_statements(blk)
        if len(st) != 1 or ws(blk[st[0][0] + len(st[0][1]):]) != ";" or ws(blk[:st[0][0]]):
            raise Unsupported("track add: branch is not a single statement")
        sql, ops, ex = parse_statement(st[0][1])
        t, cols = sql_insert(sql)
        if t != "Track" or ex is not None:
            raise Unsupported("track add: statement")
        branches.append("(%s, %s)" % (lean_schema(thr), lean_list(write_bindings(T, cols, ops, [], ([], []), blk), "      ")))
    out.append("/-- track_table::add -/\ndef trackInsert : List (Option Schema2 × List (WB TCol TField)) := %s\n" % lean_list(branches, "  "))

    _, body = function_body(tsrc, "track_table::update")
    if not re.search(r"if \(row\.id == TRACK_ROW_ID_NONE\) \{ throw track_row_id_error\{", ws(body)):
        raise Unsupported("track update: id guard")
    chain, _ = schema_chain(body, "track update")
    branches = []
    for thr, blk in chain:
        st = db_statements(blk)
        if len(st) != 1 or ws(blk[st[0][0] + len(st[0][1]):]) != ";" or ws(blk[:st[0][0]]):
            raise Unsupported("track update: branch is not a single statement")
        sql, ops, ex = parse_statement(st[0][1])
        t, cols, keys = sql_update(sql)
        if t != "Track" or ex is not None:
            raise Unsupported("track update: statement")
        branches.append("(%s, %s)" % (lean_schema(thr),
                                     lean_list(write_bindings(T, cols, ops, keys, (["id"], ["row.id"]), blk), "      ")))
    out.append("/-- track_table::update (SET list; the WHERE is `id = ?` bound to `row.id`) -/\n"
               "def trackUpdate : List (Option Schema2 × List (WB TCol TField)) := %s\n" % lean_list(branches, "  "))

    params, body = function_body(tsrc, "track_table::get")
    if ws(params) != "int64_t id":
        raise Unsupported("track get: parameters")
    chain, outside = schema_chain(body, "track get")
    if ws(outside) != "std::optional<track_row> result; return result;":
        raise Unsupported("track get: code around the schema chain")
    branches = []
    for thr, blk in chain:
        st = db_statements(blk)
        if len(st) != 1 or ws(blk[st[0][0] + len(st[0][1]):]) != ";" or ws(blk[:st[0][0]]):
            raise Unsupported("track get: branch is not a single statement")
        sql, ops, ex = parse_statement(st[0][1])
        t, cols, keys = sql_select(sql)
        if t != "Track" or ex is None or keys != ["id"] or [ws(o) for o in ops] != ["id"]:
            raise Unsupported("track get: statement")
        branches.append("(%s, %s)" % (lean_schema(thr), lean_list(read_bindings(T, "track_row", cols, ex), "      ")))
    out.append("/-- track_table::get (the WHERE is `id = ?` bound to `id`) -/\n"
               "def trackSelect : List (Option Schema2 × List (RB TCol TField)) := %s\n" % lean_list(branches, "  "))

    _, body = function_body(tsrc, "track_table::remove")
    out.append("/-- track_table::remove tests rows_modified() -/\ndef trackRemoveChecks : Bool := %s\n"
               % ("true" if removes_check(body, "Track", ["id"], ["id"]) else "false"))

    getters, setters = [], []
    acc_types = dict(FIELD_TYPES)
    acc_types.pop("track_data_blob"), acc_types.pop("overview_waveform_data_blob"), acc_types.pop("beat_data_blob")
    acc_types.pop("quick_cues_blob"), acc_types.pop("loops_blob")
    guard_rx = r"if \(context_->schema < engine_schema::(\w+)\) throw djinterop::unsupported_operation\{[^}]*\}; "
    for fname, _ in tfields:
        if fname == "id":
            continue
        params, body = function_body(tsrc, "track_table::get_" + fname)
        if ws(params) != "int64_t id":
            raise Unsupported("get_%s: parameters" % fname)
        b = ws(body)
        g = re.match(guard_rx, b)
        guard = None
        if g:
            guard, b = g.group(1), b[g.end():]
        m = re.fullmatch(r"return get_column<(.*)>\( ?context_->db, id, \"(\w+)\"\);", b)
        mb = re.fullmatch(r"return (\w+)::from_blob\( ?get_column<std::vector<std::byte>>\( ?context_->db, id, \"(\w+)\"\)\);", b)
        if m and norm_type(m.group(1)) in acc_types:
            ty, col = acc_types[norm_type(m.group(1))], m.group(2)
        elif mb and mb.group(1) in BLOB_KINDS:
            ty, col = "blob .%s" % BLOB_KINDS[mb.group(1)], mb.group(2)
        else:
            raise Unsupported("get_%s: body %s" % (fname, b[:80]))
        getters.append("⟨.%s, %s, .%s, %s⟩" % (fname, T.col(col), ty if " " not in ty else "(%s)" % ty, lean_schema(guard)))
        if " " in ty:
            getters[-1] = "⟨.%s, %s, (.%s), %s⟩" % (fname, T.col(col), ty, lean_schema(guard))

        params, body = function_body(tsrc, "track_table::set_" + fname)
        ps = [ws(p) for p in split_top(params, ",")]
        if len(ps) != 2 or ps[0] != "int64_t id":
            raise Unsupported("set_%s: parameters" % fname)
        mm = re.match(r"^(.*\S)\s+(\w+)$", ps[1])
        argty, arg = norm_type(mm.group(1)), mm.group(2)
        b = ws(body)
        g = re.match(guard_rx, b)
        guard = None
        if g:
            guard, b = g.group(1), b[g.end():]
        m = re.fullmatch(r"set_column<(.*)>\( ?context_->db, id, \"(\w+)\", (\w+)\);", b)
        mb = re.fullmatch(r"set_column<std::vector<std::byte>>\( ?context_->db, id, \"(\w+)\", (\w+)\.to_blob\(\)\);", b)
        if m and norm_type(m.group(1)) in acc_types and m.group(3) == arg and argty == norm_type(m.group(1)):
            ty, col = acc_types[norm_type(m.group(1))], m.group(2)
        elif mb and mb.group(2) == arg and argty in BLOB_KINDS:
            ty, col = "blob .%s" % BLOB_KINDS[argty], mb.group(1)
        else:
            raise Unsupported("set_%s: body %s" % (fname, b[:80]))
        setters.append("⟨.%s, %s, %s, %s⟩" % (fname, T.col(col), ("(.%s)" % ty) if " " in ty else "." + ty, lean_schema(guard)))
    out.append("/-- track_table::get_<member> -/\ndef trackGetters : List (Acc TCol TField Schema2) := %s\n" % lean_list(getters, "  "))
    out.append("/-- track_table::set_<member> -/\ndef trackSetters : List (Acc TCol TField Schema2) := %s\n" % lean_list(setters, "  "))

    # ---------------- playlist_table
    _, body = function_body(psrc, "playlist_table::add")
    if not re.match(r"if \(row\.id != PLAYLIST_ROW_ID_NONE\) \{ throw playlist_row_id_error\{[^}]*\}; \} "
                    r"ensure_valid_name\(row\.title\); context_->db <<", ws(body)):
        raise Unsupported("playlist add: guards")
    if not ws(body).endswith("; return context_->db.last_insert_rowid();"):
        raise Unsupported("playlist add: return")
    st = db_statements(body)
    if len(st) != 1:
        raise Unsupported("playlist add: statements")
    sql, ops, ex = parse_statement(st[0][1])
    t, cols = sql_insert(sql)
    if t != "Playlist" or ex is not None:
        raise Unsupported("playlist add: statement")
    out.append("/-- playlist_table::add -/\ndef playlistInsert : List (WB PCol PField) := %s\n"
               % lean_list(write_bindings(P, cols, ops, [], ([], []), body), "  "))

    params, body = function_body(psrc, "playlist_table::get")
    st = db_statements(body)
    if ws(params) != "int64_t id" or len(st) != 1 or \
            ws(body[:st[0][0]]) != "std::optional<playlist_row> result;" or \
            ws(body[st[0][0] + len(st[0][1]):]) != "; return result;":
        raise Unsupported("playlist get: shape")
    sql, ops, ex = parse_statement(st[0][1])
    t, cols, keys = sql_select(sql)
    if t != "Playlist" or ex is None or keys != ["id"] or [ws(o) for o in ops] != ["id"]:
        raise Unsupported("playlist get: statement")
    out.append("/-- playlist_table::get -/\ndef playlistSelect : List (RB PCol PField) := %s\n"
               % lean_list(read_bindings(P, "playlist_row", cols, ex), "  "))

    _, body = function_body(psrc, "playlist_table::update")
    simple = full = None
    for _, text in db_statements(body):
        sql, ops, ex = parse_statement(text)
        if sql.startswith("UPDATE Playlist SET title = ?"):
            t, cols, keys = sql_update(sql)
            if keys not in (["Id"], ["id"]):
                raise Unsupported("playlist update: WHERE")
            rows = write_bindings(P, cols, ops, keys, (keys, ["row.id"]), body)
            if "parentListId" in cols:
                if full is not None:
                    raise Unsupported("playlist update: two full updates")
                full = rows
            else:
                if simple is not None:
                    raise Unsupported("playlist update: two simple updates")
                simple = rows
    if simple is None or full is None:
        raise Unsupported("playlist update: statements not found")
    out.append("/-- playlist_table::update, position unchanged -/\ndef playlistUpdateSimple : List (WB PCol PField) := %s\n" % lean_list(simple, "  "))
    out.append("/-- playlist_table::update, position changed (last statement) -/\ndef playlistUpdateFull : List (WB PCol PField) := %s\n" % lean_list(full, "  "))

    _, body = function_body(psrc, "playlist_table::remove")
    out.append("/-- playlist_table::remove tests rows_modified() -/\ndef playlistRemoveChecks : Bool := %s\n"
               % ("true" if removes_check(body, "Playlist", ["id"], ["id"], tolerant=True) else "false"))

    # ---------------- playlist_entity_table
    _, body = function_body(esrc, "playlist_entity_table::add_back")
    ins = None
    for _, text in db_statements(body):
        sql, ops, ex = parse_statement(text)
        if sql.startswith("INSERT"):
            if ins is not None:
                raise Unsupported("entity add_back: two INSERTs")
            t, cols = sql_insert(sql)
            if t != "PlaylistEntity" or ex is not None:
                raise Unsupported("entity add_back: statement")
            ins = write_bindings(E, cols, ops, [], ([], []), body)
    if ins is None:
        raise Unsupported("entity add_back: no INSERT")
    out.append("/-- playlist_entity_table::add_back -/\ndef entityInsert : List (WB ECol EField) := %s\n" % lean_list(ins, "  "))

    def entity_select(nparams, fn, exp_params, exp_keys, exp_ops, name, doc, lambda_struct="playlist_entity_row"):
        params, body = function_body(esrc, "playlist_entity_table::" + fn, nparams)
        st = db_statements(body)
        if ws(params) != exp_params or len(st) != 1:
            raise Unsupported("entity %s: shape" % fn)
        sql, ops, ex = parse_statement(st[0][1])
        t, cols, keys = sql_select(sql)
        if t != "PlaylistEntity" or ex is None or keys != exp_keys or [ws(o) for o in ops] != exp_ops:
            raise Unsupported("entity %s: statement" % fn)
        out.append("/-- playlist_entity_table::%s -/\ndef %s : List (RB ECol EField) := %s\n"
                   % (doc, name, lean_list(read_bindings(E, lambda_struct, cols, ex), "  ")))
        return body, st
    entity_select(2, "get", "int64_t list_id, int64_t track_id", ["listId", "trackId"], ["list_id", "track_id"],
                  "entitySelect", "get(list_id, track_id)")
    entity_select(3, "get", "int64_t list_id, int64_t track_id, const std::string& database_uuid",
                  ["listId", "trackId", "databaseUuid"], ["list_id", "track_id", "database_uuid"],
                  "entitySelect3", "get(list_id, track_id, database_uuid)")
    # get_for_list: the callback stores the row under its next_entity_id in a map, then the chain is
    # walked backwards from key PLAYLIST_ENTITY_NO_NEXT_ENTITY_ID (that walk is hand-modelled: eGetForList)
    params, body = function_body(esrc, "playlist_entity_table::get_for_list")
    st = db_statements(body)
    if ws(params) != "int64_t list_id" or len(st) != 1:
        raise Unsupported("entity get_for_list: shape")
    sql, ops, ex = parse_statement(st[0][1])
    t, cols, keys = sql_select(sql)
    if t != "PlaylistEntity" or ex is None or keys != ["listId"] or [ws(o) for o in ops] != ["list_id"]:
        raise Unsupported("entity get_for_list: statement")
    ex2 = re.sub(r"next_entity_id_map\s*\[\s*next_entity_id\s*\]\s*=\s*playlist_entity_row", "result = playlist_entity_row", ex)
    if ex2 == ex:
        raise Unsupported("entity get_for_list: the callback does not store the row under its next_entity_id")
    walk = ws(body[st[0][0] + len(st[0][1]):])
    walk_expected = ("; std::list<playlist_entity_row> results; if (next_entity_id_map.empty()) return results; "
                     "auto curr = next_entity_id_map.find(PLAYLIST_ENTITY_NO_NEXT_ENTITY_ID); "
                     "assert(curr != next_entity_id_map.end()); do { auto id = curr->second.id; "
                     "results.push_front(std::move(curr->second)); curr = next_entity_id_map.find(id); } "
                     "while (curr != next_entity_id_map.end()); return results;")
    if walk != walk_expected or ws(body[:st[0][0]]) != "std::unordered_map<int64_t, playlist_entity_row> next_entity_id_map;":
        raise Unsupported("entity get_for_list: the chain walk changed")
    out.append("/-- playlist_entity_table::get_for_list (per-row callback; the chain walk is Table/Lists.lean eGetForList) -/\n"
               "def entitySelectList : List (RB ECol EField) := %s\n"
               % lean_list(read_bindings(E, "playlist_entity_row", cols, ex2), "  "))

    # remove(list_id, entity_id): the WHERE clause is translated (column, index of the bound parameter)
    params, body = function_body(esrc, "playlist_entity_table::remove")
    ps = [ws(p) for p in split_top(params, ",")]
    if len(ps) != 2 or not all(re.fullmatch(r"int64_t \w+", p) for p in ps):
        raise Unsupported("entity remove: parameters")
    argnames = [ps[0].split()[1], ps[1].split()[1]]
    st = db_statements(body)
    if len(st) != 1:
        raise Unsupported("entity remove: statements")
    sql, ops, ex = parse_statement(st[0][1])
    t, keys = sql_delete(sql)
    if t != "PlaylistEntity" or ex is not None or len(ops) != len(keys):
        raise Unsupported("entity remove: statement")
    where = []
    for k, o in zip(keys, ops):
        if ws(o) not in argnames:
            raise Unsupported("entity remove: WHERE operand " + ws(o))
        where.append("(%s, %d)" % (E.col(k), argnames.index(ws(o))))
    before = ws(body[:st[0][0]])
    if before and not re.fullmatch(r"(\(void\) ?\w+; ?)*", before):
        raise Unsupported("entity remove: code before the DELETE: " + before[:60])
    after = ws(body[st[0][0] + len(st[0][1]):])
    rx_after = r"; if \(context_->db\.rows_modified\(\) == 0\) \{? ?" + THROW_MISSING + r" ?\}?"
    if re.fullmatch(rx_after, after):
        checks = True
    elif after in (";", ""):
        checks = False
    else:
        raise Unsupported("entity remove: code after the DELETE: " + after[:80])
    out.append("/-- playlist_entity_table::remove: `DELETE … WHERE col = ? AND …`, each column with the index of the\n"
               "function parameter bound to its placeholder (0 = list_id, 1 = entity_id) -/\n"
               "def entityRemoveWhere : List (ECol × Nat) := [%s]\n" % ", ".join(where))
    out.append("/-- playlist_entity_table::remove tests rows_modified() -/\ndef entityRemoveChecks : Bool := %s\n"
               % ("true" if checks else "false"))

    # ---------------- information_table
    params, body = function_body(isrc, "information_table::get")
    st = db_statements(body)
    if ws(params) != "" or len(st) != 1:
        raise Unsupported("information get: shape")
    sql, ops, ex = parse_statement(st[0][1])
    t, cols, keys = sql_select(sql)
    if t != "Information" or ex is None or keys or ops:
        raise Unsupported("information get: statement")
    out.append("/-- information_table::get -/\ndef infoSelect : List (RB ICol IField) := %s\n"
               % lean_list(read_bindings(I, "information_row", cols, ex), "  "))
    params, body = function_body(isrc, "information_table::update_current_played_indicator")
    st = db_statements(body)
    mm = re.fullmatch(r"int64_t (\w+)", ws(params))
    if not mm or len(st) != 1:
        raise Unsupported("information update: shape")
    sql, ops, ex = parse_statement(st[0][1])
    t, cols, keys = sql_update(sql)
    if t != "Information" or keys or ex is not None or len(cols) != 1 or [ws(o) for o in ops] != [mm.group(1)]:
        raise Unsupported("information update: statement")
    out.append("/-- information_table::update_current_played_indicator writes this column of every row -/\n"
               "def infoSetCpi : ICol := %s\n" % I.col(cols[0]))

    out += ["end EngineModel.Gen.Bindings", ""]
    return "\n".join(out)


def main():
    target = os.path.join(LEAN, "EngineModel", "Gen", "Bindings.lean")
    try:
        txt = translate()
    except Unsupported as e:
        print("translator: unsupported-node: %s" % e)
        return 2
    old = open(target).read() if os.path.exists(target) else None
    if old != txt:
        open(target, "w").write(txt)
        print("translator: regenerated (changed)")
    else:
        print("translator: regenerated (identical)")
    return 0


if __name__ == "__main__":
    sys.exit(main())
