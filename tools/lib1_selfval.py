#!/usr/bin/env python3
"""lib1_selfval.py [patch.diff ...]  — seeded self-validation of the composite-v1 parts ONLY.

For every patch under seeded/self-lib1 (or the ones named): apply it to ONE scratch worktree of /repo (never /repo
itself), build the harness from it (VERIF_REPO / VERIF_BUILD), run the ties of C08_lib1 / C10_lib1 / C11_lib1 / C16_lib1
(quick tier, seed 1) and print per part: green, DIVERGENCE only (model != library, no oracle verdict) or VIOLATION (direct
oracle, with the tag and the shortest recorded history, saved next to the patch)."""
import glob, json, os, shutil, subprocess, sys
HERE = os.path.dirname(os.path.abspath(__file__))
VERIF = os.path.dirname(HERE)
BASE = "/tmp/lib1-selfval"

CHILD = r'''
import sys, json
sys.path.insert(0, %r)
import build
b = build.build_all() if hasattr(build, "build_all") else None
class Ctx: tier = "quick"; seed = 1
from props.parts import C08_lib1, C10_lib1, C11_lib1, C16_lib1
out = {}
for P in (C11_lib1, C08_lib1, C16_lib1, C10_lib1):
    r = P.tie(Ctx())
    out[P.__name__.split(".")[-1]] = {"ok": r["ok"], "div": len(r["divergences"]), "first_div": (r["divergences"] or [None])[0],
        "vio": [{"tag": v["header"].get("oracle"), "what": v["header"]["what"], "schema": v["header"].get("schema"), "body": v["body"]} for v in r["violations"]]}
print("RESULT " + json.dumps(out))
''' % HERE


def sh(cmd, **kw):
    return subprocess.run(cmd, shell=True, stdout=subprocess.PIPE, stderr=subprocess.STDOUT, text=True, **kw)


def main():
    patches = sys.argv[1:] or sorted(glob.glob(os.path.join(VERIF, "seeded", "self-lib1", "*.diff")))
    wt, bd = os.path.join(BASE, "wt"), os.path.join(BASE, "build")
    os.makedirs(BASE, exist_ok=True)
    if not os.path.isdir(wt):
        r = sh("git -C /repo worktree add --detach %s HEAD" % wt)
        if r.returncode != 0:
            raise SystemExit(r.stdout)
    head = sh("git -C /repo rev-parse HEAD").stdout.strip()
    summary = {}
    try:
        for p in patches:
            name = os.path.basename(p)[:-5]
            sh("git -C %s checkout -q -- . && git -C %s clean -fdq && git -C %s checkout -q --detach %s" % (wt, wt, wt, head))
            r = sh("git -C %s apply %s" % (wt, os.path.abspath(p)))
            if r.returncode != 0:
                print("%-45s PATCH DOES NOT APPLY: %s" % (name, r.stdout.strip()[:200]))
                continue
            env = dict(os.environ, VERIF_REPO=wt, VERIF_BUILD=bd, VERIF_SEED="1")
            b = subprocess.run([sys.executable, os.path.join(HERE, "build.py")], env=env, cwd=VERIF, stdout=subprocess.PIPE,
                               stderr=subprocess.STDOUT, text=True)
            if b.returncode != 0 or '"ok": true' not in b.stdout:
                print("%-45s BUILD FAILED %s" % (name, b.stdout[-300:]))
                continue
            r = subprocess.run([sys.executable, "-c", CHILD], env=env, cwd=os.path.join(VERIF, "tools"), stdout=subprocess.PIPE,
                               stderr=subprocess.PIPE, text=True)
            line = [l for l in r.stdout.split("\n") if l.startswith("RESULT ")]
            if not line:
                print("%-45s RUN FAILED %s" % (name, (r.stdout + r.stderr)[-400:]))
                continue
            res = json.loads(line[0][7:])
            summary[name] = {}
            for part, v in res.items():
                if v["vio"]:
                    verdict = "VIOLATION " + ",".join(sorted({x["tag"] or "?" for x in v["vio"]}))
                    x = min(v["vio"], key=lambda z: len(z["body"]))
                    with open(os.path.join(os.path.dirname(os.path.abspath(p)), "replay_%s_%s.txt" % (name, part)), "w") as f:
                        f.write("# %s  schema=%s  oracle=%s\n# %s\n" % (name, x["schema"], x["tag"], x["what"][:400]))
                        f.write("\n".join(x["body"]) + "\n")
                elif v["div"]:
                    verdict = "divergence only (%s)" % (v["first_div"]["input"][:60] if v["first_div"] else "")
                else:
                    verdict = "green"
                summary[name][part] = verdict
            print("%-45s %s" % (name, "  |  ".join("%s: %s" % (k, summary[name][k]) for k in sorted(summary[name]))))
            sys.stdout.flush()
    finally:
        sh("git -C %s checkout -q -- . && git -C %s clean -fdq" % (wt, wt))
    with open(os.path.join(VERIF, "seeded", "self-lib1", "results.json"), "w") as f:
        json.dump(summary, f, indent=1, sort_keys=True)


if __name__ == "__main__":
    main()
