#!/usr/bin/env python3
"""Translator: the schema-2.x blob codecs  src/djinterop/engine/v2/*_blob.cpp
->  lean/EngineModel/Gen/ImplV2Gen.lean  (definitions over the cursor monad of
lean/EngineModel/Impl/Cursor.lean + CursorCxx.lean).

The model of the byte-level decoders is *regenerated from clang's typed AST* on
every run; lean/Proofs/ImplV2Gen.lean proves each regenerated definition equal
to the hand-written mirror Impl.V2.*, so that the C02..C05 theorems (stated on
the hand model) are about the code that is in /repo now: a change of the C++
that changes the translation breaks `lake build`.

Fragment (anything else -> `unsupported-node: <kind> at <file:line>`, the
function's previous translation is kept, nothing else is touched):

  declarations      `const auto buf = zlib_uncompress(blob)`, `auto ptr = buf.data()`,
                    `const auto end = ptr + buf.size()`, locals of scalar / struct /
                    vector type without initialiser, `T x{}`
  reads             `std::tie(lv, ptr) = decode_<prim>(ptr)`, `= decode_extra(ptr, end)`,
                    `= <translated helper>(ptr, end)`
  guards            `if (cond) { throw std::<exception>{...}; }`
  conditions        integer literals, locals, `buf.size()`, `end - ptr`, + - * / on signed
                    64/32-bit (checked), comparisons, `||`, `&&` (short-circuit), integral casts
  loops             `for (int64_t i = 0; i < n; ++i) { ...; v.push_back(x); }` (i unused),
                    `v.resize(n); for (auto& e : v) { ... }`
  strings           `s.assign(reinterpret_cast<const char*>(ptr), n)`, `ptr += n`
  one-armed `if`    `if (cond) { assignments }` (joined on the variables it assigns)
  other             `v.reserve(n)`, `assert(..)` under NDEBUG, `return result;`,
                    `return {std::move(result), ptr};`

What is trusted: clang's AST, and the mapping of each node kind to a combinator
(design/codegen.md lists it).  The C++ struct <-> Lean structure correspondence
(STRUCTS below) is part of the mapping.
"""
import json, os, re, subprocess, sys
from concurrent.futures import ThreadPoolExecutor
sys.path.insert(0, os.path.dirname(os.path.abspath(__file__)))
from common import *

V2DIR = "src/djinterop/engine/v2/"
TARGET = os.path.join(LEAN, "EngineModel", "Gen", "ImplV2Gen.lean")
DEFINES = ["-DNDEBUG", "-D_GLIBCXX_ASSERTIONS", "-DDJINTEROP_SOURCE", "-DDjInterop_EXPORTS", "-DDJINTEROP_VERIF"]


class Unsupported(Exception):
    def __init__(self, kind, node=None, where=None):
        self.kind = kind
        self.where = where or (node.get("_loc") if isinstance(node, dict) else None) or "?"
        Exception.__init__(self, "%s at %s" % (kind, self.where))


# ---------------------------------------------------------------- tables (the trusted mapping)

# primitive readers of encode_decode_utils.hpp: name -> (codec, C type of the value)
# (the Lean readers / writers are those of Impl/CxxPrims.lean, written from the C++ shifts and masks;
#  they are NOT the Spec's primitive codecs — agreement is proved in Proofs/CxxPrimsLemmas.lean)
PRIMS = "CxxPrims."
PRIM_DEC = {
    "decode_uint8": "u8", "decode_int32_le": "i32", "decode_int32_be": "i32",
    "decode_int64_le": "i64", "decode_int64_be": "i64", "decode_double_le": "f64", "decode_double_be": "f64",
}
# primitive writers: name -> (codec, C type of the value)
PRIM_ENC = {
    "encode_uint8": "u8", "encode_int32_le": "i32", "encode_int32_be": "i32",
    "encode_int64_le": "i64", "encode_int64_be": "i64", "encode_double_le": "f64", "encode_double_be": "f64",
}
# Lean representation of a C scalar held in a variable: the wire bit pattern
LEAN_OF = {"u8": "UInt8", "i32": "UInt32", "i64": "UInt64", "f64": "UInt64", "bool": "Bool",
           "u64": "Nat", "string": "Bytes", "bytes": "Bytes"}
EXN = {"std::invalid_argument": ".invalid_argument", "std::length_error": ".length_or_alloc",
       "std::out_of_range": ".out_of_range", "std::runtime_error": ".runtime_error",
       "std::logic_error": ".logic_error"}

# C++ struct -> Lean value.  `fields`: (C++ member, kind) in the order of the
# `ctor` placeholders; kind = scalar C type | string | bytes | struct:<name> | vec:<name>.
# `extra` = the member holding the undecoded remainder (returned beside the value).
# `size` = sizeof on this ABI (x86-64 / libstdc++), for vector::max_size().
STRUCTS = {
    "track_data_blob": dict(
        ty="EngineModel.V2.Track", extra="extra_data",
        fields=[("sample_rate", "f64"), ("samples", "i64"), ("key", "i32"), ("average_loudness_low", "f64"),
                ("average_loudness_mid", "f64"), ("average_loudness_high", "f64")]),
    "overview_waveform_point": dict(
        ty="Bytes", size=3, ctor="[{low_value}, {mid_value}, {high_value}]",
        fields=[("low_value", "u8"), ("mid_value", "u8"), ("high_value", "u8")]),
    "overview_waveform_data_blob": dict(
        ty="EngineModel.V2.Ovw", extra="extra_data",
        ctor="⟨{samples_per_waveform_point}, List.flatten {waveform_points}, {maximum_point}⟩",
        fields=[("samples_per_waveform_point", "f64"), ("waveform_points", "vec:overview_waveform_point"),
                ("maximum_point", "struct:overview_waveform_point")]),
    "beat_grid_marker_blob": dict(
        ty="EngineModel.V2.Marker", size=24,
        fields=[("sample_offset", "f64"), ("beat_number", "i64"), ("number_of_beats", "i32"),
                ("unknown_value_1", "i32")]),
    "beat_data_blob": dict(
        ty="EngineModel.V2.Beat", extra="extra_data",
        fields=[("sample_rate", "f64"), ("samples", "f64"), ("is_beatgrid_set", "u8"),
                ("default_beat_grid", "vec:beat_grid_marker_blob"), ("adjusted_beat_grid", "vec:beat_grid_marker_blob")]),
    "pad_color": dict(
        ty="EngineModel.V2.Color", size=4,
        ctor="⟨{a}, {r}, {g}, {b}⟩",
        fields=[("r", "u8"), ("g", "u8"), ("b", "u8"), ("a", "u8")]),
    "quick_cue_blob": dict(
        ty="EngineModel.V2.Cue", size=48,
        fields=[("label", "string"), ("sample_offset", "f64"), ("color", "struct:pad_color")]),
    "quick_cues_blob": dict(
        ty="EngineModel.V2.Cues", extra="extra_data",
        fields=[("quick_cues", "vec:quick_cue_blob"), ("adjusted_main_cue", "f64"), ("is_main_cue_adjusted", "bool"),
                ("default_main_cue", "f64")]),
    "loop_blob": dict(
        ty="EngineModel.V2.Loop", size=56,
        fields=[("label", "string"), ("start_sample_offset", "f64"), ("end_sample_offset", "f64"),
                ("is_start_set", "u8"), ("is_end_set", "u8"), ("color", "struct:pad_color")]),
    "loops_blob": dict(
        ty="EngineModel.V2.Loops", extra="extra_data", ctor="{loops}",
        fields=[("loops", "vec:loop_blob")]),
}

# Encoder side: C++ member -> Lean projection of the holder `{0}` (the Lean structures of Format/V2.lean).
ENC_PROJ = {
    "track_data_blob": {"sample_rate": "{0}.sampleRate", "samples": "{0}.samples", "key": "{0}.key",
                        "average_loudness_low": "{0}.lo", "average_loudness_mid": "{0}.mid",
                        "average_loudness_high": "{0}.hi"},
    # the Lean value keeps the points as one flat byte list (3 bytes per point)
    "overview_waveform_point": {"low_value": "{0}.1", "mid_value": "{0}.2.1", "high_value": "{0}.2.2"},
    "overview_waveform_data_blob": {"samples_per_waveform_point": "{0}.spp",
                                    "waveform_points": "(Wr.triples {0}.points)",
                                    "maximum_point": "(Wr.triple {0}.maxPt)"},
    "beat_grid_marker_blob": {"sample_offset": "{0}.off", "beat_number": "{0}.beatNo",
                              "number_of_beats": "{0}.nBeats", "unknown_value_1": "{0}.unk"},
    "beat_data_blob": {"sample_rate": "{0}.sampleRate", "samples": "{0}.samples", "is_beatgrid_set": "{0}.isSet",
                       "default_beat_grid": "{0}.dflt", "adjusted_beat_grid": "{0}.adj"},
    "pad_color": {"r": "{0}.r", "g": "{0}.g", "b": "{0}.b", "a": "{0}.a"},
    "quick_cue_blob": {"label": "{0}.label", "sample_offset": "{0}.off", "color": "{0}.color"},
    "quick_cues_blob": {"quick_cues": "{0}.cues", "adjusted_main_cue": "{0}.adjMain",
                        "is_main_cue_adjusted": "{0}.isAdj", "default_main_cue": "{0}.defMain"},
    "loop_blob": {"label": "{0}.label", "start_sample_offset": "{0}.start", "end_sample_offset": "{0}.stop",
                  "is_start_set": "{0}.isStart", "is_end_set": "{0}.isEnd", "color": "{0}.color"},
    "loops_blob": {"loops": "{0}"},
}
# Lean type of a C++ struct when it is an *input* of an encoder
ENC_TY = {"overview_waveform_point": "(UInt8 × UInt8 × UInt8)"}


def enc_ty(sname):
    return ENC_TY.get(sname, STRUCTS[sname]["ty"])


# functions to translate, in dependency order
FUNCS = [
    dict(lean="decodeTrack", file="track_data_blob.cpp", filt="track_data_blob::from_blob", mode="from_blob",
         struct="track_data_blob"),
    dict(lean="decodeOvw", file="overview_waveform_data_blob.cpp", filt="overview_waveform_data_blob::from_blob",
         mode="from_blob", struct="overview_waveform_data_blob"),
    dict(lean="decodeGrid", file="beat_data_blob.cpp", filt="decode_beatgrid", mode="helper",
         cname="decode_beatgrid", ret="vec:beat_grid_marker_blob"),
    dict(lean="decodeBeat", file="beat_data_blob.cpp", filt="beat_data_blob::from_blob", mode="from_blob",
         struct="beat_data_blob"),
    dict(lean="decodeCues", file="quick_cues_blob.cpp", filt="quick_cues_blob::from_blob", mode="from_blob",
         struct="quick_cues_blob"),
    dict(lean="decodeLoops", file="loops_blob.cpp", filt="loops_blob::from_blob", mode="from_blob",
         struct="loops_blob"),
    dict(lean="encodeTrack", file="track_data_blob.cpp", filt="track_data_blob::to_blob", mode="to_blob",
         struct="track_data_blob"),
    dict(lean="encodeOvw", file="overview_waveform_data_blob.cpp", filt="overview_waveform_data_blob::to_blob",
         mode="to_blob", struct="overview_waveform_data_blob"),
    dict(lean="encodeGrid", file="beat_data_blob.cpp", filt="encode_beatgrid", mode="enc_helper",
         cname="encode_beatgrid", arg="vec:beat_grid_marker_blob"),
    dict(lean="encodeBeat", file="beat_data_blob.cpp", filt="beat_data_blob::to_blob", mode="to_blob",
         struct="beat_data_blob"),
    dict(lean="encodeCues", file="quick_cues_blob.cpp", filt="quick_cues_blob::to_blob", mode="to_blob",
         struct="quick_cues_blob"),
    dict(lean="encodeLoops", file="loops_blob.cpp", filt="loops_blob::to_blob", mode="to_blob",
         struct="loops_blob"),
]
HELPERS = {f["cname"]: f for f in FUNCS if f["mode"] == "helper"}
ENC_HELPERS = {f["cname"]: f for f in FUNCS if f["mode"] == "enc_helper"}

LEAN_KEYWORDS = {"end", "at", "from", "have", "show", "fun", "do", "let", "in", "if", "then", "else", "match",
                 "with", "open", "local", "instance", "where", "by", "for", "return", "at", "mut", "try", "catch"}


# ---------------------------------------------------------------- clang

def clang_ast(src, filt):
    cmd = (["clang++-14", "-std=gnu++17", "-fsyntax-only"] + DEFINES +
           ["-I" + GENINC, "-I" + REPO + "/include", "-I" + REPO + "/src",
            "-I" + REPO + "/ext/sqlite_modern_cpp", "-I" + REPO + "/ext/date",
            "-Xclang", "-ast-dump=json", "-Xclang", "-ast-dump-filter=" + filt, src])
    r = subprocess.run(cmd, stdout=subprocess.PIPE, stderr=subprocess.PIPE, text=True)
    txt = r.stdout
    dec = json.JSONDecoder()
    i, docs = 0, []
    while i < len(txt):
        while i < len(txt) and txt[i].isspace():
            i += 1
        if i >= len(txt):
            break
        o, j = dec.raw_decode(txt, i)
        docs.append(o)
        i = j
    if not docs and r.returncode != 0:
        raise Unsupported("clang-error: " + (r.stderr.strip().split("\n") or ["?"])[0][:160], where=src)
    return docs


def annotate(doc, fname):
    """clang omits `line` when it repeats: carry the last seen line through the tree."""
    st = {"line": 0}

    def loc_line(l):
        if not isinstance(l, dict):
            return None
        for k in ("expansionLoc", "spellingLoc"):
            if k in l and isinstance(l[k], dict) and "line" in l[k]:
                return l[k]["line"]
        return l.get("line")

    def walk(n):
        if not isinstance(n, dict):
            return
        for key in ("loc",):
            ln = loc_line(n.get(key))
            if ln:
                st["line"] = ln
        rb = (n.get("range") or {}).get("begin")
        ln = loc_line(rb)
        if ln:
            st["line"] = ln
        n["_loc"] = "%s:%d" % (fname, st["line"])
        for c in n.get("inner", []) or []:
            walk(c)
        re_ = (n.get("range") or {}).get("end")
        ln = loc_line(re_)
        if ln:
            st["line"] = ln
    walk(doc)


# ---------------------------------------------------------------- AST helpers

WRAPPERS = ("ParenExpr", "ConstantExpr", "ExprWithCleanups", "MaterializeTemporaryExpr", "CXXBindTemporaryExpr")


def kids(n):
    return [c for c in (n.get("inner") or []) if isinstance(c, dict) and c.get("kind")]


def unwrap(n):
    """Strip nodes that carry no semantics of their own."""
    while True:
        k = n.get("kind")
        if k in WRAPPERS and len(kids(n)) == 1:
            n = kids(n)[0]
        elif k == "ImplicitCastExpr" and n.get("castKind") in ("NoOp", "FunctionToPointerDecay") and len(kids(n)) == 1:
            n = kids(n)[0]
        else:
            return n


def qtype(n):
    t = n.get("type", {}) if isinstance(n, dict) else {}
    return t.get("desugaredQualType") or t.get("qualType", "")


def norm_type(q):
    q = re.sub(r"\bconst\b|\bstruct\b|&", " ", q)
    q = re.sub(r"\s*\*", " *", q)
    q = re.sub(r"\s+", " ", q).strip()
    return q


SCALARS = {"long": "i64", "long long": "i64", "int64_t": "i64", "int": "i32", "int32_t": "i32",
           "unsigned long": "u64", "unsigned long long": "u64", "size_t": "u64", "std::size_t": "u64",
           "std::vector::size_type": "u64", "unsigned char": "u8", "uint8_t": "u8", "bool": "bool",
           "double": "f64", "char": "char"}


def ctype(n_or_q):
    """Classify a C++ type: scalar tag | ptr | bytes | string | struct:<name> | vec:<name> | ?<text>"""
    q = n_or_q if isinstance(n_or_q, str) else qtype(n_or_q)
    q = norm_type(q)
    if q in SCALARS:
        return SCALARS[q]
    if re.fullmatch(r"(std::)?byte \*", q):
        return "ptr"
    if re.fullmatch(r"std::vector<(enum )?std::byte(, std::allocator<(enum )?std::byte> ?)?>", q):
        return "bytes"
    if re.fullmatch(r"std::(__cxx11::)?basic_string<char(, .*)?>|std::string", q):
        return "string"
    m = re.fullmatch(r"std::vector<(?:djinterop::engine::v2::)?(\w+)(, std::allocator<.*> ?)?>", q)
    if m and m.group(1) in STRUCTS:
        return "vec:" + m.group(1)
    m = re.fullmatch(r"(?:djinterop::engine::v2::|djinterop::)?(\w+)", q)
    if m and m.group(1) in STRUCTS:
        return "struct:" + m.group(1)
    return "?" + q


def lean_ident(path):
    s = re.sub(r"[^A-Za-z0-9_]", "_", path)
    if s in LEAN_KEYWORDS or not re.match(r"[A-Za-z_]", s):
        s = s + "_"
    return s


def callee_name(call):
    c = unwrap(kids(call)[0])
    if c.get("kind") == "DeclRefExpr":
        return c["referencedDecl"].get("name")
    if c.get("kind") == "MemberExpr":
        return c.get("name")
    return None


def int_literal(n):
    """Value of an integer literal possibly under integral casts / unary minus; None otherwise."""
    n = unwrap(n)
    k = n.get("kind")
    if k == "IntegerLiteral":
        return int(n["value"])
    if k in ("ImplicitCastExpr", "CXXStaticCastExpr", "CStyleCastExpr", "CXXFunctionalCastExpr") \
            and n.get("castKind") in ("IntegralCast", "NoOp") and len(kids(n)) == 1:
        v = int_literal(kids(n)[0])
        if v is None:
            return None
        t = ctype(n)
        if t == "u64":
            return v % (1 << 64)
        if t in ("i64", "i32", "u8"):
            lo, hi = {"i64": (-(1 << 63), (1 << 63) - 1), "i32": (-(1 << 31), (1 << 31) - 1), "u8": (0, 255)}[t]
            return v if lo <= v <= hi else None
        return None
    if k == "UnaryOperator" and n.get("opcode") == "-":
        v = int_literal(kids(n)[0])
        return None if v is None else -v
    return None


# ---------------------------------------------------------------- decoder translation

class Val:
    """A C++ object held in a Lean local.  repr: 'bits' (wire bit pattern, for i32/i64/f64/u8),
    'val' (mathematical value: Int for signed, Nat for u64), 'obj' (bytes / list / structure)."""
    def __init__(self, name, ty, repr_):
        self.name, self.ty, self.repr = name, ty, repr_


class Env:
    def __init__(self):
        self.vals = {}        # path -> Val (assigned)
        self.decl = {}        # path -> ctype of declared locals (scalars, structs, vectors)
        self.fresh_vec = set()  # paths of vectors known to be empty
        self.sized_vec = {}   # path -> Lean Nat term: vector resized to that many default elements
        self.buf = None       # payload vector
        self.buf_size = None  # Lean name holding buf.size()
        self.ptr = None
        self.end = None
        self.noread = True    # cursor still at buf.data()

    def copy(self):
        e = Env()
        e.vals = dict(self.vals)
        e.decl = dict(self.decl)
        e.fresh_vec = set(self.fresh_vec)
        e.sized_vec = dict(self.sized_vec)
        e.buf, e.buf_size, e.ptr, e.end, e.noread = self.buf, self.buf_size, self.ptr, self.end, self.noread
        return e


class Dec:
    def __init__(self, fn):
        self.fn = fn
        self.tmp = 0
        self.aux = []      # hoisted loop bodies: (name, Lean type, lines)

    def fresh(self):
        self.tmp += 1
        return "t%d" % self.tmp

    # ---- lvalues -------------------------------------------------------
    def lv_path(self, n, env):
        """Path of an lvalue made of a local and member accesses; checks member types against STRUCTS."""
        n = unwrap(n)
        k = n.get("kind")
        if k == "DeclRefExpr":
            name = n["referencedDecl"]["name"]
            if name not in env.decl:
                raise Unsupported("lvalue: unknown variable " + name, n)
            return name, env.decl[name]
        if k == "MemberExpr" and not n.get("isArrow"):
            base, bty = self.lv_path(kids(n)[0], env)
            if not bty.startswith("struct:"):
                raise Unsupported("member of non-struct " + bty, n)
            sd = STRUCTS[bty[7:]]
            fname = n.get("name")
            kinds = dict(sd["fields"])
            if "extra" in sd:
                kinds[sd["extra"]] = "bytes"
            if fname not in kinds:
                raise Unsupported("unknown member %s of %s" % (fname, bty[7:]), n)
            fty = kinds[fname]
            aty = ctype(n)
            if aty != fty:
                raise Unsupported("member %s.%s has C++ type %s, table says %s" % (bty[7:], fname, aty, fty), n)
            return base + "." + fname, fty
        raise Unsupported("lvalue " + str(k), n)

    def declare(self, name, ty, env, node, value_init=False):
        """A local without (or with value-) initialisation."""
        env.decl[name] = ty
        self.declare_path(name, ty, env, node, value_init)

    def declare_path(self, path, ty, env, node, value_init):
        for p in [p for p in env.vals if p == path or p.startswith(path + ".")]:
            del env.vals[p]
        if ty.startswith("struct:"):
            sd = STRUCTS[ty[7:]]
            for f, k in sd["fields"] + ([(sd["extra"], "bytes")] if "extra" in sd else []):
                self.declare_path(path + "." + f, k, env, node, value_init)
        elif ty.startswith("vec:"):
            env.fresh_vec.add(path)
            env.sized_vec.pop(path, None)
        elif ty in ("string", "bytes"):
            env.vals[path] = Val("([] : Bytes)", ty, "obj")
        elif ty in ("u8", "i32", "i64", "f64", "bool", "u64"):
            if value_init:
                env.vals[path] = Val("false" if ty == "bool" else "(0 : %s)" % LEAN_OF[ty], ty, "bits" if ty != "u64" else "val")
            # else: indeterminate until assigned
        else:
            raise Unsupported("local of type " + ty, node)

    def build(self, path, ty, env, node):
        """Lean term for the object at `path`."""
        if ty.startswith("struct:"):
            sd = STRUCTS[ty[7:]]
            parts = {f: self.build(path + "." + f, k, env, node) for f, k in sd["fields"]}
            if "ctor" in sd:
                body = sd["ctor"].format(**parts)
            else:
                body = "⟨" + ", ".join(parts[f] for f, _ in sd["fields"]) + "⟩"
            return "(%s : %s)" % (body, sd["ty"])
        if ty.startswith("vec:"):
            if path in env.vals:
                return env.vals[path].name
            if path in env.fresh_vec:
                return "([] : List %s)" % STRUCTS[ty[4:]]["ty"]
            raise Unsupported("vector %s in an unknown state" % path, node)
        v = env.vals.get(path)
        if v is None:
            raise Unsupported("use of uninitialised " + path, node)
        return self.as_bits(v)

    def as_bits(self, v):
        if v.repr in ("bits", "obj"):
            return v.name
        if v.ty == "i64":
            return "(Prim.u64OfInt %s)" % v.name
        if v.ty == "i32":
            return "(Prim.u32OfInt %s)" % v.name
        return v.name

    # ---- expressions ----------------------------------------------------
    def expr(self, n, env):
        """-> (prelude lines, Lean term, ctype).  Signed values are Int, u64 is Nat, u8 is UInt8, bool is Bool."""
        n = unwrap(n)
        k = n.get("kind")
        lit = int_literal(n)
        if lit is not None and ctype(n) in ("i32", "i64", "u64"):
            t = ctype(n)
            return [], "(%d : %s)" % (lit, "Nat" if t == "u64" else "Int"), t
        if k == "CXXBoolLiteralExpr":
            return [], "true" if n.get("value") else "false", "bool"
        if k in ("ImplicitCastExpr", "CXXStaticCastExpr", "CStyleCastExpr", "CXXFunctionalCastExpr"):
            ck = n.get("castKind")
            sub = kids(n)[0]
            if ck == "LValueToRValue":
                path, ty = self.lv_path(sub, env)
                v = env.vals.get(path)
                if v is None:
                    raise Unsupported("read of uninitialised " + path, n)
                if ty in ("i64", "i32"):
                    if v.repr == "bits":
                        return [], "(Prim.s%s %s)" % (ty[1:], v.name), ty
                    return [], v.name, ty
                if ty in ("u8", "u64", "bool"):
                    return [], v.name, ty
                raise Unsupported("rvalue of type " + ty, n)
            if ck == "NoOp":
                return self.expr(sub, env)
            if ck == "IntegralCast":
                pre, e, st = self.expr(sub, env)
                dt = ctype(n)
                if st == dt:
                    return pre, e, dt
                if st == "u8" and dt in ("i32", "i64"):
                    return pre, "(%s.toNat : Int)" % e, dt
                if st == "u8" and dt == "u64":
                    return pre, "%s.toNat" % e, dt
                if st == "i32" and dt == "i64":
                    return pre, e, dt
                if st in ("i32", "i64") and dt == "u64":
                    return pre, "(Cxx.u64OfInt %s)" % e, dt
                if st == "u64" and dt == "i64":
                    return pre, "(Cxx.i64OfU64 %s)" % e, dt
                raise Unsupported("IntegralCast %s->%s" % (st, dt), n)
            if ck == "IntegralToBoolean":
                pre, e, st = self.expr(sub, env)
                if st == "u8":
                    return pre, "(%s != 0)" % e, "bool"
                if st in ("i32", "i64", "u64"):
                    return pre, "(decide (%s ≠ 0))" % e, "bool"
            raise Unsupported("cast " + str(ck), n)
        if k == "CXXMemberCallExpr":
            m = unwrap(kids(n)[0])
            obj = unwrap(kids(m)[0]) if kids(m) else {}
            if m.get("name") == "size" and obj.get("kind") == "DeclRefExpr" and \
                    obj["referencedDecl"]["name"] == env.buf and len(kids(n)) == 1 and env.buf_size:
                return [], env.buf_size, "u64"
            raise Unsupported("member call " + str(m.get("name")), n)
        if k == "BinaryOperator":
            op = n["opcode"]
            a, b = kids(n)
            if op in ("||", "&&"):
                pa, ea, ta = self.expr(a, env)
                pb, eb, tb = self.expr(b, env)
                if ta != "bool" or tb != "bool":
                    raise Unsupported("operand of %s is not bool" % op, n)
                if not pb:
                    return pa, "(%s %s %s)" % (ea, op, eb), "bool"
                t = self.fresh()
                comb = "Cur.orElse" if op == "||" else "Cur.andAlso"
                rhs = "(do " + "; ".join(pb + ["pure %s" % eb]) + ")"
                return pa + ["let %s ← %s (pure %s) %s" % (t, comb, ea, rhs)], t, "bool"
            # pointer difference end - ptr
            if op == "-" and ctype(a) == "ptr" and ctype(b) == "ptr":
                ua, ub_ = unwrap(a), unwrap(b)

                def var(x):
                    x = unwrap(x)
                    if x.get("kind") == "ImplicitCastExpr" and x.get("castKind") == "LValueToRValue":
                        x = unwrap(kids(x)[0])
                    return x["referencedDecl"]["name"] if x.get("kind") == "DeclRefExpr" else None
                if var(ua) == env.end and var(ub_) == env.ptr and env.end:
                    t = self.fresh()
                    return ["let %s ← Cur.remaining" % t], "(%s : Int)" % t, "i64"
                raise Unsupported("pointer difference other than end - ptr", n)
            pa, ea, ta = self.expr(a, env)
            pb, eb, tb = self.expr(b, env)
            if ta != tb:
                raise Unsupported("operands of %s have types %s, %s" % (op, ta, tb), n)
            if op in ("<", ">", "<=", ">=", "==", "!="):
                if ta not in ("i32", "i64", "u64"):
                    raise Unsupported("comparison on " + ta, n)
                lop = {"<": "<", ">": ">", "<=": "≤", ">=": "≥", "==": "=", "!=": "≠"}[op]
                return pa + pb, "(decide (%s %s %s))" % (ea, lop, eb), "bool"
            if op in ("+", "-", "*") and ta in ("i32", "i64"):
                t = self.fresh()
                chk = "Cur.chkI64" if ta == "i64" else "Cur.chkI32"
                return pa + pb + ["let %s ← %s (%s %s %s)" % (t, chk, ea, op, eb)], t, ta
            if op == "/" and ta == "i64":
                d = int_literal(b)
                if d is not None and d not in (0, -1):
                    # |a / d| <= |a|: representable whenever a is
                    return pa + pb, "(Int.tdiv %s %s)" % (ea, eb), ta
                t = self.fresh()
                return pa + pb + ["let %s ← Cur.divI64 %s %s" % (t, ea, eb)], t, ta
            if op in ("+", "-", "*") and ta == "u64":
                f = {"+": "add", "-": "sub", "*": "mul"}[op]
                return pa + pb, "(Cxx.U64.%s %s %s)" % (f, ea, eb), ta
            raise Unsupported("operator %s on %s" % (op, ta), n)
        raise Unsupported("expression " + str(k), n)

    # ---- statements -----------------------------------------------------
    def is_noop(self, s):
        s = unwrap(s)
        if s.get("kind") == "NullStmt":
            return True
        if s.get("kind") in ("CXXStaticCastExpr", "CStyleCastExpr", "CXXFunctionalCastExpr") and s.get("castKind") == "ToVoid":
            return int_literal(kids(s)[0]) is not None
        return False

    def throw_class(self, s):
        """If `s` (or the single statement of its block) is `throw std::X{...}` -> Exn; else None."""
        s = unwrap(s)
        if s.get("kind") == "CompoundStmt":
            body = [c for c in kids(s) if not self.is_noop(c)]
            if len(body) != 1:
                return None
            return self.throw_class(body[0])
        if s.get("kind") != "CXXThrowExpr" or not kids(s):
            return None
        e = unwrap(kids(s)[0])
        t = norm_type(qtype(e))
        if t in EXN:
            return EXN[t]
        raise Unsupported("throw of " + t, s)

    def ptr_arg(self, a, env, which):
        a = unwrap(a)
        if a.get("kind") == "ImplicitCastExpr" and a.get("castKind") == "LValueToRValue":
            a = unwrap(kids(a)[0])
        want = env.ptr if which == "ptr" else env.end
        if a.get("kind") != "DeclRefExpr" or a["referencedDecl"]["name"] != want or want is None:
            raise Unsupported("argument is not the cursor `%s`" % which, a)

    def tie_assign(self, s, env, out):
        """std::tie(lv, ptr) = <reader>(ptr[, end])"""
        args = kids(s)
        if len(args) != 3 or callee_name(s) != "operator=":
            raise Unsupported("operator call " + str(callee_name(s)), s)
        lhs, rhs = unwrap(args[1]), unwrap(args[2])
        if lhs.get("kind") != "CallExpr" or callee_name(lhs) != "tie" or len(kids(lhs)) != 3:
            raise Unsupported("assignment target is not std::tie(x, ptr)", s)
        tgt, p = kids(lhs)[1], unwrap(kids(lhs)[2])
        if p.get("kind") != "DeclRefExpr" or p["referencedDecl"]["name"] != env.ptr:
            raise Unsupported("second element of std::tie is not the cursor", s)
        if rhs.get("kind") != "CallExpr":
            raise Unsupported("right-hand side " + str(rhs.get("kind")), s)
        f = callee_name(rhs)
        cargs = kids(rhs)[1:]
        path, ty = self.lv_path(tgt, env)
        name = lean_ident(path)
        env.noread = False
        if f in PRIM_DEC:
            if len(cargs) != 1:
                raise Unsupported("arity of " + f, rhs)
            self.ptr_arg(cargs[0], env, "ptr")
            vty = PRIM_DEC[f]
            out.append("let %s ← %s%s" % (name, PRIMS, f))
            if ty == vty:
                env.vals[path] = Val(name, ty, "bits")
            elif vty == "u8" and ty == "bool":
                # pair<uint8_t, ptr> assigned to tuple<bool&, ptr&>: integral -> bool conversion
                out.append("let %s := (%s != 0)" % (name, name))
                env.vals[path] = Val(name, ty, "bits")
            else:
                raise Unsupported("%s assigned to a %s" % (f, ty), s)
            return
        if f == "decode_extra":
            if len(cargs) != 2:
                raise Unsupported("arity of decode_extra", rhs)
            self.ptr_arg(cargs[0], env, "ptr")
            self.ptr_arg(cargs[1], env, "end")
            if ty != "bytes":
                raise Unsupported("decode_extra assigned to a " + ty, s)
            out.append("let %s ← Cur.rest" % name)
            env.vals[path] = Val(name, ty, "obj")
            return
        if f in HELPERS:
            h = HELPERS[f]
            if len(cargs) != 2:
                raise Unsupported("arity of " + f, rhs)
            self.ptr_arg(cargs[0], env, "ptr")
            self.ptr_arg(cargs[1], env, "end")
            if ty != h["ret"]:
                raise Unsupported("%s assigned to a %s" % (f, ty), s)
            out.append("let %s ← %s" % (name, h["lean"]))
            env.vals[path] = Val(name, ty, "obj")
            env.fresh_vec.discard(path)
            return
        raise Unsupported("call " + str(f), rhs)

    def var_decl(self, v, env, out):
        name = v["name"]
        init = [c for c in kids(v)]
        ty = ctype(v)
        if not init:
            self.declare(name, ty, env, v)
            return
        e = unwrap(init[-1])
        k = e.get("kind")
        # const auto buf = zlib_uncompress(blob);   (the model starts at the uncompressed payload)
        if k == "CallExpr" and callee_name(e) == "zlib_uncompress" and ty == "bytes" and env.buf is None:
            a = unwrap(kids(e)[1])
            if a.get("kind") == "DeclRefExpr" and a["referencedDecl"]["name"] == self.fn.get("_param"):
                env.buf = name
                return
            raise Unsupported("zlib_uncompress of something other than the parameter", v)
        # auto ptr = buf.data();
        if k == "CXXMemberCallExpr" and ty == "ptr" and env.ptr is None:
            m = unwrap(kids(e)[0])
            obj = unwrap(kids(m)[0])
            if m.get("name") == "data" and obj.get("kind") == "DeclRefExpr":
                b = obj["referencedDecl"]["name"]
                if env.buf is None and b == self.fn.get("_param") and self.fn.get("raw"):
                    env.buf = b
                if b == env.buf:
                    env.ptr = name
                    env.buf_size = lean_ident(b + "_size")
                    out.append("let %s ← Cur.remaining" % env.buf_size)
                    return
            raise Unsupported("pointer initialiser", v)
        # const auto end = ptr + buf.size();
        if k == "BinaryOperator" and e.get("opcode") == "+" and ty == "ptr" and env.end is None and env.noread:
            a, b = kids(e)
            try:
                self.ptr_arg(a, env, "ptr")
                pb, eb, tb = self.expr(b, env)
            except Unsupported:
                raise Unsupported("end-pointer initialiser", v)
            if not pb and eb == env.buf_size:
                env.end = name
                return
            raise Unsupported("end-pointer initialiser", v)
        # T x{};  /  T x;  (class type)
        if k == "InitListExpr" and ty.startswith("struct:"):
            ok = all(unwrap(c).get("kind") in ("ImplicitValueInitExpr", "CXXConstructExpr") and
                     not [a for a in kids(unwrap(c)) if a.get("kind") != "CXXDefaultArgExpr"] for c in kids(e))
            if ok:
                self.declare(name, ty, env, v, value_init=True)
                return
            raise Unsupported("initialiser list", v)
        if k == "CXXConstructExpr" and not kids(e) and (ty.startswith("struct:") or ty.startswith("vec:")
                                                          or ty in ("string", "bytes")):
            self.declare(name, ty, env, v)
            # default member initialisers (e.g. `double sample_offset = 0;`) are not read from the
            # AST: such a field counts as unassigned, and using it before an assignment is rejected
            return
        raise Unsupported("initialiser " + str(k), v)

    def vec_target(self, call, env):
        m = unwrap(kids(call)[0])
        path, ty = self.lv_path(kids(m)[0], env)
        return m.get("name"), path, ty

    def stmts(self, body, env, out, tail):
        """Translate a statement list; `tail(env, out)` emits the block's final `pure ...`."""
        body = [s for s in body if not self.is_noop(s)]
        i = 0
        while i < len(body):
            s = unwrap(body[i])
            k = s.get("kind")
            last = i == len(body) - 1
            if k == "DeclStmt":
                for v in kids(s):
                    if v.get("kind") != "VarDecl":
                        raise Unsupported("declaration " + str(v.get("kind")), v)
                    self.var_decl(v, env, out)
            elif k == "IfStmt":
                self.if_stmt(s, env, out)
            elif k == "CXXOperatorCallExpr":
                self.tie_assign(s, env, out)
            elif k == "ForStmt":
                self.for_stmt(s, env, out)
            elif k == "CXXForRangeStmt":
                self.range_for(s, env, out)
            elif k == "CXXMemberCallExpr":
                meth, path, ty = self.vec_target(s, env)
                args = kids(s)[1:]
                if meth in ("reserve", "resize") and ty.startswith("vec:") and len(args) == 1:
                    if path not in env.fresh_vec:
                        raise Unsupported("%s on a vector that is not known to be empty" % meth, s)
                    pre, e, t = self.expr(args[0], env)
                    if t != "u64":
                        raise Unsupported("%s argument of type %s" % (meth, t), s)
                    out.extend(pre)
                    out.append("Cur.reserve %s %d" % (e, STRUCTS[ty[4:]]["size"]))
                    if meth == "resize":
                        env.fresh_vec.discard(path)
                        env.sized_vec[path] = e
                elif meth == "assign" and ty == "string" and len(args) == 2:
                    a0 = unwrap(args[0])
                    if a0.get("kind") != "CXXReinterpretCastExpr" or ctype(kids(a0)[0]) != "ptr":
                        raise Unsupported("assign from something other than the cursor", s)
                    self.ptr_arg(kids(a0)[0], env, "ptr")
                    pre, e, t = self.expr(args[1], env)
                    if t != "u64":
                        raise Unsupported("assign length of type " + t, s)
                    out.extend(pre)
                    name = lean_ident(path)
                    out.append("let %s ← Cur.peekN %s" % (name, e))
                    env.vals[path] = Val(name, "string", "obj")
                elif meth == "push_back":
                    raise Unsupported("push_back outside the last statement of a counted loop", s)
                else:
                    raise Unsupported("member call " + str(meth), s)
            elif k == "CompoundAssignOperator" and s.get("opcode") == "+=":
                a, b = kids(s)
                ua = unwrap(a)
                if ua.get("kind") != "DeclRefExpr" or ua["referencedDecl"]["name"] != env.ptr:
                    raise Unsupported("compound assignment to something other than the cursor", s)
                pre, e, t = self.expr(b, env)
                m = re.fullmatch(r"\((\w+)\.toNat : Int\)", e)
                if t == "u64":
                    n_ = e
                elif m:           # an unsigned 8-bit value promoted to int: non-negative
                    n_ = "%s.toNat" % m.group(1)
                else:
                    raise Unsupported("cursor advanced by a possibly negative amount", s)
                out.extend(pre)
                out.append("Cur.advance %s" % n_)
                env.noread = False
            elif k == "ReturnStmt":
                if not last:
                    raise Unsupported("return before the end of the function", s)
                tail(env, out, s)
                return
            elif k == "CompoundStmt":
                raise Unsupported("nested block", s)
            else:
                raise Unsupported(str(k), s)
            i += 1
        tail(env, out, None)

    def if_stmt(self, s, env, out):
        parts = kids(s)
        if s.get("hasElse") or len(parts) != 2 or s.get("hasInit") or s.get("hasVar"):
            raise Unsupported("if with else / init", s)
        cond, then = parts
        pre, c, t = self.expr(cond, env)
        if t != "bool":
            raise Unsupported("condition of type " + t, cond)
        exn = self.throw_class(then)
        out.extend(pre)
        if exn:
            out.append("if %s then Cur.throwC %s else" % (c, exn))
            return
        # one-armed if that assigns: join on the variables it changes
        inner = env.copy()
        sub = []
        tb = kids(then) if unwrap(then).get("kind") == "CompoundStmt" else [then]
        self.stmts(tb, inner, sub, lambda e, o, r: self.no_return(r))
        changed = [p for p in inner.vals if p not in env.vals or inner.vals[p] is not env.vals[p]]
        if set(inner.decl) != set(env.decl) or inner.fresh_vec != env.fresh_vec or inner.sized_vec != env.sized_vec:
            raise Unsupported("declaration / vector operation inside a one-armed if", s)
        if not changed:
            raise Unsupported("one-armed if without effect on a variable", s)
        olds = []
        for p in changed:
            if p not in env.vals:
                raise Unsupported("variable %s is assigned only conditionally" % p, s)
            olds.append(env.vals[p].name)
        news = [inner.vals[p].name for p in changed]
        names = [lean_ident(p) for p in changed]
        pat = names[0] if len(names) == 1 else "(" + ", ".join(names) + ")"
        tup = lambda xs: xs[0] if len(xs) == 1 else "(" + ", ".join(xs) + ")"
        out.append("let %s ← if %s then (do" % (pat, c))
        out.extend("    " + l for l in sub)
        out.append("    pure %s) else pure %s" % (tup(news), tup(olds)))
        for p, nm in zip(changed, names):
            v = inner.vals[p]
            env.vals[p] = Val(nm, v.ty, v.repr)
        env.noread = env.noread and inner.noread

    def emit_loop(self, comb, name, elem_ty, sub, count, env, out):
        """`let name ← comb body count`; a body that mentions no outer local becomes a definition of its own
        (`<function>_body<k>`), so that lemmas can be stated about it."""
        outer = {v.name for v in env.vals.values()} | {env.buf_size}
        toks = set(re.findall(r"[A-Za-z_][A-Za-z_0-9']*", " ".join(sub)))
        if not (outer & toks):
            bname = "%s_body%d" % (self.fn["lean"], len(self.aux) + 1)
            self.aux.append((bname, STRUCTS[elem_ty[7:]]["ty"], sub))
            out.append("let %s ← %s %s %s" % (name, comb, bname, count))
        else:
            out.append("let %s ← %s (do" % (name, comb))
            out.extend("    " + l for l in sub)
            out[-1] = out[-1] + ") " + count

    def no_return(self, r):
        if r is not None:
            raise Unsupported("return inside a nested block", r)

    def for_stmt(self, s, env, out):
        """for (T i = 0; i < n; ++i) { ...; v.push_back(x); }"""
        parts = s.get("inner") or []
        if len(parts) != 5:
            raise Unsupported("for statement shape", s)
        init, condvar, cond, inc, body = parts
        if condvar and condvar.get("kind"):
            raise Unsupported("for with condition variable", s)
        ok = init.get("kind") == "DeclStmt" and len(kids(init)) == 1 and kids(init)[0].get("kind") == "VarDecl"
        if not ok:
            raise Unsupported("for initialiser", s)
        iv = kids(init)[0]
        ity = ctype(iv)
        if ity not in ("i64",) or not kids(iv) or int_literal(kids(iv)[-1]) != 0:
            raise Unsupported("loop counter is not `int64_t i = 0`", iv)
        iname = iv["name"]
        c = unwrap(cond)
        if c.get("kind") != "BinaryOperator" or c.get("opcode") != "<":
            raise Unsupported("loop condition", cond)
        ca, cb = kids(c)
        ua = unwrap(ca)
        if ua.get("kind") == "ImplicitCastExpr" and ua.get("castKind") == "LValueToRValue":
            ua = unwrap(kids(ua)[0])
        if ua.get("kind") != "DeclRefExpr" or ua["referencedDecl"]["name"] != iname:
            raise Unsupported("loop condition is not `i < n` on the counter itself", cond)
        pre, bound, bt = self.expr(cb, env)
        if pre or bt != ity:
            raise Unsupported("loop bound is not a plain value of the counter's type", cond)
        bound_vars = set(re.findall(r"[A-Za-z_][A-Za-z_0-9]*", bound))
        u = unwrap(inc)
        if u.get("kind") != "UnaryOperator" or u.get("opcode") != "++" or \
                unwrap(kids(u)[0]).get("kind") != "DeclRefExpr" or \
                unwrap(kids(u)[0])["referencedDecl"]["name"] != iname:
            raise Unsupported("loop increment is not ++i", inc)
        if refers_to(body, iname):
            raise Unsupported("loop body uses the counter", body)
        bstmts = [x for x in (kids(body) if body.get("kind") == "CompoundStmt" else [body]) if not self.is_noop(x)]
        if not bstmts:
            raise Unsupported("empty loop body", body)
        pb = unwrap(bstmts[-1])
        if pb.get("kind") != "CXXMemberCallExpr":
            raise Unsupported("loop body does not end in push_back", pb)
        meth, vpath, vty = self.vec_target(pb, env)
        if meth != "push_back" or not vty.startswith("vec:") or len(kids(pb)) != 2:
            raise Unsupported("loop body does not end in push_back", pb)
        if vpath not in env.fresh_vec:
            raise Unsupported("push_back to a vector that is not known to be empty", pb)
        inner = env.copy()
        sub = []
        elem_ty = "struct:" + vty[4:]

        def tail(e, o, r):
            self.no_return(r)
            arg = unwrap(kids(pb)[1])
            while arg.get("kind") == "CXXConstructExpr" and len(kids(arg)) == 1:
                arg = unwrap(kids(arg)[0])
            path, ty = self.lv_path(arg, e)
            if ty != elem_ty or path in env.decl:
                raise Unsupported("push_back of something other than a loop-local element", pb)
            o.append("pure %s" % self.build(path, ty, e, pb))
        self.stmts(bstmts[:-1], inner, sub, tail)
        # the body may only change its own locals (and the cursor)
        for p, v in inner.vals.items():
            root = p.split(".")[0]
            if root in env.decl and (p not in env.vals or env.vals[p] is not v):
                raise Unsupported("loop body assigns the outer variable " + p, body)
        if inner.fresh_vec - {vpath} != env.fresh_vec - {vpath} and \
                any(p.split(".")[0] in env.decl for p in inner.fresh_vec ^ env.fresh_vec):
            raise Unsupported("loop body changes an outer vector", body)
        for p in bound_vars:
            pass
        name = lean_ident(vpath)
        self.emit_loop("Cur.forCount", name, elem_ty, sub, bound, env, out)
        env.vals[vpath] = Val(name, vty, "obj")
        env.fresh_vec.discard(vpath)
        env.noread = False

    def range_for(self, s, env, out):
        """v.resize(n); for (auto& e : v) { assignments to e's members }"""
        parts = s.get("inner") or []
        if len(parts) != 8 or (parts[0] and parts[0].get("kind")):
            raise Unsupported("range-for shape", s)
        rng, loopvar, body = parts[1], parts[6], parts[7]
        rv = kids(rng)[0]
        vpath, vty = self.lv_path(kids(rv)[0], env)
        if not vty.startswith("vec:") or vpath not in env.sized_vec:
            raise Unsupported("range-for over a vector that was not just resized", s)
        lv = kids(loopvar)[0]
        if "&" not in lv["type"]["qualType"] or "const" in lv["type"]["qualType"]:
            raise Unsupported("range-for variable is not a mutable reference", lv)
        ename = lv["name"]
        elem_ty = "struct:" + vty[4:]
        if ctype(lv) != elem_ty:
            raise Unsupported("range-for element type", lv)
        inner = env.copy()
        if ename in inner.decl:
            raise Unsupported("range-for variable shadows a local", lv)
        # resize() value-initialises the new elements
        self.declare(ename, elem_ty, inner, lv, value_init=True)
        sub = []

        def tail(e, o, r):
            self.no_return(r)
            o.append("pure %s" % self.build(ename, elem_ty, e, s))
        bstmts = kids(body) if body.get("kind") == "CompoundStmt" else [body]
        self.stmts(bstmts, inner, sub, tail)
        for p, v in inner.vals.items():
            root = p.split(".")[0]
            if root in env.decl and (p not in env.vals or env.vals[p] is not v):
                raise Unsupported("loop body assigns the outer variable " + p, body)
        name = lean_ident(vpath)
        self.emit_loop("Cur.forEach", name, elem_ty, sub, env.sized_vec[vpath], env, out)
        env.vals[vpath] = Val(name, vty, "obj")
        del env.sized_vec[vpath]
        env.noread = False

    # ---- functions ------------------------------------------------------
    def function(self, decl):
        fn = self.fn
        params = [p for p in kids(decl) if p.get("kind") == "ParmVarDecl"]
        body = [c for c in kids(decl) if c.get("kind") == "CompoundStmt"][0]
        env = Env()
        out = []
        if fn["mode"] == "from_blob":
            if len(params) != 1 or ctype(params[0]) != "bytes":
                raise Unsupported("from_blob signature", decl)
            fn["_param"] = params[0]["name"]
            fn["raw"] = True   # `blob.data()` is allowed when the function never decompresses
            sd = STRUCTS[fn["struct"]]

            def tail(e, o, r):
                if r is None:
                    raise Unsupported("function falls off the end", decl)
                v = unwrap(kids(r)[0])
                while v.get("kind") == "CXXConstructExpr" and len(kids(v)) == 1:
                    v = unwrap(kids(v)[0])
                path, ty = self.lv_path(v, e)
                if ty != "struct:" + fn["struct"]:
                    raise Unsupported("return of a " + ty, r)
                val = self.build(path, ty, e, r)
                extra = e.vals.get(path + "." + sd["extra"])
                o.append("pure (%s, %s)" % (val, extra.name if extra else "([] : Bytes)"))
            self.stmts(kids(body), env, out, tail)
            head = "def %s : Bytes → Res (%s × Bytes) := Cur.fromBlob (do" % (fn["lean"], sd["ty"])
        else:
            if len(params) != 2 or ctype(params[0]) != "ptr" or ctype(params[1]) != "ptr":
                raise Unsupported("helper signature", decl)
            env.ptr, env.end = params[0]["name"], params[1]["name"]
            env.noread = False
            rty = fn["ret"]

            def tail(e, o, r):
                if r is None:
                    raise Unsupported("function falls off the end", decl)
                v = unwrap(kids(r)[0])
                while v.get("kind") in ("CXXConstructExpr", "InitListExpr") and len(kids(v)) == 1:
                    v = unwrap(kids(v)[0])
                if v.get("kind") not in ("CXXConstructExpr", "InitListExpr") or len(kids(v)) != 2:
                    raise Unsupported("return value is not {value, ptr}", r)
                a, b = kids(v)
                self.ptr_arg(b, e, "ptr")
                a = unwrap(a)
                if a.get("kind") == "CallExpr" and callee_name(a) == "move":
                    a = unwrap(kids(a)[1])
                path, ty = self.lv_path(a, e)
                if ty != rty:
                    raise Unsupported("return of a " + ty, r)
                o.append("pure %s" % self.build(path, ty, e, r))
            self.stmts(kids(body), env, out, tail)
            lty = "List %s" % STRUCTS[rty[4:]]["ty"] if rty.startswith("vec:") else STRUCTS[rty[7:]]["ty"]
            head = "def %s : Cur (%s) := (do" % (fn["lean"], lty)
        out[-1] = out[-1] + ")"
        res = []
        for bname, bty, sub in self.aux:
            res += ["def %s : Cur (%s) := (do" % (bname, bty)] + ["  " + l for l in sub]
            res[-1] += ")"
            res.append("")
        return res + [head] + ["  " + l for l in out]



# ---------------------------------------------------------------- encoder translation

class EVal:
    """term + kind.  kinds: u8 i32 i64 f64 (bit patterns), bool, char (a byte of a std::string),
    u64 (Nat value), i64v / i32v (Int value), string, bytes, vec:<S>, struct:<S>."""
    def __init__(self, term, kind):
        self.term, self.kind = term, kind


class Enc:
    def __init__(self, fn):
        self.fn = fn
        self.this = None       # (struct name, Lean holder, Lean name of the extra bytes)
        self.locals = {}       # C++ name -> EVal
        self.buf = self.ptr = self.end = None
        self.size = None
        self.aux = []          # hoisted loop bodies: (name, parameter, parameter type, lines)

    # ---- lvalues
    def lv(self, n):
        n = unwrap(n)
        k = n.get("kind")
        if k == "ImplicitCastExpr" and n.get("castKind") in ("NoOp", "DerivedToBase"):
            return self.lv(kids(n)[0])
        if k == "DeclRefExpr":
            name = n["referencedDecl"]["name"]
            if name in self.locals:
                return self.locals[name]
            raise Unsupported("unknown variable " + name, n)
        if k == "MemberExpr":
            base = unwrap(kids(n)[0])
            fname = n.get("name")
            if base.get("kind") == "CXXThisExpr":
                if not self.this:
                    raise Unsupported("`this` outside a member function", n)
                sname, holder, extra = self.this
                if fname == STRUCTS[sname].get("extra"):
                    if ctype(n) != "bytes":
                        raise Unsupported("type of " + fname, n)
                    return EVal(extra, "bytes")
            elif n.get("isArrow"):
                raise Unsupported("-> on something other than this", n)
            else:
                b = self.lv(base)
                if not b.kind.startswith("struct:"):
                    raise Unsupported("member of a " + b.kind, n)
                sname, holder = b.kind[7:], b.term
            kinds = dict(STRUCTS[sname]["fields"])
            if fname not in kinds or fname not in ENC_PROJ.get(sname, {}):
                raise Unsupported("unknown member %s of %s" % (fname, sname), n)
            if ctype(n) != kinds[fname]:
                raise Unsupported("member %s.%s has C++ type %s, table says %s" % (sname, fname, ctype(n), kinds[fname]), n)
            return EVal(ENC_PROJ[sname][fname].format(holder), kinds[fname])
        raise Unsupported("lvalue " + str(k), n)

    # ---- expressions (pure)
    def as_val(self, v):
        if v.kind == "i64":
            return EVal("(Prim.s64 %s)" % v.term, "i64v")
        if v.kind == "i32":
            return EVal("(Prim.s32 %s)" % v.term, "i32v")
        return v

    def cast(self, v, dt, node):
        """C++ integral conversion of `v` to the scalar type `dt` (u8 i32 i64 u64 bool)."""
        if v.kind == dt or (v.kind, dt) in (("i64v", "i64"), ("i32v", "i32")):
            return v if v.kind != dt else v
        v = self.as_val(v)
        sk = v.kind
        if dt == "u64":
            if sk in ("i64v", "i32v"):
                return EVal("(Cxx.u64OfInt %s)" % v.term, "u64")
            if sk in ("u8", "char"):
                return EVal("%s.toNat" % v.term, "u64")
        if dt == "i64":
            if sk == "u64":
                return EVal("(Cxx.i64OfU64 %s)" % v.term, "i64v")
            if sk == "i32v":
                return EVal(v.term, "i64v")
            if sk in ("u8", "char"):
                return EVal("(%s.toNat : Int)" % v.term, "i64v")
            if sk == "i64v":
                return v
        if dt == "i32":
            if sk in ("u8",):
                return EVal("(%s.toNat : Int)" % v.term, "i32v")
            if sk == "i32v":
                return v
        if dt == "u8":
            if sk == "u64":
                return EVal("(UInt8.ofNat %s)" % v.term, "u8")
            if sk == "char":
                return EVal(v.term, "u8")
            if sk == "bool":
                return EVal("(if %s then (1 : UInt8) else 0)" % v.term, "u8")
        raise Unsupported("conversion %s -> %s" % (sk, dt), node)

    def expr(self, n):
        n = unwrap(n)
        k = n.get("kind")
        lit = int_literal(n)
        t = ctype(n)
        if lit is not None and t in ("i32", "i64", "u64"):
            return EVal("(%d : %s)" % (lit, "Nat" if t == "u64" else "Int"), {"i32": "i32v", "i64": "i64v", "u64": "u64"}[t])
        if k == "InitListExpr" and len(kids(n)) == 1 and t in ("i32", "i64", "u64"):
            return self.cast(self.expr(kids(n)[0]), t, n)
        if k in ("ImplicitCastExpr", "CXXStaticCastExpr", "CStyleCastExpr", "CXXFunctionalCastExpr"):
            ck = n.get("castKind")
            sub = kids(n)[0]
            if ck == "LValueToRValue":
                v = self.lv(sub)
                if v.kind.startswith(("struct:", "vec:")) or v.kind in ("string", "bytes"):
                    raise Unsupported("rvalue of a " + v.kind, n)
                return v
            if ck == "NoOp":
                return self.expr(sub)
            if ck == "IntegralCast":
                return self.cast(self.expr(sub), t, n)
            raise Unsupported("cast " + str(ck), n)
        if k == "DeclRefExpr" or k == "MemberExpr":
            return self.lv(n)
        if k == "CXXMemberCallExpr":
            m = unwrap(kids(n)[0])
            if m.get("name") in ("size", "length") and len(kids(n)) == 1 and t == "u64":
                obj = unwrap(kids(m)[0])
                if obj.get("kind") == "DeclRefExpr" and obj["referencedDecl"]["name"] == self.buf:
                    return EVal(self.size, "u64")
                v = self.lv(obj)
                if v.kind.startswith("vec:") or v.kind in ("string", "bytes"):
                    return EVal("(List.length %s)" % v.term, "u64")
            raise Unsupported("member call " + str(m.get("name")), n)
        if k == "BinaryOperator":
            op = n["opcode"]
            a, b = [self.as_val(self.expr(x)) for x in kids(n)]
            if a.kind != b.kind:
                raise Unsupported("operands of %s have kinds %s, %s" % (op, a.kind, b.kind), n)
            if op in ("<", ">", "<=", ">=", "==", "!=") and a.kind in ("u64", "i64v", "i32v"):
                lop = {"<": "<", ">": ">", "<=": "≤", ">=": "≥", "==": "=", "!=": "≠"}[op]
                return EVal("(decide (%s %s %s))" % (a.term, lop, b.term), "bool")
            if op in ("+", "-", "*") and a.kind == "u64":
                f = {"+": "add", "-": "sub", "*": "mul"}[op]
                return EVal("(Cxx.U64.%s %s %s)" % (f, a.term, b.term), "u64")
            raise Unsupported("operator %s on %s" % (op, a.kind), n)
        if k == "CallExpr" and callee_name(n) == "accumulate":
            return self.accumulate(n)
        raise Unsupported("expression " + str(k), n)

    def accumulate(self, n):
        """std::accumulate(V.begin(), V.end(), T{0}, [](T x, const E& e) { return <expr>; })"""
        args = kids(n)[1:]
        if len(args) != 4:
            raise Unsupported("accumulate arity", n)

        def rng(a, which):
            a = unwrap(a)
            if a.get("kind") != "CXXMemberCallExpr" or len(kids(a)) != 1:
                raise Unsupported("accumulate range", a)
            m = unwrap(kids(a)[0])
            if m.get("name") != which:
                raise Unsupported("accumulate range", a)
            return self.lv(kids(m)[0])
        v1, v2 = rng(args[0], "begin"), rng(args[1], "end")
        if v1.term != v2.term or not v1.kind.startswith("vec:"):
            raise Unsupported("accumulate over something other than one vector", n)
        acc_t = ctype(n)
        if acc_t not in ("i64", "u64"):
            raise Unsupported("accumulator type " + acc_t, n)
        init = self.cast(self.expr(args[2]), acc_t, n)
        lam = unwrap(args[3])
        if lam.get("kind") != "LambdaExpr":
            raise Unsupported("accumulate operation is not a lambda", lam)
        rec = [c for c in kids(lam) if c.get("kind") == "CXXRecordDecl"][0]
        call = [c for c in kids(rec) if c.get("kind") == "CXXMethodDecl" and c.get("name") == "operator()"][0]
        ps = [c for c in kids(call) if c.get("kind") == "ParmVarDecl"]
        body = [c for c in kids(call) if c.get("kind") == "CompoundStmt"][0]
        if len(ps) != 2 or ctype(ps[0]) != acc_t:
            raise Unsupported("lambda parameters", lam)
        ety = ctype(ps[1])
        elem = "struct:" + v1.kind[4:]
        m = re.fullmatch(r"\?std::optional<(?:djinterop::engine::v2::)?(\w+)>", ety)
        engaged_opt = False
        if m and "struct:" + m.group(1) == elem:
            engaged_opt = True     # optional<E> constructed from an E: always engaged
        elif ety != elem:
            raise Unsupported("lambda element parameter of type " + ety, lam)
        st = [c for c in kids(body) if not Dec(None).is_noop(c)]
        if len(st) != 1 or st[0].get("kind") != "ReturnStmt":
            raise Unsupported("lambda body is not a single return", body)
        saved = dict(self.locals)
        xn, en = lean_ident(ps[0]["name"]), lean_ident(ps[1]["name"])
        self.locals[ps[0]["name"]] = EVal(xn, "i64v" if acc_t == "i64" else "u64")
        self.locals[ps[1]["name"]] = EVal(en, elem)
        self.engaged = {ps[1]["name"]} if engaged_opt else set()
        try:
            rty = norm_type(call["type"]["qualType"].split("(")[0])
            r = self.cast(self.opt_expr(kids(st[0])[0]), ctype(rty), st[0])
            r = self.cast(r, acc_t, st[0])
        finally:
            self.locals = saved
            self.engaged = set()
        lt = "Int" if acc_t == "i64" else "Nat"
        return EVal("(List.foldl (fun (%s : %s) (%s : %s) => %s) %s %s)" %
                    (xn, lt, en, enc_ty(elem[7:]), r.term, init.term, v1.term), "i64v" if acc_t == "i64" else "u64")

    def opt_expr(self, n):
        """expr, plus `opt ? a : b` / `opt->m` for a lambda parameter that is an always-engaged optional"""
        u = unwrap(n)
        if u.get("kind") == "BinaryOperator":
            a, b = kids(u)
            sa, sb = self.as_val(self.opt_expr(a)), self.as_val(self.opt_expr(b))
            if u["opcode"] == "+" and sa.kind == sb.kind == "u64":
                return EVal("(Cxx.U64.add %s %s)" % (sa.term, sb.term), "u64")
            raise Unsupported("operator in lambda", u)
        if u.get("kind") in ("ImplicitCastExpr", "CXXStaticCastExpr") and u.get("castKind") == "IntegralCast":
            return self.cast(self.opt_expr(kids(u)[0]), ctype(u), u)
        if u.get("kind") == "ConditionalOperator" and getattr(self, "engaged", None):
            c, a, b = kids(u)
            if self.is_engaged_test(c):
                return self.opt_expr(a)
            raise Unsupported("conditional in lambda", u)
        if u.get("kind") == "CXXMemberCallExpr" and getattr(self, "engaged", None):
            m = unwrap(kids(u)[0])
            if m.get("name") in ("length", "size") and len(kids(u)) == 1:
                obj = unwrap(kids(m)[0])
                if obj.get("kind") == "MemberExpr" and obj.get("isArrow"):
                    base = unwrap(kids(obj)[0])
                    if base.get("kind") == "CXXOperatorCallExpr" and callee_name(base) == "operator->":
                        tgt = unwrap(kids(base)[1])
                        if tgt.get("kind") == "DeclRefExpr" and tgt["referencedDecl"]["name"] in self.engaged:
                            e = self.locals[tgt["referencedDecl"]["name"]]
                            sname = e.kind[7:]
                            f = obj.get("name")
                            kinds = dict(STRUCTS[sname]["fields"])
                            if f in kinds and kinds[f] in ("string", "bytes") and ctype(obj) == kinds[f]:
                                return EVal("(List.length %s)" % ENC_PROJ[sname][f].format(e.term), "u64")
            raise Unsupported("member call in lambda", u)
        return self.expr(n)

    def is_engaged_test(self, c):
        c = unwrap(c)
        if c.get("kind") == "ImplicitCastExpr" and c.get("castKind") == "UserDefinedConversion":
            c = unwrap(kids(c)[0])
        if c.get("kind") == "CXXMemberCallExpr":
            m = unwrap(kids(c)[0])
            if "operator bool" in (m.get("name") or ""):
                t = unwrap(kids(m)[0])
                return t.get("kind") == "DeclRefExpr" and t["referencedDecl"]["name"] in self.engaged
        return False

    def to_bits(self, v, pt, node):
        """Lean term of the bit pattern passed for a parameter of C type `pt`."""
        if v.kind == pt and pt in ("u8", "i32", "i64", "f64"):
            return v.term
        if pt == "i64":
            v = self.cast(v, "i64", node)
            return "(Prim.u64OfInt %s)" % v.term if v.kind == "i64v" else v.term
        if pt == "i32":
            v = self.cast(v, "i32", node)
            return "(Prim.u32OfInt %s)" % v.term if v.kind == "i32v" else v.term
        if pt == "u8":
            return self.cast(v, "u8", node).term
        raise Unsupported("argument of kind %s for a %s parameter" % (v.kind, pt), node)

    # ---- statements
    def is_ptr(self, a):
        a = unwrap(a)
        if a.get("kind") == "ImplicitCastExpr" and a.get("castKind") == "LValueToRValue":
            a = unwrap(kids(a)[0])
        return a.get("kind") == "DeclRefExpr" and a["referencedDecl"]["name"] == self.ptr and self.ptr is not None

    def stmts(self, body, out, top):
        d = Dec(None)
        body = [x for x in body if not d.is_noop(x)]
        for i, raw in enumerate(body):
            s = unwrap(raw)
            k = s.get("kind")
            last = i == len(body) - 1
            if k == "DeclStmt":
                for v in kids(s):
                    self.var_decl(v, out)
            elif k == "BinaryOperator" and s.get("opcode") == "=":
                a, b = kids(s)
                b = unwrap(b)
                if not self.is_ptr(a) or b.get("kind") != "CallExpr":
                    raise Unsupported("assignment other than ptr = encode_x(.., ptr)", s)
                f = callee_name(b)
                args = kids(b)[1:]
                if len(args) != 2 or not self.is_ptr(args[1]):
                    raise Unsupported("writer call whose last argument is not the cursor", b)
                if f in PRIM_ENC:
                    bits = self.to_bits(self.expr(args[0]), PRIM_ENC[f], b)
                    out.append("Wr.put (%s%s %s)" % (PRIMS, f, bits))
                elif f == "encode_extra":
                    v = self.lv(args[0])
                    if v.kind != "bytes":
                        raise Unsupported("encode_extra of a " + v.kind, b)
                    out.append("Wr.put %s" % v.term)
                elif f in ENC_HELPERS:
                    v = self.lv(args[0])
                    if v.kind != ENC_HELPERS[f]["arg"]:
                        raise Unsupported("%s of a %s" % (f, v.kind), b)
                    out.append("%s %s" % (ENC_HELPERS[f]["lean"], v.term))
                else:
                    raise Unsupported("call " + str(f), b)
            elif k == "CXXForRangeStmt":
                self.range_for(s, out)
            elif k == "IfStmt":
                parts = kids(s)
                if s.get("hasElse") or len(parts) != 2:
                    raise Unsupported("if with else", s)
                exn = d.throw_class(parts[1])
                if not exn:
                    raise Unsupported("if without throw", s)
                c = self.expr(parts[0])
                if c.kind != "bool":
                    raise Unsupported("condition of kind " + c.kind, s)
                out.append("if %s then Wr.throwW %s else" % (c.term, exn))
            elif k == "ReturnStmt":
                if not (top and last):
                    raise Unsupported("return before the end", s)
                return s
            else:
                raise Unsupported(str(k), s)
        return None

    def var_decl(self, v, out):
        name = v["name"]
        init = [c for c in kids(v) if not c.get("kind", "").endswith("Attr")]
        ty = ctype(v)
        if not init:
            raise Unsupported("uninitialised local " + name, v)
        e = unwrap(init[-1])
        k = e.get("kind")
        if k == "CXXConstructExpr" and ty == "bytes" and self.buf is None and self.fn["mode"] == "to_blob":
            a = [c for c in kids(e) if c.get("kind") != "CXXDefaultArgExpr"]
            if len(a) != 1:
                raise Unsupported("buffer constructor", v)
            sz = self.expr(a[0])
            if sz.kind != "u64":
                raise Unsupported("buffer size of kind " + sz.kind, v)
            self.buf, self.size = name, lean_ident(name + "_size")
            self.size_term = sz.term
            return
        if k == "CXXMemberCallExpr" and ty == "ptr" and self.ptr is None:
            m = unwrap(kids(e)[0])
            obj = unwrap(kids(m)[0])
            if m.get("name") == "data" and obj.get("kind") == "DeclRefExpr" and obj["referencedDecl"]["name"] == self.buf:
                self.ptr = name
                return
            raise Unsupported("pointer initialiser", v)
        if k == "BinaryOperator" and ty == "ptr" and self.end is None and self.ptr:
            a, b = kids(e)
            if self.is_ptr(a) and self.expr(b).term == self.size:
                self.end = name
                return
            raise Unsupported("end-pointer initialiser", v)
        if ty in ("i64", "u64", "i32"):
            val = self.cast(self.expr(init[-1]), ty, v)
            ln = lean_ident(name)
            out.append("let %s := %s" % (ln, val.term))
            self.locals[name] = EVal(ln, val.kind)
            return
        raise Unsupported("local of type " + ty, v)

    def range_for(self, s, out):
        parts = s.get("inner") or []
        if len(parts) != 8 or (parts[0] and parts[0].get("kind")):
            raise Unsupported("range-for shape", s)
        rng, loopvar, body = parts[1], parts[6], parts[7]
        coll = self.lv(kids(kids(rng)[0])[0])
        lv = kids(loopvar)[0]
        if coll.kind.startswith("vec:"):
            ek, lt = "struct:" + coll.kind[4:], enc_ty(coll.kind[4:])
            if ctype(lv) != ek:
                raise Unsupported("range-for element type", lv)
        elif coll.kind == "string":
            ek, lt = "char", "UInt8"
            if ctype(lv) != "char":
                raise Unsupported("range-for element type", lv)
        else:
            raise Unsupported("range-for over a " + coll.kind, s)
        name = lv["name"]
        if name in self.locals:
            raise Unsupported("range-for variable shadows a local", lv)
        ln = lean_ident(name)
        self.locals[name] = EVal(ln, ek)
        sub = []
        self.stmts(kids(body) if body.get("kind") == "CompoundStmt" else [body], sub, False)
        del self.locals[name]
        if not sub:
            raise Unsupported("empty loop body", body)
        # a body that mentions nothing but its own element becomes a definition of its own
        outer = {v.term for v in self.locals.values()} | {"v", "extra", self.size or ""}
        toks = set(re.findall(r"[A-Za-z_][A-Za-z_0-9']*", " ".join(sub)))
        if not (outer & toks):
            bname = "%s_body%d" % (self.fn["lean"], len(self.aux) + 1)
            self.aux.append((bname, ln, lt, sub))
            out.append("Wr.forIn' %s %s" % (coll.term, bname))
        else:
            out.append("Wr.forIn' %s (fun (%s : %s) => do" % (coll.term, ln, lt))
            out.extend("    " + l for l in sub)
            out[-1] += ")"

    def function(self, decl):
        fn = self.fn
        params = [p for p in kids(decl) if p.get("kind") == "ParmVarDecl"]
        body = [c for c in kids(decl) if c.get("kind") == "CompoundStmt"][0]
        out = []
        if fn["mode"] == "to_blob":
            if params:
                raise Unsupported("to_blob signature", decl)
            sd = STRUCTS[fn["struct"]]
            self.this = (fn["struct"], "v", "extra")
            ret = self.stmts(kids(body), out, True)
            if ret is None or self.buf is None or self.ptr is None:
                raise Unsupported("function shape", decl)
            r = unwrap(kids(ret)[0])
            while r.get("kind") == "CXXConstructExpr" and len(kids(r)) == 1:
                r = unwrap(kids(r)[0])
            if r.get("kind") == "CallExpr" and callee_name(r) == "zlib_compress":
                r = unwrap(kids(r)[1])
            if r.get("kind") != "DeclRefExpr" or r["referencedDecl"]["name"] != self.buf:
                raise Unsupported("return of something other than the buffer", ret)
            pre = [l for l in out if l.startswith("let ")]
            # locals that the size expression needs are pure lets: emit them before the allocation
            head = ["def %s (v : %s) (extra : Bytes) : Res Bytes :=" % (fn["lean"], sd["ty"])]
            lets, rest, seen_put = [], [], False
            for l in out:
                (rest if (seen_put or not l.startswith("let ")) else lets).append(l)
                seen_put = seen_put or not l.startswith("let ")
            head += ["  " + l for l in lets]
            head.append("  Wr.run %s (do" % self.size_term)
            rest = rest or ["pure ()"]
            lines = head + ["    " + l for l in rest]
            lines[-1] += ")"
            return self.aux_defs() + lines
        # helper: std::byte* f(const std::vector<E>& xs, std::byte* ptr) { ...; return ptr; }
        if len(params) != 2 or ctype(params[0]) != fn["arg"] or ctype(params[1]) != "ptr":
            raise Unsupported("helper signature", decl)
        xs = lean_ident(params[0]["name"])
        self.locals[params[0]["name"]] = EVal(xs, fn["arg"])
        self.ptr = params[1]["name"]
        ret = self.stmts(kids(body), out, True)
        if ret is None or not self.is_ptr(kids(ret)[0]):
            raise Unsupported("helper does not return the cursor", decl)
        lines = ["def %s (%s : List %s) : Wr Unit := (do" % (fn["lean"], xs, enc_ty(fn["arg"][4:]))]
        lines += ["  " + l for l in out]
        lines[-1] += ")"
        return self.aux_defs() + lines

    def aux_defs(self):
        res = []
        for bname, ln, lt, sub in self.aux:
            res += ["def %s (%s : %s) : Wr Unit := (do" % (bname, ln, lt)] + ["  " + l for l in sub]
            res[-1] += ")"
            res.append("")
        return res


def refers_to(n, name):
    if isinstance(n, dict):
        if n.get("kind") == "DeclRefExpr" and n.get("referencedDecl", {}).get("name") == name:
            return True
        return any(refers_to(c, name) for c in n.get("inner", []) or [])
    return False


# ---------------------------------------------------------------- driver

def translate_one(fn):
    src = os.path.join(REPO, V2DIR, fn["file"])
    rel = V2DIR + fn["file"]
    docs = clang_ast(src, fn["filt"])
    defs = []
    for d in docs:
        annotate(d, rel)
        if d.get("kind") in ("CXXMethodDecl", "FunctionDecl") and any(c.get("kind") == "CompoundStmt" for c in kids(d)):
            defs.append(d)
    if len(defs) != 1:
        raise Unsupported("definition of %s not found (%d candidates)" % (fn["filt"], len(defs)), where=rel)
    if fn["mode"] in ("to_blob", "enc_helper"):
        return Enc(dict(fn)).function(defs[0])
    return Dec(dict(fn)).function(defs[0])


HEADER = """/- GENERATED by tools/tr_blobs.py from src/djinterop/engine/v2/*_blob.cpp — do not edit.
   One block per translated C++ function; a function outside the translator's fragment keeps
   its previous block (see the translator's status line in the evidence). -/
import EngineModel.Impl.CursorCxx
import EngineModel.Impl.CxxPrims
import EngineModel.Format.V2

namespace EngineModel.Gen.ImplV2
open EngineModel
"""
FOOTER = "end EngineModel.Gen.ImplV2\n"


def old_blocks():
    try:
        txt = open(TARGET).read()
    except OSError:
        return {}
    return {m.group(1): m.group(2) for m in re.finditer(r"-- BEGIN (\w+)[^\n]*\n(.*?)-- END \1\n", txt, re.S)}


def translate_all(only=None):
    funcs = [f for f in FUNCS if only is None or f["lean"] in only]

    def work(fn):
        try:
            return fn, translate_one(fn), None
        except Unsupported as e:
            return fn, None, e
        except (KeyError, IndexError, TypeError, ValueError) as e:   # unexpected AST shape
            return fn, None, Unsupported("ast-shape %r" % (e,), where=V2DIR + fn["file"])
    with ThreadPoolExecutor(max_workers=6) as ex:
        res = list(ex.map(work, funcs))
    return res


def main():
    res = translate_all()
    old = old_blocks()
    parts, problems, kept = [HEADER], [], []
    for fn, lines, err in res:
        if err is None:
            block = "\n".join(lines) + "\n"
        else:
            problems.append("unsupported-node: %s [%s]" % (err, fn["lean"]))
            block = old.get(fn["lean"])
            if block is None:
                continue          # never translated: the hand model stands alone
            kept.append(fn["lean"])
        parts.append("-- BEGIN %s  (%s%s)\n%s-- END %s\n" % (fn["lean"], V2DIR, fn["file"], block, fn["lean"]))
    parts.append(FOOTER)
    txt = "\n".join(parts)
    prev = open(TARGET).read() if os.path.exists(TARGET) else None
    if prev != txt:
        open(TARGET, "w").write(txt)
    status = "translator: regenerated (%s)" % ("identical" if prev == txt else "changed")
    if problems:
        status += "; " + "; ".join(problems) + ("; kept previous translation of: " + ", ".join(kept) if kept else "")
    print(status)
    return 2 if problems else 0


if __name__ == "__main__":
    sys.exit(main())
