#!/usr/bin/env python3
"""Translator: the schema-2.x blob codecs  src/djinterop/engine/v2/*_blob.cpp
->  lean/EngineModel/Gen/ImplV2Gen.lean  (definitions over the cursor monad of
lean/EngineModel/Impl/Cursor.lean + CursorCxx.lean).

The model of the byte-level decoders is *regenerated from clang's typed AST* on
every run; lean/Proofs/ImplV2Gen.lean proves each regenerated definition equal
to the hand-written mirror Impl.V2.*, so that the C02..C05 theorems (stated on
the hand model) are about the code that is in /repo now: a change of the C++
that changes the translation breaks `lake build`.

Fragment (anything else -> `unsupported-node: <kind> at <file:line>`, the
function's previous translation is kept, nothing else is touched):

  declarations      `const auto buf = zlib_uncompress(blob)`, `auto ptr = buf.data()`,
                    `const auto end = ptr + buf.size()`, locals of scalar / struct /
                    vector type without initialiser, `T x{}`
  reads             `std::tie(lv, ptr) = decode_<prim>(ptr)`, `= decode_extra(ptr, end)`,
                    `= <translated helper>(ptr, end)`
  guards            `if (cond) { throw std::<exception>{...}; }`
  conditions        integer literals, locals, `buf.size()`, `end - ptr`, + - * / on signed
                    64/32-bit (checked), comparisons, `||`, `&&` (short-circuit), integral casts
  loops             `for (int64_t i = 0; i < n; ++i) { ...; v.push_back(x); }` (i unused),
                    `v.resize(n); for (auto& e : v) { ... }`
  strings           `s.assign(reinterpret_cast<const char*>(ptr), n)`, `ptr += n`
  one-armed `if`    `if (cond) { assignments }` (joined on the variables it assigns)
  other             `v.reserve(n)`, `assert(..)` under NDEBUG, `return result;`,
                    `return {std::move(result), ptr};`

What is trusted: clang's AST, and the mapping of each node kind to a combinator
(design/codegen.md lists it).  The C++ struct <-> Lean structure correspondence
(STRUCTS below) is part of the mapping.
"""
import json, os, re, subprocess, sys
from concurrent.futures import ThreadPoolExecutor
sys.path.insert(0, os.path.dirname(os.path.abspath(__file__)))
from common import *

V2DIR = "src/djinterop/engine/v2/"
TARGET = os.path.join(LEAN, "EngineModel", "Gen", "ImplV2Gen.lean")
DEFINES = ["-DNDEBUG", "-D_GLIBCXX_ASSERTIONS", "-DDJINTEROP_SOURCE", "-DDjInterop_EXPORTS", "-DDJINTEROP_VERIF"]


class Unsupported(Exception):
    def __init__(self, kind, node=None, where=None):
        self.kind = kind
        self.where = where or (node.get("_loc") if isinstance(node, dict) else None) or "?"
        Exception.__init__(self, "%s at %s" % (kind, self.where))


# ---------------------------------------------------------------- tables (the trusted mapping)

# primitive readers of encode_decode_utils.hpp: name -> (codec, C type of the value)
PRIM_DEC = {
    "decode_uint8": ("Codec.u8", "u8"),
    "decode_int32_le": ("Codec.u32le", "i32"), "decode_int32_be": ("Codec.u32be", "i32"),
    "decode_int64_le": ("Codec.u64le", "i64"), "decode_int64_be": ("Codec.u64be", "i64"),
    "decode_double_le": ("Codec.u64le", "f64"), "decode_double_be": ("Codec.u64be", "f64"),
}
# primitive writers: name -> (codec, C type of the value)
PRIM_ENC = {
    "encode_uint8": ("Codec.u8", "u8"),
    "encode_int32_le": ("Codec.u32le", "i32"), "encode_int32_be": ("Codec.u32be", "i32"),
    "encode_int64_le": ("Codec.u64le", "i64"), "encode_int64_be": ("Codec.u64be", "i64"),
    "encode_double_le": ("Codec.u64le", "f64"), "encode_double_be": ("Codec.u64be", "f64"),
}
# Lean representation of a C scalar held in a variable: the wire bit pattern
LEAN_OF = {"u8": "UInt8", "i32": "UInt32", "i64": "UInt64", "f64": "UInt64", "bool": "Bool",
           "u64": "Nat", "string": "Bytes", "bytes": "Bytes"}
EXN = {"std::invalid_argument": ".invalid_argument", "std::length_error": ".length_or_alloc",
       "std::out_of_range": ".out_of_range", "std::runtime_error": ".runtime_error",
       "std::logic_error": ".logic_error"}

# C++ struct -> Lean value.  `fields`: (C++ member, kind) in the order of the
# `ctor` placeholders; kind = scalar C type | string | bytes | struct:<name> | vec:<name>.
# `extra` = the member holding the undecoded remainder (returned beside the value).
# `size` = sizeof on this ABI (x86-64 / libstdc++), for vector::max_size().
STRUCTS = {
    "track_data_blob": dict(
        ty="EngineModel.V2.Track", extra="extra_data",
        fields=[("sample_rate", "f64"), ("samples", "i64"), ("key", "i32"), ("average_loudness_low", "f64"),
                ("average_loudness_mid", "f64"), ("average_loudness_high", "f64")]),
    "overview_waveform_point": dict(
        ty="Bytes", size=3, ctor="[{low_value}, {mid_value}, {high_value}]",
        fields=[("low_value", "u8"), ("mid_value", "u8"), ("high_value", "u8")]),
    "overview_waveform_data_blob": dict(
        ty="EngineModel.V2.Ovw", extra="extra_data",
        ctor="⟨{samples_per_waveform_point}, List.flatten {waveform_points}, {maximum_point}⟩",
        fields=[("samples_per_waveform_point", "f64"), ("waveform_points", "vec:overview_waveform_point"),
                ("maximum_point", "struct:overview_waveform_point")]),
    "beat_grid_marker_blob": dict(
        ty="EngineModel.V2.Marker", size=24,
        fields=[("sample_offset", "f64"), ("beat_number", "i64"), ("number_of_beats", "i32"),
                ("unknown_value_1", "i32")]),
    "beat_data_blob": dict(
        ty="EngineModel.V2.Beat", extra="extra_data",
        fields=[("sample_rate", "f64"), ("samples", "f64"), ("is_beatgrid_set", "u8"),
                ("default_beat_grid", "vec:beat_grid_marker_blob"), ("adjusted_beat_grid", "vec:beat_grid_marker_blob")]),
    "pad_color": dict(
        ty="EngineModel.V2.Color", size=4,
        ctor="⟨{a}, {r}, {g}, {b}⟩",
        fields=[("r", "u8"), ("g", "u8"), ("b", "u8"), ("a", "u8")]),
    "quick_cue_blob": dict(
        ty="EngineModel.V2.Cue", size=48,
        fields=[("label", "string"), ("sample_offset", "f64"), ("color", "struct:pad_color")]),
    "quick_cues_blob": dict(
        ty="EngineModel.V2.Cues", extra="extra_data",
        fields=[("quick_cues", "vec:quick_cue_blob"), ("adjusted_main_cue", "f64"), ("is_main_cue_adjusted", "bool"),
                ("default_main_cue", "f64")]),
    "loop_blob": dict(
        ty="EngineModel.V2.Loop", size=56,
        fields=[("label", "string"), ("start_sample_offset", "f64"), ("end_sample_offset", "f64"),
                ("is_start_set", "u8"), ("is_end_set", "u8"), ("color", "struct:pad_color")]),
    "loops_blob": dict(
        ty="EngineModel.V2.Loops", extra="extra_data", ctor="{loops}",
        fields=[("loops", "vec:loop_blob")]),
}

# functions to translate, in dependency order
FUNCS = [
    dict(lean="decodeTrack", file="track_data_blob.cpp", filt="track_data_blob::from_blob", mode="from_blob",
         struct="track_data_blob"),
    dict(lean="decodeOvw", file="overview_waveform_data_blob.cpp", filt="overview_waveform_data_blob::from_blob",
         mode="from_blob", struct="overview_waveform_data_blob"),
    dict(lean="decodeGrid", file="beat_data_blob.cpp", filt="decode_beatgrid", mode="helper",
         cname="decode_beatgrid", ret="vec:beat_grid_marker_blob"),
    dict(lean="decodeBeat", file="beat_data_blob.cpp", filt="beat_data_blob::from_blob", mode="from_blob",
         struct="beat_data_blob"),
    dict(lean="decodeCues", file="quick_cues_blob.cpp", filt="quick_cues_blob::from_blob", mode="from_blob",
         struct="quick_cues_blob"),
    dict(lean="decodeLoops", file="loops_blob.cpp", filt="loops_blob::from_blob", mode="from_blob",
         struct="loops_blob"),
]
HELPERS = {f["cname"]: f for f in FUNCS if f["mode"] == "helper"}

LEAN_KEYWORDS = {"end", "at", "from", "have", "show", "fun", "do", "let", "in", "if", "then", "else", "match",
                 "with", "open", "local", "instance", "where", "by", "for", "return", "at", "mut", "try", "catch"}


# ---------------------------------------------------------------- clang

def clang_ast(src, filt):
    cmd = (["clang++-14", "-std=gnu++17", "-fsyntax-only"] + DEFINES +
           ["-I" + GENINC, "-I" + REPO + "/include", "-I" + REPO + "/src",
            "-I" + REPO + "/ext/sqlite_modern_cpp", "-I" + REPO + "/ext/date",
            "-Xclang", "-ast-dump=json", "-Xclang", "-ast-dump-filter=" + filt, src])
    r = subprocess.run(cmd, stdout=subprocess.PIPE, stderr=subprocess.PIPE, text=True)
    txt = r.stdout
    dec = json.JSONDecoder()
    i, docs = 0, []
    while i < len(txt):
        while i < len(txt) and txt[i].isspace():
            i += 1
        if i >= len(txt):
            break
        o, j = dec.raw_decode(txt, i)
        docs.append(o)
        i = j
    if not docs and r.returncode != 0:
        raise Unsupported("clang-error: " + (r.stderr.strip().split("\n") or ["?"])[0][:160], where=src)
    return docs


def annotate(doc, fname):
    """clang omits `line` when it repeats: carry the last seen line through the tree."""
    st = {"line": 0}

    def loc_line(l):
        if not isinstance(l, dict):
            return None
        for k in ("expansionLoc", "spellingLoc"):
            if k in l and isinstance(l[k], dict) and "line" in l[k]:
                return l[k]["line"]
        return l.get("line")

    def walk(n):
        if not isinstance(n, dict):
            return
        for key in ("loc",):
            ln = loc_line(n.get(key))
            if ln:
                st["line"] = ln
        rb = (n.get("range") or {}).get("begin")
        ln = loc_line(rb)
        if ln:
            st["line"] = ln
        n["_loc"] = "%s:%d" % (fname, st["line"])
        for c in n.get("inner", []) or []:
            walk(c)
        re_ = (n.get("range") or {}).get("end")
        ln = loc_line(re_)
        if ln:
            st["line"] = ln
    walk(doc)


# ---------------------------------------------------------------- AST helpers

WRAPPERS = ("ParenExpr", "ConstantExpr", "ExprWithCleanups", "MaterializeTemporaryExpr", "CXXBindTemporaryExpr")


def kids(n):
    return [c for c in (n.get("inner") or []) if isinstance(c, dict) and c.get("kind")]


def unwrap(n):
    """Strip nodes that carry no semantics of their own."""
    while True:
        k = n.get("kind")
        if k in WRAPPERS and len(kids(n)) == 1:
            n = kids(n)[0]
        elif k == "ImplicitCastExpr" and n.get("castKind") in ("NoOp", "FunctionToPointerDecay") and len(kids(n)) == 1:
            n = kids(n)[0]
        else:
            return n


def qtype(n):
    t = n.get("type", {}) if isinstance(n, dict) else {}
    return t.get("desugaredQualType") or t.get("qualType", "")


def norm_type(q):
    q = re.sub(r"\bconst\b|\bstruct\b|&", " ", q)
    q = re.sub(r"\s*\*", " *", q)
    q = re.sub(r"\s+", " ", q).strip()
    return q


SCALARS = {"long": "i64", "long long": "i64", "int64_t": "i64", "int": "i32", "int32_t": "i32",
           "unsigned long": "u64", "unsigned long long": "u64", "size_t": "u64", "std::size_t": "u64",
           "std::vector::size_type": "u64", "unsigned char": "u8", "uint8_t": "u8", "bool": "bool",
           "double": "f64", "char": "char"}


def ctype(n_or_q):
    """Classify a C++ type: scalar tag | ptr | bytes | string | struct:<name> | vec:<name> | ?<text>"""
    q = n_or_q if isinstance(n_or_q, str) else qtype(n_or_q)
    q = norm_type(q)
    if q in SCALARS:
        return SCALARS[q]
    if re.fullmatch(r"(std::)?byte \*", q):
        return "ptr"
    if re.fullmatch(r"std::vector<(enum )?std::byte(, std::allocator<(enum )?std::byte> ?)?>", q):
        return "bytes"
    if re.fullmatch(r"std::(__cxx11::)?basic_string<char(, .*)?>|std::string", q):
        return "string"
    m = re.fullmatch(r"std::vector<(?:djinterop::engine::v2::)?(\w+)(, std::allocator<.*> ?)?>", q)
    if m and m.group(1) in STRUCTS:
        return "vec:" + m.group(1)
    m = re.fullmatch(r"(?:djinterop::engine::v2::|djinterop::)?(\w+)", q)
    if m and m.group(1) in STRUCTS:
        return "struct:" + m.group(1)
    return "?" + q


def lean_ident(path):
    s = re.sub(r"[^A-Za-z0-9_]", "_", path)
    if s in LEAN_KEYWORDS or not re.match(r"[A-Za-z_]", s):
        s = s + "_"
    return s


def callee_name(call):
    c = unwrap(kids(call)[0])
    if c.get("kind") == "DeclRefExpr":
        return c["referencedDecl"].get("name")
    if c.get("kind") == "MemberExpr":
        return c.get("name")
    return None


def int_literal(n):
    """Value of an integer literal possibly under integral casts / unary minus; None otherwise."""
    n = unwrap(n)
    k = n.get("kind")
    if k == "IntegerLiteral":
        return int(n["value"])
    if k in ("ImplicitCastExpr", "CXXStaticCastExpr", "CStyleCastExpr", "CXXFunctionalCastExpr") \
            and n.get("castKind") in ("IntegralCast", "NoOp") and len(kids(n)) == 1:
        v = int_literal(kids(n)[0])
        if v is None:
            return None
        t = ctype(n)
        if t == "u64":
            return v % (1 << 64)
        if t in ("i64", "i32", "u8"):
            lo, hi = {"i64": (-(1 << 63), (1 << 63) - 1), "i32": (-(1 << 31), (1 << 31) - 1), "u8": (0, 255)}[t]
            return v if lo <= v <= hi else None
        return None
    if k == "UnaryOperator" and n.get("opcode") == "-":
        v = int_literal(kids(n)[0])
        return None if v is None else -v
    return None


# ---------------------------------------------------------------- decoder translation

class Val:
    """A C++ object held in a Lean local.  repr: 'bits' (wire bit pattern, for i32/i64/f64/u8),
    'val' (mathematical value: Int for signed, Nat for u64), 'obj' (bytes / list / structure)."""
    def __init__(self, name, ty, repr_):
        self.name, self.ty, self.repr = name, ty, repr_


class Env:
    def __init__(self):
        self.vals = {}        # path -> Val (assigned)
        self.decl = {}        # path -> ctype of declared locals (scalars, structs, vectors)
        self.fresh_vec = set()  # paths of vectors known to be empty
        self.sized_vec = {}   # path -> Lean Nat term: vector resized to that many default elements
        self.buf = None       # payload vector
        self.buf_size = None  # Lean name holding buf.size()
        self.ptr = None
        self.end = None
        self.noread = True    # cursor still at buf.data()

    def copy(self):
        e = Env()
        e.vals = dict(self.vals)
        e.decl = dict(self.decl)
        e.fresh_vec = set(self.fresh_vec)
        e.sized_vec = dict(self.sized_vec)
        e.buf, e.buf_size, e.ptr, e.end, e.noread = self.buf, self.buf_size, self.ptr, self.end, self.noread
        return e


class Dec:
    def __init__(self, fn):
        self.fn = fn
        self.tmp = 0
        self.aux = []      # hoisted loop bodies: (name, Lean type, lines)

    def fresh(self):
        self.tmp += 1
        return "t%d" % self.tmp

    # ---- lvalues -------------------------------------------------------
    def lv_path(self, n, env):
        """Path of an lvalue made of a local and member accesses; checks member types against STRUCTS."""
        n = unwrap(n)
        k = n.get("kind")
        if k == "DeclRefExpr":
            name = n["referencedDecl"]["name"]
            if name not in env.decl:
                raise Unsupported("lvalue: unknown variable " + name, n)
            return name, env.decl[name]
        if k == "MemberExpr" and not n.get("isArrow"):
            base, bty = self.lv_path(kids(n)[0], env)
            if not bty.startswith("struct:"):
                raise Unsupported("member of non-struct " + bty, n)
            sd = STRUCTS[bty[7:]]
            fname = n.get("name")
            kinds = dict(sd["fields"])
            if "extra" in sd:
                kinds[sd["extra"]] = "bytes"
            if fname not in kinds:
                raise Unsupported("unknown member %s of %s" % (fname, bty[7:]), n)
            fty = kinds[fname]
            aty = ctype(n)
            if aty != fty:
                raise Unsupported("member %s.%s has C++ type %s, table says %s" % (bty[7:], fname, aty, fty), n)
            return base + "." + fname, fty
        raise Unsupported("lvalue " + str(k), n)

    def declare(self, name, ty, env, node, value_init=False):
        """A local without (or with value-) initialisation."""
        env.decl[name] = ty
        self.declare_path(name, ty, env, node, value_init)

    def declare_path(self, path, ty, env, node, value_init):
        for p in [p for p in env.vals if p == path or p.startswith(path + ".")]:
            del env.vals[p]
        if ty.startswith("struct:"):
            sd = STRUCTS[ty[7:]]
            for f, k in sd["fields"] + ([(sd["extra"], "bytes")] if "extra" in sd else []):
                self.declare_path(path + "." + f, k, env, node, value_init)
        elif ty.startswith("vec:"):
            env.fresh_vec.add(path)
            env.sized_vec.pop(path, None)
        elif ty in ("string", "bytes"):
            env.vals[path] = Val("([] : Bytes)", ty, "obj")
        elif ty in ("u8", "i32", "i64", "f64", "bool", "u64"):
            if value_init:
                env.vals[path] = Val("false" if ty == "bool" else "(0 : %s)" % LEAN_OF[ty], ty, "bits" if ty != "u64" else "val")
            # else: indeterminate until assigned
        else:
            raise Unsupported("local of type " + ty, node)

    def build(self, path, ty, env, node):
        """Lean term for the object at `path`."""
        if ty.startswith("struct:"):
            sd = STRUCTS[ty[7:]]
            parts = {f: self.build(path + "." + f, k, env, node) for f, k in sd["fields"]}
            if "ctor" in sd:
                body = sd["ctor"].format(**parts)
            else:
                body = "⟨" + ", ".join(parts[f] for f, _ in sd["fields"]) + "⟩"
            return "(%s : %s)" % (body, sd["ty"])
        if ty.startswith("vec:"):
            if path in env.vals:
                return env.vals[path].name
            if path in env.fresh_vec:
                return "([] : List %s)" % STRUCTS[ty[4:]]["ty"]
            raise Unsupported("vector %s in an unknown state" % path, node)
        v = env.vals.get(path)
        if v is None:
            raise Unsupported("use of uninitialised " + path, node)
        return self.as_bits(v)

    def as_bits(self, v):
        if v.repr in ("bits", "obj"):
            return v.name
        if v.ty == "i64":
            return "(Prim.u64OfInt %s)" % v.name
        if v.ty == "i32":
            return "(Prim.u32OfInt %s)" % v.name
        return v.name

    # ---- expressions ----------------------------------------------------
    def expr(self, n, env):
        """-> (prelude lines, Lean term, ctype).  Signed values are Int, u64 is Nat, u8 is UInt8, bool is Bool."""
        n = unwrap(n)
        k = n.get("kind")
        lit = int_literal(n)
        if lit is not None and ctype(n) in ("i32", "i64", "u64"):
            t = ctype(n)
            return [], "(%d : %s)" % (lit, "Nat" if t == "u64" else "Int"), t
        if k == "CXXBoolLiteralExpr":
            return [], "true" if n.get("value") else "false", "bool"
        if k in ("ImplicitCastExpr", "CXXStaticCastExpr", "CStyleCastExpr", "CXXFunctionalCastExpr"):
            ck = n.get("castKind")
            sub = kids(n)[0]
            if ck == "LValueToRValue":
                path, ty = self.lv_path(sub, env)
                v = env.vals.get(path)
                if v is None:
                    raise Unsupported("read of uninitialised " + path, n)
                if ty in ("i64", "i32"):
                    if v.repr == "bits":
                        return [], "(Prim.s%s %s)" % (ty[1:], v.name), ty
                    return [], v.name, ty
                if ty in ("u8", "u64", "bool"):
                    return [], v.name, ty
                raise Unsupported("rvalue of type " + ty, n)
            if ck == "NoOp":
                return self.expr(sub, env)
            if ck == "IntegralCast":
                pre, e, st = self.expr(sub, env)
                dt = ctype(n)
                if st == dt:
                    return pre, e, dt
                if st == "u8" and dt in ("i32", "i64"):
                    return pre, "(%s.toNat : Int)" % e, dt
                if st == "u8" and dt == "u64":
                    return pre, "%s.toNat" % e, dt
                if st == "i32" and dt == "i64":
                    return pre, e, dt
                if st in ("i32", "i64") and dt == "u64":
                    return pre, "(Cxx.u64OfInt %s)" % e, dt
                if st == "u64" and dt == "i64":
                    return pre, "(Cxx.i64OfU64 %s)" % e, dt
                raise Unsupported("IntegralCast %s->%s" % (st, dt), n)
            if ck == "IntegralToBoolean":
                pre, e, st = self.expr(sub, env)
                if st == "u8":
                    return pre, "(%s != 0)" % e, "bool"
                if st in ("i32", "i64", "u64"):
                    return pre, "(decide (%s ≠ 0))" % e, "bool"
            raise Unsupported("cast " + str(ck), n)
        if k == "CXXMemberCallExpr":
            m = unwrap(kids(n)[0])
            obj = unwrap(kids(m)[0]) if kids(m) else {}
            if m.get("name") == "size" and obj.get("kind") == "DeclRefExpr" and \
                    obj["referencedDecl"]["name"] == env.buf and len(kids(n)) == 1 and env.buf_size:
                return [], env.buf_size, "u64"
            raise Unsupported("member call " + str(m.get("name")), n)
        if k == "BinaryOperator":
            op = n["opcode"]
            a, b = kids(n)
            if op in ("||", "&&"):
                pa, ea, ta = self.expr(a, env)
                pb, eb, tb = self.expr(b, env)
                if ta != "bool" or tb != "bool":
                    raise Unsupported("operand of %s is not bool" % op, n)
                if not pb:
                    return pa, "(%s %s %s)" % (ea, op, eb), "bool"
                t = self.fresh()
                comb = "Cur.orElse" if op == "||" else "Cur.andAlso"
                rhs = "(do " + "; ".join(pb + ["pure %s" % eb]) + ")"
                return pa + ["let %s ← %s (pure %s) %s" % (t, comb, ea, rhs)], t, "bool"
            # pointer difference end - ptr
            if op == "-" and ctype(a) == "ptr" and ctype(b) == "ptr":
                ua, ub_ = unwrap(a), unwrap(b)

                def var(x):
                    x = unwrap(x)
                    if x.get("kind") == "ImplicitCastExpr" and x.get("castKind") == "LValueToRValue":
                        x = unwrap(kids(x)[0])
                    return x["referencedDecl"]["name"] if x.get("kind") == "DeclRefExpr" else None
                if var(ua) == env.end and var(ub_) == env.ptr and env.end:
                    t = self.fresh()
                    return ["let %s ← Cur.remaining" % t], "(%s : Int)" % t, "i64"
                raise Unsupported("pointer difference other than end - ptr", n)
            pa, ea, ta = self.expr(a, env)
            pb, eb, tb = self.expr(b, env)
            if ta != tb:
                raise Unsupported("operands of %s have types %s, %s" % (op, ta, tb), n)
            if op in ("<", ">", "<=", ">=", "==", "!="):
                if ta not in ("i32", "i64", "u64"):
                    raise Unsupported("comparison on " + ta, n)
                lop = {"<": "<", ">": ">", "<=": "≤", ">=": "≥", "==": "=", "!=": "≠"}[op]
                return pa + pb, "(decide (%s %s %s))" % (ea, lop, eb), "bool"
            if op in ("+", "-", "*") and ta in ("i32", "i64"):
                t = self.fresh()
                chk = "Cur.chkI64" if ta == "i64" else "Cur.chkI32"
                return pa + pb + ["let %s ← %s (%s %s %s)" % (t, chk, ea, op, eb)], t, ta
            if op == "/" and ta == "i64":
                d = int_literal(b)
                if d is not None and d not in (0, -1):
                    # |a / d| <= |a|: representable whenever a is
                    return pa + pb, "(Int.tdiv %s %s)" % (ea, eb), ta
                t = self.fresh()
                return pa + pb + ["let %s ← Cur.divI64 %s %s" % (t, ea, eb)], t, ta
            if op in ("+", "-", "*") and ta == "u64":
                f = {"+": "add", "-": "sub", "*": "mul"}[op]
                return pa + pb, "(Cxx.U64.%s %s %s)" % (f, ea, eb), ta
            raise Unsupported("operator %s on %s" % (op, ta), n)
        raise Unsupported("expression " + str(k), n)

    # ---- statements -----------------------------------------------------
    def is_noop(self, s):
        s = unwrap(s)
        if s.get("kind") == "NullStmt":
            return True
        if s.get("kind") in ("CXXStaticCastExpr", "CStyleCastExpr", "CXXFunctionalCastExpr") and s.get("castKind") == "ToVoid":
            return int_literal(kids(s)[0]) is not None
        return False

    def throw_class(self, s):
        """If `s` (or the single statement of its block) is `throw std::X{...}` -> Exn; else None."""
        s = unwrap(s)
        if s.get("kind") == "CompoundStmt":
            body = [c for c in kids(s) if not self.is_noop(c)]
            if len(body) != 1:
                return None
            return self.throw_class(body[0])
        if s.get("kind") != "CXXThrowExpr" or not kids(s):
            return None
        e = unwrap(kids(s)[0])
        t = norm_type(qtype(e))
        if t in EXN:
            return EXN[t]
        raise Unsupported("throw of " + t, s)

    def ptr_arg(self, a, env, which):
        a = unwrap(a)
        if a.get("kind") == "ImplicitCastExpr" and a.get("castKind") == "LValueToRValue":
            a = unwrap(kids(a)[0])
        want = env.ptr if which == "ptr" else env.end
        if a.get("kind") != "DeclRefExpr" or a["referencedDecl"]["name"] != want or want is None:
            raise Unsupported("argument is not the cursor `%s`" % which, a)

    def tie_assign(self, s, env, out):
        """std::tie(lv, ptr) = <reader>(ptr[, end])"""
        args = kids(s)
        if len(args) != 3 or callee_name(s) != "operator=":
            raise Unsupported("operator call " + str(callee_name(s)), s)
        lhs, rhs = unwrap(args[1]), unwrap(args[2])
        if lhs.get("kind") != "CallExpr" or callee_name(lhs) != "tie" or len(kids(lhs)) != 3:
            raise Unsupported("assignment target is not std::tie(x, ptr)", s)
        tgt, p = kids(lhs)[1], unwrap(kids(lhs)[2])
        if p.get("kind") != "DeclRefExpr" or p["referencedDecl"]["name"] != env.ptr:
            raise Unsupported("second element of std::tie is not the cursor", s)
        if rhs.get("kind") != "CallExpr":
            raise Unsupported("right-hand side " + str(rhs.get("kind")), s)
        f = callee_name(rhs)
        cargs = kids(rhs)[1:]
        path, ty = self.lv_path(tgt, env)
        name = lean_ident(path)
        env.noread = False
        if f in PRIM_DEC:
            if len(cargs) != 1:
                raise Unsupported("arity of " + f, rhs)
            self.ptr_arg(cargs[0], env, "ptr")
            codec, vty = PRIM_DEC[f]
            out.append("let %s ← Cur.rd %s" % (name, codec))
            if ty == vty:
                env.vals[path] = Val(name, ty, "bits")
            elif vty == "u8" and ty == "bool":
                # pair<uint8_t, ptr> assigned to tuple<bool&, ptr&>: integral -> bool conversion
                out.append("let %s := (%s != 0)" % (name, name))
                env.vals[path] = Val(name, ty, "bits")
            else:
                raise Unsupported("%s assigned to a %s" % (f, ty), s)
            return
        if f == "decode_extra":
            if len(cargs) != 2:
                raise Unsupported("arity of decode_extra", rhs)
            self.ptr_arg(cargs[0], env, "ptr")
            self.ptr_arg(cargs[1], env, "end")
            if ty != "bytes":
                raise Unsupported("decode_extra assigned to a " + ty, s)
            out.append("let %s ← Cur.rest" % name)
            env.vals[path] = Val(name, ty, "obj")
            return
        if f in HELPERS:
            h = HELPERS[f]
            if len(cargs) != 2:
                raise Unsupported("arity of " + f, rhs)
            self.ptr_arg(cargs[0], env, "ptr")
            self.ptr_arg(cargs[1], env, "end")
            if ty != h["ret"]:
                raise Unsupported("%s assigned to a %s" % (f, ty), s)
            out.append("let %s ← %s" % (name, h["lean"]))
            env.vals[path] = Val(name, ty, "obj")
            env.fresh_vec.discard(path)
            return
        raise Unsupported("call " + str(f), rhs)

    def var_decl(self, v, env, out):
        name = v["name"]
        init = [c for c in kids(v)]
        ty = ctype(v)
        if not init:
            self.declare(name, ty, env, v)
            return
        e = unwrap(init[-1])
        k = e.get("kind")
        # const auto buf = zlib_uncompress(blob);   (the model starts at the uncompressed payload)
        if k == "CallExpr" and callee_name(e) == "zlib_uncompress" and ty == "bytes" and env.buf is None:
            a = unwrap(kids(e)[1])
            if a.get("kind") == "DeclRefExpr" and a["referencedDecl"]["name"] == self.fn.get("_param"):
                env.buf = name
                return
            raise Unsupported("zlib_uncompress of something other than the parameter", v)
        # auto ptr = buf.data();
        if k == "CXXMemberCallExpr" and ty == "ptr" and env.ptr is None:
            m = unwrap(kids(e)[0])
            obj = unwrap(kids(m)[0])
            if m.get("name") == "data" and obj.get("kind") == "DeclRefExpr":
                b = obj["referencedDecl"]["name"]
                if env.buf is None and b == self.fn.get("_param") and self.fn.get("raw"):
                    env.buf = b
                if b == env.buf:
                    env.ptr = name
                    env.buf_size = lean_ident(b + "_size")
                    out.append("let %s ← Cur.remaining" % env.buf_size)
                    return
            raise Unsupported("pointer initialiser", v)
        # const auto end = ptr + buf.size();
        if k == "BinaryOperator" and e.get("opcode") == "+" and ty == "ptr" and env.end is None and env.noread:
            a, b = kids(e)
            try:
                self.ptr_arg(a, env, "ptr")
                pb, eb, tb = self.expr(b, env)
            except Unsupported:
                raise Unsupported("end-pointer initialiser", v)
            if not pb and eb == env.buf_size:
                env.end = name
                return
            raise Unsupported("end-pointer initialiser", v)
        # T x{};  /  T x;  (class type)
        if k == "InitListExpr" and ty.startswith("struct:"):
            ok = all(unwrap(c).get("kind") in ("ImplicitValueInitExpr", "CXXConstructExpr") and
                     not [a for a in kids(unwrap(c)) if a.get("kind") != "CXXDefaultArgExpr"] for c in kids(e))
            if ok:
                self.declare(name, ty, env, v, value_init=True)
                return
            raise Unsupported("initialiser list", v)
        if k == "CXXConstructExpr" and not kids(e) and (ty.startswith("struct:") or ty.startswith("vec:")
                                                          or ty in ("string", "bytes")):
            self.declare(name, ty, env, v)
            # default member initialisers (e.g. `double sample_offset = 0;`) are not read from the
            # AST: such a field counts as unassigned, and using it before an assignment is rejected
            return
        raise Unsupported("initialiser " + str(k), v)

    def vec_target(self, call, env):
        m = unwrap(kids(call)[0])
        path, ty = self.lv_path(kids(m)[0], env)
        return m.get("name"), path, ty

    def stmts(self, body, env, out, tail):
        """Translate a statement list; `tail(env, out)` emits the block's final `pure ...`."""
        body = [s for s in body if not self.is_noop(s)]
        i = 0
        while i < len(body):
            s = unwrap(body[i])
            k = s.get("kind")
            last = i == len(body) - 1
            if k == "DeclStmt":
                for v in kids(s):
                    if v.get("kind") != "VarDecl":
                        raise Unsupported("declaration " + str(v.get("kind")), v)
                    self.var_decl(v, env, out)
            elif k == "IfStmt":
                self.if_stmt(s, env, out)
            elif k == "CXXOperatorCallExpr":
                self.tie_assign(s, env, out)
            elif k == "ForStmt":
                self.for_stmt(s, env, out)
            elif k == "CXXForRangeStmt":
                self.range_for(s, env, out)
            elif k == "CXXMemberCallExpr":
                meth, path, ty = self.vec_target(s, env)
                args = kids(s)[1:]
                if meth in ("reserve", "resize") and ty.startswith("vec:") and len(args) == 1:
                    if path not in env.fresh_vec:
                        raise Unsupported("%s on a vector that is not known to be empty" % meth, s)
                    pre, e, t = self.expr(args[0], env)
                    if t != "u64":
                        raise Unsupported("%s argument of type %s" % (meth, t), s)
                    out.extend(pre)
                    out.append("Cur.reserve %s %d" % (e, STRUCTS[ty[4:]]["size"]))
                    if meth == "resize":
                        env.fresh_vec.discard(path)
                        env.sized_vec[path] = e
                elif meth == "assign" and ty == "string" and len(args) == 2:
                    a0 = unwrap(args[0])
                    if a0.get("kind") != "CXXReinterpretCastExpr" or ctype(kids(a0)[0]) != "ptr":
                        raise Unsupported("assign from something other than the cursor", s)
                    self.ptr_arg(kids(a0)[0], env, "ptr")
                    pre, e, t = self.expr(args[1], env)
                    if t != "u64":
                        raise Unsupported("assign length of type " + t, s)
                    out.extend(pre)
                    name = lean_ident(path)
                    out.append("let %s ← Cur.peekN %s" % (name, e))
                    env.vals[path] = Val(name, "string", "obj")
                elif meth == "push_back":
                    raise Unsupported("push_back outside the last statement of a counted loop", s)
                else:
                    raise Unsupported("member call " + str(meth), s)
            elif k == "CompoundAssignOperator" and s.get("opcode") == "+=":
                a, b = kids(s)
                ua = unwrap(a)
                if ua.get("kind") != "DeclRefExpr" or ua["referencedDecl"]["name"] != env.ptr:
                    raise Unsupported("compound assignment to something other than the cursor", s)
                pre, e, t = self.expr(b, env)
                m = re.fullmatch(r"\((\w+)\.toNat : Int\)", e)
                if t == "u64":
                    n_ = e
                elif m:           # an unsigned 8-bit value promoted to int: non-negative
                    n_ = "%s.toNat" % m.group(1)
                else:
                    raise Unsupported("cursor advanced by a possibly negative amount", s)
                out.extend(pre)
                out.append("Cur.advance %s" % n_)
                env.noread = False
            elif k == "ReturnStmt":
                if not last:
                    raise Unsupported("return before the end of the function", s)
                tail(env, out, s)
                return
            elif k == "CompoundStmt":
                raise Unsupported("nested block", s)
            else:
                raise Unsupported(str(k), s)
            i += 1
        tail(env, out, None)

    def if_stmt(self, s, env, out):
        parts = kids(s)
        if s.get("hasElse") or len(parts) != 2 or s.get("hasInit") or s.get("hasVar"):
            raise Unsupported("if with else / init", s)
        cond, then = parts
        pre, c, t = self.expr(cond, env)
        if t != "bool":
            raise Unsupported("condition of type " + t, cond)
        exn = self.throw_class(then)
        out.extend(pre)
        if exn:
            out.append("if %s then Cur.throwC %s else" % (c, exn))
            return
        # one-armed if that assigns: join on the variables it changes
        inner = env.copy()
        sub = []
        tb = kids(then) if unwrap(then).get("kind") == "CompoundStmt" else [then]
        self.stmts(tb, inner, sub, lambda e, o, r: self.no_return(r))
        changed = [p for p in inner.vals if p not in env.vals or inner.vals[p] is not env.vals[p]]
        if set(inner.decl) != set(env.decl) or inner.fresh_vec != env.fresh_vec or inner.sized_vec != env.sized_vec:
            raise Unsupported("declaration / vector operation inside a one-armed if", s)
        if not changed:
            raise Unsupported("one-armed if without effect on a variable", s)
        olds = []
        for p in changed:
            if p not in env.vals:
                raise Unsupported("variable %s is assigned only conditionally" % p, s)
            olds.append(env.vals[p].name)
        news = [inner.vals[p].name for p in changed]
        names = [lean_ident(p) for p in changed]
        pat = names[0] if len(names) == 1 else "(" + ", ".join(names) + ")"
        tup = lambda xs: xs[0] if len(xs) == 1 else "(" + ", ".join(xs) + ")"
        out.append("let %s ← if %s then (do" % (pat, c))
        out.extend("    " + l for l in sub)
        out.append("    pure %s) else pure %s" % (tup(news), tup(olds)))
        for p, nm in zip(changed, names):
            v = inner.vals[p]
            env.vals[p] = Val(nm, v.ty, v.repr)
        env.noread = env.noread and inner.noread

    def emit_loop(self, comb, name, elem_ty, sub, count, env, out):
        """`let name ← comb body count`; a body that mentions no outer local becomes a definition of its own
        (`<function>_body<k>`), so that lemmas can be stated about it."""
        outer = {v.name for v in env.vals.values()} | {env.buf_size}
        toks = set(re.findall(r"[A-Za-z_][A-Za-z_0-9']*", " ".join(sub)))
        if not (outer & toks):
            bname = "%s_body%d" % (self.fn["lean"], len(self.aux) + 1)
            self.aux.append((bname, STRUCTS[elem_ty[7:]]["ty"], sub))
            out.append("let %s ← %s %s %s" % (name, comb, bname, count))
        else:
            out.append("let %s ← %s (do" % (name, comb))
            out.extend("    " + l for l in sub)
            out[-1] = out[-1] + ") " + count

    def no_return(self, r):
        if r is not None:
            raise Unsupported("return inside a nested block", r)

    def for_stmt(self, s, env, out):
        """for (T i = 0; i < n; ++i) { ...; v.push_back(x); }"""
        parts = s.get("inner") or []
        if len(parts) != 5:
            raise Unsupported("for statement shape", s)
        init, condvar, cond, inc, body = parts
        if condvar and condvar.get("kind"):
            raise Unsupported("for with condition variable", s)
        ok = init.get("kind") == "DeclStmt" and len(kids(init)) == 1 and kids(init)[0].get("kind") == "VarDecl"
        if not ok:
            raise Unsupported("for initialiser", s)
        iv = kids(init)[0]
        ity = ctype(iv)
        if ity not in ("i64",) or not kids(iv) or int_literal(kids(iv)[-1]) != 0:
            raise Unsupported("loop counter is not `int64_t i = 0`", iv)
        iname = iv["name"]
        c = unwrap(cond)
        if c.get("kind") != "BinaryOperator" or c.get("opcode") != "<":
            raise Unsupported("loop condition", cond)
        ca, cb = kids(c)
        ua = unwrap(ca)
        if ua.get("kind") == "ImplicitCastExpr" and ua.get("castKind") == "LValueToRValue":
            ua = unwrap(kids(ua)[0])
        if ua.get("kind") != "DeclRefExpr" or ua["referencedDecl"]["name"] != iname:
            raise Unsupported("loop condition is not `i < n` on the counter itself", cond)
        pre, bound, bt = self.expr(cb, env)
        if pre or bt != ity:
            raise Unsupported("loop bound is not a plain value of the counter's type", cond)
        bound_vars = set(re.findall(r"[A-Za-z_][A-Za-z_0-9]*", bound))
        u = unwrap(inc)
        if u.get("kind") != "UnaryOperator" or u.get("opcode") != "++" or \
                unwrap(kids(u)[0]).get("kind") != "DeclRefExpr" or \
                unwrap(kids(u)[0])["referencedDecl"]["name"] != iname:
            raise Unsupported("loop increment is not ++i", inc)
        if refers_to(body, iname):
            raise Unsupported("loop body uses the counter", body)
        bstmts = [x for x in (kids(body) if body.get("kind") == "CompoundStmt" else [body]) if not self.is_noop(x)]
        if not bstmts:
            raise Unsupported("empty loop body", body)
        pb = unwrap(bstmts[-1])
        if pb.get("kind") != "CXXMemberCallExpr":
            raise Unsupported("loop body does not end in push_back", pb)
        meth, vpath, vty = self.vec_target(pb, env)
        if meth != "push_back" or not vty.startswith("vec:") or len(kids(pb)) != 2:
            raise Unsupported("loop body does not end in push_back", pb)
        if vpath not in env.fresh_vec:
            raise Unsupported("push_back to a vector that is not known to be empty", pb)
        inner = env.copy()
        sub = []
        elem_ty = "struct:" + vty[4:]

        def tail(e, o, r):
            self.no_return(r)
            arg = unwrap(kids(pb)[1])
            while arg.get("kind") == "CXXConstructExpr" and len(kids(arg)) == 1:
                arg = unwrap(kids(arg)[0])
            path, ty = self.lv_path(arg, e)
            if ty != elem_ty or path in env.decl:
                raise Unsupported("push_back of something other than a loop-local element", pb)
            o.append("pure %s" % self.build(path, ty, e, pb))
        self.stmts(bstmts[:-1], inner, sub, tail)
        # the body may only change its own locals (and the cursor)
        for p, v in inner.vals.items():
            root = p.split(".")[0]
            if root in env.decl and (p not in env.vals or env.vals[p] is not v):
                raise Unsupported("loop body assigns the outer variable " + p, body)
        if inner.fresh_vec - {vpath} != env.fresh_vec - {vpath} and \
                any(p.split(".")[0] in env.decl for p in inner.fresh_vec ^ env.fresh_vec):
            raise Unsupported("loop body changes an outer vector", body)
        for p in bound_vars:
            pass
        name = lean_ident(vpath)
        self.emit_loop("Cur.forCount", name, elem_ty, sub, bound, env, out)
        env.vals[vpath] = Val(name, vty, "obj")
        env.fresh_vec.discard(vpath)
        env.noread = False

    def range_for(self, s, env, out):
        """v.resize(n); for (auto& e : v) { assignments to e's members }"""
        parts = s.get("inner") or []
        if len(parts) != 8 or (parts[0] and parts[0].get("kind")):
            raise Unsupported("range-for shape", s)
        rng, loopvar, body = parts[1], parts[6], parts[7]
        rv = kids(rng)[0]
        vpath, vty = self.lv_path(kids(rv)[0], env)
        if not vty.startswith("vec:") or vpath not in env.sized_vec:
            raise Unsupported("range-for over a vector that was not just resized", s)
        lv = kids(loopvar)[0]
        if "&" not in lv["type"]["qualType"] or "const" in lv["type"]["qualType"]:
            raise Unsupported("range-for variable is not a mutable reference", lv)
        ename = lv["name"]
        elem_ty = "struct:" + vty[4:]
        if ctype(lv) != elem_ty:
            raise Unsupported("range-for element type", lv)
        inner = env.copy()
        if ename in inner.decl:
            raise Unsupported("range-for variable shadows a local", lv)
        # resize() value-initialises the new elements
        self.declare(ename, elem_ty, inner, lv, value_init=True)
        sub = []

        def tail(e, o, r):
            self.no_return(r)
            o.append("pure %s" % self.build(ename, elem_ty, e, s))
        bstmts = kids(body) if body.get("kind") == "CompoundStmt" else [body]
        self.stmts(bstmts, inner, sub, tail)
        for p, v in inner.vals.items():
            root = p.split(".")[0]
            if root in env.decl and (p not in env.vals or env.vals[p] is not v):
                raise Unsupported("loop body assigns the outer variable " + p, body)
        name = lean_ident(vpath)
        self.emit_loop("Cur.forEach", name, elem_ty, sub, env.sized_vec[vpath], env, out)
        env.vals[vpath] = Val(name, vty, "obj")
        del env.sized_vec[vpath]
        env.noread = False

    # ---- functions ------------------------------------------------------
    def function(self, decl):
        fn = self.fn
        params = [p for p in kids(decl) if p.get("kind") == "ParmVarDecl"]
        body = [c for c in kids(decl) if c.get("kind") == "CompoundStmt"][0]
        env = Env()
        out = []
        if fn["mode"] == "from_blob":
            if len(params) != 1 or ctype(params[0]) != "bytes":
                raise Unsupported("from_blob signature", decl)
            fn["_param"] = params[0]["name"]
            fn["raw"] = True   # `blob.data()` is allowed when the function never decompresses
            sd = STRUCTS[fn["struct"]]

            def tail(e, o, r):
                if r is None:
                    raise Unsupported("function falls off the end", decl)
                v = unwrap(kids(r)[0])
                while v.get("kind") == "CXXConstructExpr" and len(kids(v)) == 1:
                    v = unwrap(kids(v)[0])
                path, ty = self.lv_path(v, e)
                if ty != "struct:" + fn["struct"]:
                    raise Unsupported("return of a " + ty, r)
                val = self.build(path, ty, e, r)
                extra = e.vals.get(path + "." + sd["extra"])
                o.append("pure (%s, %s)" % (val, extra.name if extra else "([] : Bytes)"))
            self.stmts(kids(body), env, out, tail)
            head = "def %s : Bytes → Res (%s × Bytes) := Cur.fromBlob (do" % (fn["lean"], sd["ty"])
        else:
            if len(params) != 2 or ctype(params[0]) != "ptr" or ctype(params[1]) != "ptr":
                raise Unsupported("helper signature", decl)
            env.ptr, env.end = params[0]["name"], params[1]["name"]
            env.noread = False
            rty = fn["ret"]

            def tail(e, o, r):
                if r is None:
                    raise Unsupported("function falls off the end", decl)
                v = unwrap(kids(r)[0])
                while v.get("kind") in ("CXXConstructExpr", "InitListExpr") and len(kids(v)) == 1:
                    v = unwrap(kids(v)[0])
                if v.get("kind") not in ("CXXConstructExpr", "InitListExpr") or len(kids(v)) != 2:
                    raise Unsupported("return value is not {value, ptr}", r)
                a, b = kids(v)
                self.ptr_arg(b, e, "ptr")
                a = unwrap(a)
                if a.get("kind") == "CallExpr" and callee_name(a) == "move":
                    a = unwrap(kids(a)[1])
                path, ty = self.lv_path(a, e)
                if ty != rty:
                    raise Unsupported("return of a " + ty, r)
                o.append("pure %s" % self.build(path, ty, e, r))
            self.stmts(kids(body), env, out, tail)
            lty = "List %s" % STRUCTS[rty[4:]]["ty"] if rty.startswith("vec:") else STRUCTS[rty[7:]]["ty"]
            head = "def %s : Cur (%s) := (do" % (fn["lean"], lty)
        out[-1] = out[-1] + ")"
        res = []
        for bname, bty, sub in self.aux:
            res += ["def %s : Cur (%s) := (do" % (bname, bty)] + ["  " + l for l in sub]
            res[-1] += ")"
            res.append("")
        return res + [head] + ["  " + l for l in out]


def refers_to(n, name):
    if isinstance(n, dict):
        if n.get("kind") == "DeclRefExpr" and n.get("referencedDecl", {}).get("name") == name:
            return True
        return any(refers_to(c, name) for c in n.get("inner", []) or [])
    return False


# ---------------------------------------------------------------- driver

def translate_one(fn):
    src = os.path.join(REPO, V2DIR, fn["file"])
    rel = V2DIR + fn["file"]
    docs = clang_ast(src, fn["filt"])
    defs = []
    for d in docs:
        annotate(d, rel)
        if d.get("kind") in ("CXXMethodDecl", "FunctionDecl") and any(c.get("kind") == "CompoundStmt" for c in kids(d)):
            defs.append(d)
    if len(defs) != 1:
        raise Unsupported("definition of %s not found (%d candidates)" % (fn["filt"], len(defs)), where=rel)
    return Dec(dict(fn)).function(defs[0])


HEADER = """/- GENERATED by tools/tr_blobs.py from src/djinterop/engine/v2/*_blob.cpp — do not edit.
   One block per translated C++ function; a function outside the translator's fragment keeps
   its previous block (see the translator's status line in the evidence). -/
import EngineModel.Impl.CursorCxx
import EngineModel.Format.V2

namespace EngineModel.Gen.ImplV2
open EngineModel
"""
FOOTER = "end EngineModel.Gen.ImplV2\n"


def old_blocks():
    try:
        txt = open(TARGET).read()
    except OSError:
        return {}
    return {m.group(1): m.group(2) for m in re.finditer(r"-- BEGIN (\w+)[^\n]*\n(.*?)-- END \1\n", txt, re.S)}


def translate_all(only=None):
    funcs = [f for f in FUNCS if only is None or f["lean"] in only]

    def work(fn):
        try:
            return fn, translate_one(fn), None
        except Unsupported as e:
            return fn, None, e
        except (KeyError, IndexError, TypeError, ValueError) as e:   # unexpected AST shape
            return fn, None, Unsupported("ast-shape %r" % (e,), where=V2DIR + fn["file"])
    with ThreadPoolExecutor(max_workers=6) as ex:
        res = list(ex.map(work, funcs))
    return res


def main():
    res = translate_all()
    old = old_blocks()
    parts, problems, kept = [HEADER], [], []
    for fn, lines, err in res:
        if err is None:
            block = "\n".join(lines) + "\n"
        else:
            problems.append("unsupported-node: %s [%s]" % (err, fn["lean"]))
            block = old.get(fn["lean"])
            if block is None:
                continue          # never translated: the hand model stands alone
            kept.append(fn["lean"])
        parts.append("-- BEGIN %s  (%s%s)\n%s-- END %s\n" % (fn["lean"], V2DIR, fn["file"], block, fn["lean"]))
    parts.append(FOOTER)
    txt = "\n".join(parts)
    prev = open(TARGET).read() if os.path.exists(TARGET) else None
    if prev != txt:
        open(TARGET, "w").write(txt)
    status = "translator: regenerated (%s)" % ("identical" if prev == txt else "changed")
    if problems:
        status += "; " + "; ".join(problems) + ("; kept previous translation of: " + ", ".join(kept) if kept else "")
    print(status)
    return 2 if problems else 0


if __name__ == "__main__":
    sys.exit(main())
