#!/usr/bin/env python3
"""run_all.py [--tier quick|thorough] [--seeds 1,2,3] [Cxx ...]
Run the registered checks one after the other (as `vp check` does) and print a
summary table; exit 1 if any check failed at any seed."""
import argparse, json, os, subprocess, sys, time
sys.path.insert(0, os.path.dirname(os.path.abspath(__file__)))
from common import VERIF


def main():
    ap = argparse.ArgumentParser()
    ap.add_argument("pids", nargs="*")
    ap.add_argument("--tier", default="quick")
    ap.add_argument("--seeds", default="1")
    a = ap.parse_args()
    m = json.load(open(os.path.join(VERIF, "MANIFEST.json")))
    pids = a.pids or [c["property_id"] for c in m["checks"]]
    bad = 0
    for seed in a.seeds.split(","):
        for pid in pids:
            t0 = time.time()
            r = subprocess.run([sys.executable, os.path.join(VERIF, "tools", "check.py"), pid, "--tier", a.tier],
                               stdout=subprocess.PIPE, stderr=subprocess.STDOUT, text=True, cwd=VERIF,
                               env=dict(os.environ, VERIF_SEED=seed))
            last = r.stdout.strip().split("\n")[-1] if r.stdout.strip() else ""
            extra = [l for l in r.stdout.split("\n") if l.startswith(("VIOLATION", "KNOWN-FINDING"))]
            print("seed=%s %-4s rc=%d %5.1fs  %s" % (seed, pid, r.returncode, time.time() - t0, last), flush=True)
            for l in extra[:6]:
                print("      " + l[:220])
            bad += r.returncode != 0
    return 1 if bad else 0


if __name__ == "__main__":
    sys.exit(main())
