#!/usr/bin/env python3
"""Translator: src/djinterop/engine/encode_decode_utils.hpp  ->  Lean (Gen/PrimGen.lean).

The primitive byte codecs (decode_uint8 ... encode_extra) are *regenerated from
the source* on every run from clang's typed AST (every implicit conversion and
integral promotion is an explicit node there).  Proofs/PrimGen.lean then
re-proves that each regenerated definition equals the hand-written primitive of
EngineModel.Prim / the Codec primitives that all codec theorems are built on.

usage: tr_prim.py [<header>]      (default: $VERIF_REPO/src/djinterop/engine/encode_decode_utils.hpp)

Accepted fragment (anything else: fail *closed* — exit 2, output untouched,
`translator: unsupported-node: ...`; the check then falls back to the
correspondence tie of the hand model):

  decoders   std::pair<T, const std::byte*> f(const std::byte* ptr)
      T x = e;  |  T x, y;  |  std::tie(x, ptr) = g(ptr);  |  std::memcpy(&a, &b, 8);
      return {e, ptr};  |  return {e, ptr + n};
  encoders   std::byte* f(T value, std::byte* ptr)
      ptr[k] = e;  |  *ptr = e;  (indices must be exactly 0..n-1, once each, any order)
      ptr = g(e, ptr);  |  T x;  |  std::memcpy(&a, &b, 8);
      return ptr + n;  |  return ptr;  |  return g(e, ptr);
  expressions e
      integer literals, locals / parameters, ptr[k] and *ptr (decoders only),
      |  &  <<  >>  with a literal shift count, parentheses, and the casts
      std::byte <-> uint8_t, uint8_t -> int (promotion), int / unsigned -> std::byte,
      int64_t -> int32_t, int32_t <-> uint32_t, uint32_t -> int64_t, int32_t -> int64_t.
  decode_extra / encode_extra: recognised as a whole by the canonical shape of
      their typed AST (resize + guarded memcpy of the rest); any change -> unsupported.

Semantics emitted (see lean/EngineModel/Basic/PrimOps.lean):
  integers            -> bit patterns UInt8 / UInt32 / UInt64 (double = UInt64 of its bits)
  | & <<              -> ||| &&& and PrimOps.shl32/shl64; a `<<` on a *signed* operand is only
                         accepted when the operand is statically a zero-extended narrower value
                         that still fits the unsigned type after the shift (no UB)
  >> on signed        -> PrimOps.sar32/sar64 = floor division of the signed value (arithmetic shift)
  >> on unsigned      -> PrimOps.shr32/shr64 (logical)
  casts               -> PrimOps.<dst>_of_<src> (zero extension / truncation / same pattern)
  ptr                 -> the list of bytes from ptr to the end of the buffer;
                         ptr[k] = PrimOps.rd, ptr + n = PrimOps.adv, both Option (none = out of bounds)
  encoder result      -> the bytes stored at ptr[0..n), where the C++ returns ptr + n
"""
import json, os, subprocess, sys
sys.path.insert(0, os.path.dirname(os.path.abspath(__file__)))
from common import *

FUNCS = ["decode_uint8", "encode_uint8",
         "decode_int32_le", "encode_int32_le", "decode_int32_be", "encode_int32_be",
         "decode_int64_le", "encode_int64_le", "decode_int64_be", "encode_int64_be",
         "decode_double_le", "encode_double_le", "decode_double_be", "encode_double_be",
         "decode_extra", "encode_extra"]
NS = "djinterop::engine"
REL = "src/djinterop/engine/encode_decode_utils.hpp"


class Unsupported(Exception):
    pass


def clang_ast(header, filt):
    cmd = ["clang++-14", "-std=gnu++17", "-fsyntax-only", "-I" + GENINC, "-I" + REPO + "/include",
           "-I" + REPO + "/src", "-Xclang", "-ast-dump=json", "-Xclang", "-ast-dump-filter=" + filt, header]
    r = subprocess.run(cmd, stdout=subprocess.PIPE, stderr=subprocess.PIPE, text=True)
    if r.returncode != 0:
        raise Unsupported("clang++-14 does not accept the header: " + r.stderr.strip()[-300:])
    txt = r.stdout
    dec = json.JSONDecoder()
    i, docs = 0, []
    while i < len(txt):
        while i < len(txt) and txt[i].isspace():
            i += 1
        if i >= len(txt):
            break
        o, j = dec.raw_decode(txt, i)
        docs.append(o)
        i = j
    return docs


# ---------------------------------------------------------------- types

CT = {"int": "i32", "unsigned int": "u32", "long": "i64", "long long": "i64", "unsigned long": "u64",
      "unsigned long long": "u64", "unsigned char": "u8", "std::byte": "byte", "double": "f64",
      "const std::byte *": "cptr", "std::byte *": "ptr",
      "std::vector<std::byte>": "vec", "const std::vector<std::byte> &": "cvecref"}
WIDTH = {"u8": 8, "byte": 8, "i32": 32, "u32": 32, "i64": 64, "u64": 64}
SIGNED = {"i32", "i64"}
LEAN_T = {"u8": "UInt8", "byte": "UInt8", "i32": "UInt32", "u32": "UInt32", "i64": "UInt64", "u64": "UInt64",
          "f64": "UInt64"}
BYTES = "List UInt8"

# (source, target) -> (PrimOps name, kind)   kind: zext | trunc | same | sext
CASTS = {("byte", "u8"): ("u8_of_byte", "same"), ("u8", "byte"): ("byte_of_u8", "same"),
         ("u8", "i32"): ("i32_of_u8", "zext"), ("i32", "byte"): ("byte_of_i32", "trunc"),
         ("u32", "byte"): ("byte_of_u32", "trunc"),
         ("i64", "i32"): ("i32_of_i64", "trunc"), ("i32", "u32"): ("u32_of_i32", "same"),
         ("u32", "i32"): ("i32_of_u32", "same"), ("u32", "i64"): ("i64_of_u32", "zext"),
         ("i32", "i64"): ("i64_of_i32", "sext")}


def qtype(q):
    q = " ".join(q.split())
    if q.startswith("const ") and not q.endswith("*") and not q.endswith("&"):
        q = q[6:]
    return CT.get(q, "?" + q)


def ctype(node):
    t = node.get("type", {})
    return qtype(t.get("desugaredQualType") or t.get("qualType", ""))


def strip(n):
    """Look through nodes that do not change the value."""
    while True:
        k = n.get("kind")
        if k in ("ParenExpr", "ExprWithCleanups", "MaterializeTemporaryExpr", "ConstantExpr"):
            n = n["inner"][0]
        elif k in ("ImplicitCastExpr", "CXXStaticCastExpr") and n.get("castKind") in ("LValueToRValue", "NoOp"):
            n = n["inner"][0]
        else:
            return n


def reserved(name):
    return name in ("ptr", "out", "pure", "let", "do") or (name[:1] == "t" and name[1:].isdigit())


def callee_name(call):
    c = call["inner"][0]
    while c.get("kind") != "DeclRefExpr":
        if "inner" not in c:
            raise Unsupported("callee")
        c = c["inner"][0]
    return c["referencedDecl"]["name"]


def int_literal(n):
    n = strip(n)
    if n.get("kind") in ("ImplicitCastExpr",) and n.get("castKind") == "IntegralCast":
        n = strip(n["inner"][0])
    if n.get("kind") != "IntegerLiteral":
        raise Unsupported("expected an integer literal, got " + str(n.get("kind")))
    return int(n["value"])


def pair_value_type(node):
    """std::pair<T, const std::byte *>  ->  ctype of T."""
    t = node.get("type", {})
    q = " ".join((t.get("desugaredQualType") or t.get("qualType", "")).split())
    pre, suf = "std::pair<", ", const std::byte *>"
    if not (q.startswith(pre) and q.endswith(suf)):
        raise Unsupported("not a pair<T, const std::byte*>: " + q)
    return qtype(q[len(pre):-len(suf)])


# ---------------------------------------------------------------- one function

class Fn:
    def __init__(self, name, mode, sigs):
        self.name, self.mode, self.sigs = name, mode, sigs
        self.lines = []
        self.n = 0
        self.vars = {}      # name -> [ctype, initialised]
        self.cursor = "ptr"
        self.pending = {}   # encoder: index -> lean expr of the byte stored at ptr[index]

    def tmp(self):
        self.n += 1
        return "t%d" % self.n

    # expressions: returns (lean text, ctype, number of significant bits of the unsigned pattern)
    def expr(self, n):
        n = strip(n)
        k = n.get("kind")
        ty = ctype(n)
        inner = n.get("inner", [])
        if k == "IntegerLiteral":
            if ty not in ("i32", "u32", "i64", "u64"):
                raise Unsupported("literal of type " + ty)
            v = int(n["value"])
            if v < 0 or v >= 2 ** (WIDTH[ty] - (1 if ty in SIGNED else 0)):
                raise Unsupported("literal out of range")
            return "(%d : %s)" % (v, LEAN_T[ty]), ty, v.bit_length()
        if k == "DeclRefExpr":
            name = n["referencedDecl"]["name"]
            if name not in self.vars:
                raise Unsupported("reference to " + name)
            t, init = self.vars[name]
            if not init:
                raise Unsupported("read of uninitialised " + name)
            if t not in LEAN_T:
                raise Unsupported("value of type " + t)
            return name, t, WIDTH.get(t, 64)
        if k in ("ImplicitCastExpr", "CXXStaticCastExpr"):
            ck = n.get("castKind")
            if ck != "IntegralCast":
                raise Unsupported("cast " + str(ck))
            e, src, bits = self.expr(inner[0])
            if (src, ty) not in CASTS:
                raise Unsupported("IntegralCast %s->%s" % (src, ty))
            f, kind = CASTS[(src, ty)]
            if kind == "trunc":
                bits = min(bits, WIDTH[ty])
            elif kind == "sext":
                bits = WIDTH[ty]
            return "(PrimOps.%s %s)" % (f, e), ty, bits
        if k == "ArraySubscriptExpr" or (k == "UnaryOperator" and n.get("opcode") == "*"):
            if self.mode != "dec":
                raise Unsupported("read through the output pointer")
            self.need_cursor(inner[0])
            idx = int_literal(inner[1]) if k == "ArraySubscriptExpr" else 0
            if ty != "byte":
                raise Unsupported("element type " + ty)
            t = self.tmp()
            self.lines.append("let %s ← PrimOps.rd %s %d" % (t, self.cursor, idx))
            return t, "byte", 8
        if k == "BinaryOperator":
            op = n["opcode"]
            if op in ("|", "&"):
                a, ta, ba = self.expr(inner[0])
                b, tb, bb = self.expr(inner[1])
                if ta != tb or ta != ty or ty not in ("i32", "u32", "i64", "u64"):
                    raise Unsupported("operand types of %s: %s %s -> %s" % (op, ta, tb, ty))
                return ("(%s %s %s)" % (a, "|||" if op == "|" else "&&&", b), ty,
                        max(ba, bb) if op == "|" else min(ba, bb))
            if op in ("<<", ">>"):
                a, ta, ba = self.expr(inner[0])
                if ta != ty or ty not in ("i32", "u32", "i64", "u64"):
                    raise Unsupported("shift of %s -> %s" % (ta, ty))
                kk = int_literal(inner[1])
                w = WIDTH[ty]
                if not (0 <= kk < w):
                    raise Unsupported("shift count %d" % kk)
                if op == "<<":
                    if ty in SIGNED and ba + kk > w:
                        raise Unsupported("signed << may leave the unsigned range (undefined behaviour): "
                                          "%d significant bits << %d in %s" % (ba, kk, ty))
                    return "(PrimOps.shl%d %s %d)" % (w, a, kk), ty, min(w, ba + kk)
                f = "sar" if ty in SIGNED else "shr"
                return "(PrimOps.%s%d %s %d)" % (f, w, a, kk), ty, (w if ty in SIGNED else max(0, ba - kk))
            raise Unsupported("operator " + op)
        raise Unsupported("expression " + str(k))

    def need_cursor(self, n):
        n = strip(n)
        if n.get("kind") != "DeclRefExpr" or n["referencedDecl"]["name"] != self.cursor:
            raise Unsupported("pointer other than `%s`" % self.cursor)

    # statements shared by decoders and encoders
    def decl(self, s):
        for v in s.get("inner", []):
            if v.get("kind") != "VarDecl":
                raise Unsupported("declaration " + str(v.get("kind")))
            t = ctype(v)
            if t not in LEAN_T:
                raise Unsupported("local of type " + t)
            if v["name"] in self.vars or reserved(v["name"]):
                raise Unsupported("local name " + v["name"])
            init = [c for c in v.get("inner", []) if "kind" in c and c["kind"].endswith(("Expr", "Operator", "Literal"))]
            if len(init) != len(v.get("inner", [])) or len(init) > 1 or (init and v.get("init") != "c"):
                raise Unsupported("initialiser of " + v["name"])
            if init:
                e, te, _ = self.expr(init[0])
                if te != t:
                    raise Unsupported("initialiser type %s for %s" % (te, t))
                self.lines.append("let %s : %s := %s" % (v["name"], LEAN_T[t], e))
                self.vars[v["name"]] = [t, True]
            else:
                self.vars[v["name"]] = [t, False]

    def addr_of_local(self, n):
        n = strip(n)
        if n.get("kind") == "ImplicitCastExpr" and n.get("castKind") == "BitCast":
            n = strip(n["inner"][0])
        if n.get("kind") != "UnaryOperator" or n.get("opcode") != "&":
            raise Unsupported("memcpy operand")
        d = strip(n["inner"][0])
        if d.get("kind") != "DeclRefExpr" or d["referencedDecl"]["name"] not in self.vars:
            raise Unsupported("memcpy operand")
        return d["referencedDecl"]["name"]

    def memcpy(self, s):
        a = s["inner"]
        if len(a) != 4:
            raise Unsupported("memcpy arity")
        dst, src = self.addr_of_local(a[1]), self.addr_of_local(a[2])
        if int_literal(a[3]) != 8:
            raise Unsupported("memcpy size")
        td, (ts, init) = self.vars[dst][0], self.vars[src]
        if not init:
            raise Unsupported("memcpy from uninitialised " + src)
        f = {("f64", "i64"): "f64_of_i64_bits", ("i64", "f64"): "i64_of_f64_bits"}.get((td, ts))
        if not f:
            raise Unsupported("memcpy %s <- %s" % (td, ts))
        self.lines.append("let %s : %s := PrimOps.%s %s" % (dst, LEAN_T[td], f, src))
        self.vars[dst][1] = True

    # ------------------------------------------------------------ decoders
    def dec_tie(self, s):
        """std::tie(x, ptr) = g(ptr);"""
        s = strip(s)
        if s.get("kind") != "CXXOperatorCallExpr" or callee_name(s) != "operator=" or len(s["inner"]) != 3:
            raise Unsupported("statement " + str(s.get("kind")))
        lhs, rhs = strip(s["inner"][1]), strip(s["inner"][2])
        if lhs.get("kind") != "CallExpr" or callee_name(lhs) != "tie" or len(lhs["inner"]) != 3:
            raise Unsupported("assignment target is not std::tie(x, ptr)")
        x = strip(lhs["inner"][1])
        if x.get("kind") != "DeclRefExpr" or x["referencedDecl"]["name"] not in self.vars:
            raise Unsupported("std::tie target")
        self.need_cursor(lhs["inner"][2])
        if rhs.get("kind") != "CallExpr" or len(rhs["inner"]) != 2:
            raise Unsupported("right-hand side of std::tie assignment")
        g = callee_name(rhs)
        if g not in self.sigs or self.sigs[g][0] != "dec":
            raise Unsupported("call " + g)
        self.need_cursor(rhs["inner"][1])
        name = x["referencedDecl"]["name"]
        if self.vars[name][0] != self.sigs[g][1]:
            raise Unsupported("std::tie converts %s to %s" % (self.sigs[g][1], self.vars[name][0]))
        self.lines.append("let (%s, %s) ← %s %s" % (name, self.cursor, g, self.cursor))
        self.vars[name][1] = True

    def dec_return(self, s, rty):
        c = strip(s["inner"][0])
        if c.get("kind") != "CXXConstructExpr" or len(c.get("inner", [])) != 2 or pair_value_type(c) != rty:
            raise Unsupported("return value")
        e, te, _ = self.expr(c["inner"][0])
        if te != rty:
            raise Unsupported("pair constructor converts %s to %s" % (te, rty))
        p = strip(c["inner"][1])
        if p.get("kind") == "BinaryOperator" and p.get("opcode") == "+":
            self.need_cursor(p["inner"][0])
            self.lines.append("let %s ← PrimOps.adv %s %d" % (self.cursor, self.cursor, int_literal(p["inner"][1])))
        else:
            self.need_cursor(p)
        self.lines.append("pure (%s, %s)" % (e, self.cursor))

    def decoder(self, body, rty):
        for i, s in enumerate(body):
            k = s.get("kind")
            if k == "DeclStmt":
                self.decl(s)
            elif k == "CallExpr" and callee_name(s) == "memcpy":
                self.memcpy(s)
            elif k == "ReturnStmt":
                if i != len(body) - 1:
                    raise Unsupported("statements after return")
                self.dec_return(s, rty)
                return
            else:
                self.dec_tie(s)
        raise Unsupported("no return")

    # ------------------------------------------------------------ encoders
    def enc_call(self, c):
        """g(e, ptr) -> lean text of the bytes it stores"""
        c = strip(c)
        if c.get("kind") != "CallExpr" or len(c["inner"]) != 3:
            raise Unsupported("call shape")
        g = callee_name(c)
        if g not in self.sigs or self.sigs[g][0] != "enc":
            raise Unsupported("call " + g)
        e, te, _ = self.expr(c["inner"][1])
        if te != self.sigs[g][1]:
            raise Unsupported("argument type %s for %s" % (te, g))
        self.need_cursor(c["inner"][2])
        return "%s %s" % (g, e)

    def flush(self, n):
        if sorted(self.pending) != list(range(n)):
            raise Unsupported("stores to ptr[%s] but the function advances by %d" % (sorted(self.pending), n))
        if n:
            self.lines.append("let out := out ++ [%s]" % ", ".join(self.pending[i] for i in range(n)))
        self.pending = {}

    def encoder(self, body):
        self.lines.append("let out : %s := []" % BYTES)
        for i, s in enumerate(body):
            k = s.get("kind")
            if k == "DeclStmt":
                self.decl(s)
            elif k == "CallExpr" and callee_name(s) == "memcpy":
                self.memcpy(s)
            elif k == "BinaryOperator" and s.get("opcode") == "=":
                lhs = strip(s["inner"][0])
                lk = lhs.get("kind")
                if lk == "ArraySubscriptExpr" or (lk == "UnaryOperator" and lhs.get("opcode") == "*"):
                    self.need_cursor(lhs["inner"][0])
                    idx = int_literal(lhs["inner"][1]) if lk == "ArraySubscriptExpr" else 0
                    if idx in self.pending or idx < 0:
                        raise Unsupported("ptr[%d] stored twice" % idx)
                    e, te, _ = self.expr(s["inner"][1])
                    if te != "byte":
                        raise Unsupported("store of %s into a byte" % te)
                    self.pending[idx] = e
                elif lk == "DeclRefExpr" and lhs["referencedDecl"]["name"] == self.cursor:
                    if self.pending:
                        raise Unsupported("pointer reassigned after indexed stores")
                    self.lines.append("let out := out ++ %s" % self.enc_call(s["inner"][1]))
                else:
                    raise Unsupported("assignment target")
            elif k == "ReturnStmt":
                if i != len(body) - 1:
                    raise Unsupported("statements after return")
                r = strip(s["inner"][0])
                if r.get("kind") == "BinaryOperator" and r.get("opcode") == "+":
                    self.need_cursor(r["inner"][0])
                    self.flush(int_literal(r["inner"][1]))
                elif r.get("kind") == "CallExpr":
                    self.flush(0)
                    self.lines.append("let out := out ++ %s" % self.enc_call(r))
                else:
                    self.need_cursor(r)
                    self.flush(0)
                self.lines.append("out")
                return
            else:
                raise Unsupported("statement " + str(k))
        raise Unsupported("no return")


# ---------------------------------------------------------------- decode_extra / encode_extra (whole-function patterns)

def shape(n):
    """Canonical text of a typed subtree: kinds, operators, cast kinds, names, literal values."""
    if not isinstance(n, dict) or "kind" not in n:
        return ""
    bits = [n["kind"]]
    for key in ("opcode", "castKind", "value", "name"):
        if key in n and not (key == "name" and n["kind"] == "FunctionDecl"):
            bits.append(str(n[key]))
    if "referencedDecl" in n:
        bits.append("->" + n["referencedDecl"].get("name", "?"))
    if n["kind"] in ("VarDecl", "ParmVarDecl"):
        bits.append(":" + ctype(n))
    kids = [shape(c) for c in n.get("inner", [])]
    return "(" + " ".join(bits + [k for k in kids if k]) + ")"


_SIZE = "(CXXMemberCallExpr (MemberExpr size (ImplicitCastExpr NoOp (DeclRefExpr ->extra_data))))"
_SIZE_P = "(CXXMemberCallExpr (MemberExpr size (DeclRefExpr ->extra_data)))"
_PTR = "(ImplicitCastExpr LValueToRValue (DeclRefExpr ->ptr))"
_MEMCPY = "(ImplicitCastExpr FunctionToPointerDecay (DeclRefExpr ->memcpy))"

DECODE_EXTRA_SHAPE = (
    "(FunctionDecl (ParmVarDecl ptr :cptr) (ParmVarDecl end :cptr) (CompoundStmt "
    "(DeclStmt (VarDecl extra_data :vec (CXXConstructExpr))) "
    "(CXXMemberCallExpr (MemberExpr resize (DeclRefExpr ->extra_data)) (ImplicitCastExpr IntegralCast "
    "(BinaryOperator - (ImplicitCastExpr LValueToRValue (DeclRefExpr ->end)) " + _PTR + "))) "
    "(IfStmt (UnaryOperator ! (CXXMemberCallExpr (MemberExpr empty (ImplicitCastExpr NoOp (DeclRefExpr ->extra_data))))) "
    "(CompoundStmt (CallExpr " + _MEMCPY + " (ImplicitCastExpr BitCast (CXXMemberCallExpr (MemberExpr data "
    "(DeclRefExpr ->extra_data)))) (ImplicitCastExpr BitCast " + _PTR + ") " + _SIZE + "))) "
    "(ReturnStmt (ExprWithCleanups (CXXConstructExpr (DeclRefExpr ->extra_data) (MaterializeTemporaryExpr "
    "(BinaryOperator + " + _PTR + " " + _SIZE + ")))))))")

DECODE_EXTRA_LEAN = """\
/-- `ptr` is the list of bytes in `[ptr, end)`, so `end - ptr` is its length. -/
def decode_extra (ptr : List UInt8) : Option (List UInt8 × List UInt8) := do
  let extra_data : List UInt8 := []
  let extra_data := PrimOps.resize extra_data ptr.length
  let extra_data ← if !extra_data.isEmpty then PrimOps.memcpy extra_data ptr extra_data.length else pure extra_data
  let ptr ← PrimOps.adv ptr extra_data.length
  pure (extra_data, ptr)
"""

ENCODE_EXTRA_SHAPE = (
    "(FunctionDecl (ParmVarDecl extra_data :cvecref) (ParmVarDecl ptr :ptr) (CompoundStmt "
    "(IfStmt (UnaryOperator ! (CXXMemberCallExpr (MemberExpr empty (DeclRefExpr ->extra_data)))) "
    "(CompoundStmt (CallExpr " + _MEMCPY + " (ImplicitCastExpr BitCast " + _PTR + ") (ImplicitCastExpr BitCast "
    "(CXXMemberCallExpr (MemberExpr data (DeclRefExpr ->extra_data)))) " + _SIZE_P + "))) "
    "(ReturnStmt (BinaryOperator + " + _PTR + " " + _SIZE_P + "))))")

ENCODE_EXTRA_LEAN = """\
def encode_extra (extra_data : List UInt8) : List UInt8 :=
  let out : List UInt8 := []
  let out := if !extra_data.isEmpty then out ++ extra_data.take extra_data.length else out
  out
"""


# ---------------------------------------------------------------- driver

def translate(header):
    docs = clang_ast(header, NS)
    decls = []
    for d in docs:
        if d.get("kind") == "NamespaceDecl":
            decls += d.get("inner", [])
        else:
            decls.append(d)
    fns = {}
    for d in decls:
        if d.get("kind") == "FunctionDecl" and d.get("name") in FUNCS:
            if not any(c.get("kind") == "CompoundStmt" for c in d.get("inner", [])):
                continue
            if d["name"] in fns:
                raise Unsupported("overloaded " + d["name"])
            fns[d["name"]] = d
    for f in FUNCS:
        if f not in fns:
            raise Unsupported("missing function " + f)
    # definitions are emitted in the header's order (= order of appearance in the dump); a callee must come first
    order = [d["name"] for d in decls if d.get("kind") == "FunctionDecl" and fns.get(d.get("name")) is d]
    out = ["/- GENERATED by tools/tr_prim.py from %s — do not edit. -/" % REL,
           "import EngineModel.Basic.PrimOps", "", "namespace EngineModel.Gen.Prim", "open EngineModel", ""]
    sigs = {}
    for name in order:
        d = fns[name]
        if name == "decode_extra":
            if shape(d) != DECODE_EXTRA_SHAPE:
                raise Unsupported("decode_extra does not have the recognised shape")
            out += DECODE_EXTRA_LEAN.rstrip("\n").split("\n") + [""]
            continue
        if name == "encode_extra":
            if shape(d) != ENCODE_EXTRA_SHAPE:
                raise Unsupported("encode_extra does not have the recognised shape")
            out += ENCODE_EXTRA_LEAN.rstrip("\n").split("\n") + [""]
            continue
        params = [p for p in d["inner"] if p.get("kind") == "ParmVarDecl"]
        body = [p for p in d["inner"] if p.get("kind") == "CompoundStmt"][0].get("inner", [])
        rq = " ".join(d["type"]["qualType"].split())
        ret = rq[:rq.index("(")].strip()
        if name.startswith("decode_"):
            if [ctype(p) for p in params] != ["cptr"] or params[0]["name"] != "ptr":
                raise Unsupported(name + ": parameters")
            # the declared return type is written with typedefs; take the desugared one from the return statement
            fn = Fn(name, "dec", sigs)
            rets = [s for s in body if s.get("kind") == "ReturnStmt"]
            if len(rets) != 1:
                raise Unsupported(name + ": return statements")
            rty = pair_value_type(strip(rets[0]["inner"][0]))
            if rty not in LEAN_T:
                raise Unsupported(name + ": value type " + rty)
            fn.decoder(body, rty)
            sigs[name] = ("dec", rty)
            out.append("def %s (ptr : %s) : Option (%s × %s) := do" % (name, BYTES, LEAN_T[rty], BYTES))
        else:
            if len(params) != 2 or ctype(params[1]) != "ptr" or params[1]["name"] != "ptr" or ret != "std::byte *":
                raise Unsupported(name + ": signature")
            vty = ctype(params[0])
            if vty not in LEAN_T or reserved(params[0]["name"]):
                raise Unsupported(name + ": value type " + vty)
            fn = Fn(name, "enc", sigs)
            fn.vars[params[0]["name"]] = [vty, True]
            fn.encoder(body)
            sigs[name] = ("enc", vty)
            out.append("def %s (%s : %s) : %s :=" % (name, params[0]["name"], LEAN_T[vty], BYTES))
        for l in fn.lines:
            out.append("  " + l)
        out.append("")
    out.append("end EngineModel.Gen.Prim")
    return "\n".join(out) + "\n"


def main():
    header = sys.argv[1] if len(sys.argv) > 1 else os.path.join(REPO, REL)
    target = os.path.join(LEAN, "EngineModel", "Gen", "PrimGen.lean")
    try:
        txt = translate(header)
    except Unsupported as e:
        print("translator: unsupported-node: %s" % e)
        return 2
    old = open(target).read() if os.path.exists(target) else None
    if old != txt:
        open(target, "w").write(txt)
        print("translator: regenerated (changed)")
    else:
        print("translator: regenerated (identical)")
    return 0


if __name__ == "__main__":
    sys.exit(main())
