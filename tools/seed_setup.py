#!/usr/bin/env python3
"""seed_setup.py <round-tag> <Cxx> [<Cxx> ...]

Prepare one scratch worktree of /repo per property for an *independent* seeding
agent: /tmp/<round-tag>-<Cxx> at /repo's HEAD with a TASK.md that holds ONLY the
property's text (from properties.jsonl) and the rules of the exercise — nothing
else from /verif.  The agent writes out/<n>/{patch.diff,demo.cpp,demo.sh,meta.json}
there; tools/confirm_seed.py then confirms and keeps a change."""
import json, os, subprocess, sys
sys.path.insert(0, os.path.dirname(os.path.abspath(__file__)))
from common import VERIF

RULES = """
# Task: seed a property-breaking change into libdjinterop (this worktree)

You are working in a scratch git worktree of the C++17 library xsco/libdjinterop
(this directory).  Work ONLY inside this directory.  Do not read or write /verif,
/repo, or any other worktree; do not use git stash / commit / branch (leave the
index alone; edit the working tree only).

## The property

{prop}

## What to produce

TWO different changes to the library's source (under src/ or include/), as
different from one another as you can make them (different files / mechanisms /
schema generations), each of which

 1. BREAKS the property above on some input / history / fault / configuration,
 2. still COMPILES and still PASSES the repository's existing, unedited test
    suite, and
 3. needs something SPECIFIC to manifest — a particular multi-step sequence of
    operations, an unusual but legal input value, a failure or fault at one
    particular point (e.g. an SQLite statement failing, a constraint violation,
    a truncated stream), a specific schema version, or two cooperating sites that
    each look fine alone.  NOT something ordinary use would expose at once, and
    NOT something a reviewer would spot as obviously wrong: it should look like a
    plausible refactoring, optimisation, clean-up or "defensive fix" a maintainer
    might merge.

Think about what a verifier that samples typical inputs and typical histories
would overlook: boundary values, rare branches, rarely used API entry points,
state left behind by a *failed* call, id spaces that normally coincide,
version-specific code paths, the second call of something, etc.

For each change n = 1, 2 create the directory out/<n>/ with

 * patch.diff   — `git diff` of the change against HEAD (source files only; must
                  apply with `git apply` on a clean checkout),
 * demo.cpp     — a small self-contained program against the PUBLIC or internal
                  headers that exercises the breaking scenario and exits 0 when
                  the property holds and non-zero (with a one-line FAIL message)
                  when it is violated,
 * demo.sh      — builds demo.cpp against the library built in ./_build and runs
                  it (exit status = demo's; it must work from any cwd: derive
                  paths from the script's own location),
 * meta.json    — {{"property": "{pid}", "summary": "<what was changed and why it
                  breaks the property>", "needs": "<what exactly is needed for it
                  to manifest>", "why_tests_pass": "<why the existing suite does
                  not notice>", "observed_on_mutant": "<demo output>",
                  "commands": ["<what you ran>", ...]}}.

## How to build and test (offline; nothing can be downloaded)

    cmake -G Ninja -B _build -DCMAKE_BUILD_TYPE=Release . >/dev/null && cmake --build _build 2>&1 | tail -3
    ctest --test-dir _build -j8 --timeout 900 2>&1 | tail -5        # must say 100% tests passed

(If configuring fails, look at how /repo-style options are set in CMakeLists.txt;
the system SQLite and zlib are used.)  Build in Release mode as above: assert()s
are compiled out, as in a shipped library.

You MUST verify, and record in meta.json.commands: clean tree → tests pass, demo
exits 0; patched tree → builds, tests pass, demo exits non-zero; restored tree.
When finished, leave the working tree CLEAN (`git checkout -- .`; only TASK.md,
_build/ and out/ untracked) with _build rebuilt from the clean tree.

Your final message: for each change one paragraph (what, needs, demo result).
"""


def main():
    tag = sys.argv[1]
    props = {}
    for l in open(os.path.join(VERIF, "properties.jsonl")):
        d = json.loads(l)
        props[d["id"]] = d
    for pid in [a for a in sys.argv[2:] if not a.startswith("--")]:
        wt = "/tmp/%s-%s" % (tag, pid)
        if not os.path.isdir(wt):
            subprocess.run(["git", "-C", "/repo", "worktree", "add", "--detach", wt, "HEAD"], check=True,
                           stdout=subprocess.DEVNULL, stderr=subprocess.DEVNULL)
        d = props[pid]
        q = d["quantifier"]
        prop = ("**%s — %s**\n\n%s\n\nQuantifier: %s\n\nWhy the existing tests cannot settle it: %s\n\nWhere it lives: %s\n"
                % (pid, d["title"], d["statement"], q.get("text", q) if isinstance(q, dict) else q,
                   d["why_tests_cant"], ", ".join(d["anchors"].get("files", [])) if isinstance(d["anchors"], dict) else d["anchors"]))
        # changes earlier independent agents already produced for this property: descriptions of changes to the
        # LIBRARY only (nothing about the verification machinery) — so that a new round does not find them again
        import glob
        prev = []
        for mf in sorted(glob.glob(os.path.join(VERIF, "seeded", pid + "-*", "meta.json"))):
            try:
                prev.append("- " + " ".join(json.load(open(mf)).get("summary", "").split())[:420])
            except (OSError, ValueError):
                pass
        text = RULES.format(prop=prop, pid=pid)
        if prev and "--norepeat" in sys.argv:
            text = text.replace("## What to produce", "## Already done by others — do NOT produce these or close variants of them again\n\n"
                                + "\n".join(prev) + "\n\nLook for a DIFFERENT mechanism, file or code path.\n\n## What to produce")
        open(os.path.join(wt, "TASK.md"), "w").write(text)
        print(wt)


if __name__ == "__main__":
    main()
