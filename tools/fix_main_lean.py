#!/usr/bin/env python3
"""Normalise lean/Driver/Main.lean after a union merge: collect every `  ++ <expr>`
line under the (possibly duplicated) `def tables` / `def modes` headers, keep each
once in first-seen order under the header it was found, drop duplicated headers."""
import os, re, sys
sys.path.insert(0, os.path.dirname(os.path.abspath(__file__)))
from common import LEAN
p = os.path.join(LEAN, "Driver", "Main.lean")
s = open(p).read()
s = re.sub(r"<<<<<<<.*\n|=======\n|>>>>>>>.*\n", "", s)
start = s.index("/-- Stateless command tables")
end = s.index("def dispatch")
sec = None
ents = {"tables": [], "modes": []}
for line in s[start:end].split("\n"):
    if line.startswith("def tables"):
        sec = "tables"
    elif line.startswith("def modes"):
        sec = "modes"
    m = re.match(r"^\s*\+\+\s+(\S.*?)\s*$", line)
    if m and sec:
        e = m.group(1)
        # an entry that is obviously a mode list found under `tables` (union merge displaced it) goes to modes
        tgt = "modes" if re.search(r"\.(mode|modes|oracle)\b", e) else ("tables" if re.search(r"[Tt]able\b", e) else sec)
        if e not in ents["tables"] and e not in ents["modes"]:
            ents[tgt].append(e)
new = "/-- Stateless command tables, tried in order. -/\ndef tables : List (String → List String → Option String) := []\n"
new += "".join("  ++ %s\n" % e for e in ents["tables"])
new += "\n/-- Stateful groups, selected by a first line `#mode <name>`. -/\ndef modes : List Mode := []\n"
new += "".join("  ++ %s\n" % e for e in ents["modes"]) + "\n"
open(p, "w").write(s[:start] + new + s[end:])
print("tables:", ents["tables"], "\nmodes:", ents["modes"])
