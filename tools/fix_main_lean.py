#!/usr/bin/env python3
"""Normalise lean/Driver/Main.lean after a union merge: collect every
`  ++ [Drv.X]` line, put `*.mode` entries under `modes` and the others under
`tables`, each once, keeping first-seen order; drop duplicated headers."""
import os, re, sys
sys.path.insert(0, os.path.dirname(os.path.abspath(__file__)))
from common import LEAN
p = os.path.join(LEAN, "Driver", "Main.lean")
s = open(p).read()
s = re.sub(r"<<<<<<<.*\n|=======\n|>>>>>>>.*\n", "", s)
start = s.index("/-- Stateless command tables")
end = s.index("def dispatch")
ents = []
for m in re.finditer(r"^\s*\+\+ (\[Drv\.[A-Za-z0-9_.]+\]|Drv\.[A-Za-z0-9_.]+)\s*$", s[start:end], re.M):
    if m.group(1) not in ents:
        ents.append(m.group(1))
ismode = lambda e: e.rstrip("]").endswith((".mode", ".modes"))
tables = [e for e in ents if not ismode(e)]
modes = [e for e in ents if ismode(e)]
new = "/-- Stateless command tables, tried in order. -/\ndef tables : List (String → List String → Option String) := []\n"
new += "".join("  ++ %s\n" % e for e in tables)
new += "\n/-- Stateful groups, selected by a first line `#mode <name>`. -/\ndef modes : List Mode := []\n"
new += "".join("  ++ %s\n" % e for e in modes) + "\n"
open(p, "w").write(s[:start] + new + s[end:])
print("tables:", tables, "\nmodes:", modes)
