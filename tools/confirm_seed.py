#!/usr/bin/env python3
"""confirm_seed.py <scratch-worktree> <n> <Cxx> <seeded-id> [--checks Cxx,Cyy]

Independently confirm a seeded breaking change produced in a scratch worktree
of /repo (layout: <wt>/out/<n>/{patch.diff,demo.cpp,demo.sh,meta.json}) and, if
confirmed, keep it under /verif/seeded/<seeded-id>/ together with what was run
and what each registered check said about it:
  1. clean tree: build, unedited test-suite passes, demo exits 0;
  2. patched tree: builds, unedited test-suite passes, demo exits non-zero;
  3. tools/mutant_run.py on the patch for the given checks (default: <Cxx>).
The scratch worktree is left clean.
"""
import argparse, json, os, shutil, subprocess, sys
sys.path.insert(0, os.path.dirname(os.path.abspath(__file__)))
from common import VERIF


def sh(cmd, **kw):
    return subprocess.run(cmd, shell=True, stdout=subprocess.PIPE, stderr=subprocess.STDOUT, text=True, **kw)


def build_and_test(wt):
    r = sh("cd %s && (test -d _build || cmake -G Ninja -B _build -DCMAKE_BUILD_TYPE=Release . >/dev/null) && "
           "cmake --build _build 2>&1 | tail -3 && ctest --test-dir _build -j8 --timeout 900 2>&1 | tail -4" % wt)
    return "100% tests passed" in r.stdout, r.stdout[-600:]


def main():
    ap = argparse.ArgumentParser()
    ap.add_argument("wt"); ap.add_argument("n"); ap.add_argument("pid"); ap.add_argument("sid")
    ap.add_argument("--checks", default=None)
    a = ap.parse_args()
    src = os.path.join(a.wt, "out", a.n)
    patch = os.path.join(src, "patch.diff")
    log = []
    sh("git -C %s checkout -- ." % a.wt)
    ok, out = build_and_test(a.wt); log.append(("clean: build + test-suite", ok))
    d0 = sh("sh %s/demo.sh" % src); log.append(("clean: demo exits 0", d0.returncode == 0))
    r = sh("git -C %s apply %s" % (a.wt, patch)); log.append(("patch applies", r.returncode == 0))
    ok2, out2 = build_and_test(a.wt); log.append(("patched: build + test-suite pass", ok2))
    d1 = sh("sh %s/demo.sh" % src); log.append(("patched: demo fails", d1.returncode != 0))
    sh("git -C %s checkout -- ." % a.wt)
    build_and_test(a.wt)
    confirmed = all(v for _, v in log)
    for k, v in log:
        print("%-40s %s" % (k, "yes" if v else "NO"))
    if not confirmed:
        print("NOT CONFIRMED\n", out[-300:], out2[-300:], d0.stdout[-300:], d1.stdout[-300:])
        return 1
    dst = os.path.join(VERIF, "seeded", a.sid)
    os.makedirs(dst, exist_ok=True)
    for f in os.listdir(src):
        p = os.path.join(src, f)
        if os.path.isfile(p) and not (os.access(p, os.X_OK) and f == "demo"):
            shutil.copy(p, dst)
    checks = (a.checks or a.pid).split(",")
    r = sh("%s %s/tools/mutant_run.py %s %s" % (sys.executable, VERIF, os.path.join(dst, "patch.diff"), " ".join(checks)))
    print(r.stdout[-1500:])
    verdicts = {}
    for l in r.stdout.split("\n"):
        t = l.split()
        if len(t) >= 2 and t[1] in ("CAUGHT", "MISSED"):
            verdicts[t[0]] = t[1]
    try:
        meta = json.load(open(os.path.join(dst, "meta.json")))
    except (OSError, ValueError):
        meta = {}
    meta["breaks_property"] = a.pid
    meta["confirmed_by_integrator"] = {
        "ran": ["clean tree: cmake --build + ctest (all pass) + demo.sh (exit 0)",
                "git apply patch.diff: cmake --build + ctest (all pass) + demo.sh (exit %d): %s" % (
                    d1.returncode, d1.stdout.strip().split("\n")[-1][:200]),
                "python3 tools/mutant_run.py seeded/%s/patch.diff %s" % (a.sid, " ".join(checks))],
        "repo_head": sh("git -C /repo rev-parse --short HEAD").stdout.strip(),
        "checks": verdicts,
    }
    json.dump(meta, open(os.path.join(dst, "meta.json"), "w"), indent=1)
    print("kept as", dst, verdicts)
    return 0


if __name__ == "__main__":
    sys.exit(main())
