#!/usr/bin/env python3
"""check.py <Cxx> [--tier quick|thorough] [--replay <file>]

Decision protocol (DESIGN.md §1): build from /repo's working tree -> regenerate
translated models -> lake build -> proof audit -> correspondence tie ->
classify (search for a failing input when a proof or the tie broke) ->
evidence.  Exit 0 iff the property held on everything explored.
"""
import argparse, importlib, json, os, sys, time, traceback
sys.path.insert(0, os.path.dirname(os.path.abspath(__file__)))
from common import *
import build as buildmod
import audit as auditmod

TRUSTED_BASE = [
    "Lean 4.33.0 kernel (theorems re-elaborated by `lake build` on every run)",
    "axioms allowed: propext, Classical.choice, Quot.sound (audited per theorem with #print axioms); no sorry/admit/native_decide/bv_decide/own axioms (grep on every run)",
    "correspondence tie: harness/djv*.cpp (real library objects, ASan+UBSan+_GLIBCXX_ASSERTIONS), lean/Driver/Main.lean, tools/*.py generators and comparators",
    "Lean compiler for the executable side of the driver (not trusted for any theorem)",
]


class Ctx:
    def __init__(self, pid, tier, seed):
        self.pid, self.tier, self.seed = pid, tier, seed
        self.notes = []
        self.t0 = time.time()
        self.replay_dir = os.path.join(BUILD, "replay")
        os.makedirs(self.replay_dir, exist_ok=True)

    def replay_path(self, tag):
        return os.path.join(self.replay_dir, "%s_%s_seed%d.txt" % (self.pid, tag, self.seed))

    def write_replay(self, tag, header, body):
        p = self.replay_path(tag)
        with open(p, "w") as f:
            f.write("property: %s\nseed: %d\ntier: %s\n" % (self.pid, self.seed, self.tier))
            for k, v in header.items():
                f.write("%s: %s\n" % (k, v))
            f.write("----\n")
            f.write(body if isinstance(body, str) else "\n".join(body))
            f.write("\n")
        return p


def parse_replay(path):
    hdr, body, inbody = {}, [], False
    for line in open(path).read().split("\n"):
        if not inbody:
            if line.strip() == "----":
                inbody = True
            elif ": " in line:
                k, v = line.split(": ", 1)
                hdr[k.strip()] = v.strip()
        elif line.strip():
            body.append(line)
    return hdr, body


def do_replay(ctx, prop, path, hdr, body):
    """Re-run the recorded input on the implementation built from /repo's working
    tree and on the model; a plugin may provide replay(ctx, hdr, body) -> (ok, text)."""
    import re, runner
    b = buildmod.build()
    lb = auditmod.lake_build(targets=("modeldrv",))
    if not b["ok"] or not lb["ok"]:
        print("replay: build failed")
        return 1
    if hasattr(prop, "replay"):
        ok, text = prop.replay(ctx, hdr, body)
        print(text)
    else:
        script = [l for l in body if not re.match(r"^[A-Za-z_()0-9 ]{1,20}: ", l)]
        stateless = getattr(prop, "STATELESS", True)
        hout, reports = runner.run_harness_script(script, stateless=stateless)
        mout = runner.run_model_script(script)
        ok = True
        for l, h, m in zip(script, hout, mout):
            same = h == m
            ok = ok and same
            print("%s\n   impl:  %s\n   model: %s%s" % (l[:300], h[:300], m[:300], "" if same else "   <-- differ"))
        print("recorded verdict: %s" % hdr.get("what", "(none)"))
    if not ok:
        print("VIOLATION property=%s replay=%s" % (ctx.pid, path))
    return 0 if ok else 1


def load_known():
    try:
        return json.load(open(os.path.join(VERIF, "known_findings.json")))
    except (OSError, ValueError):
        return {"known": [], "fixed": []}


def main():
    ap = argparse.ArgumentParser()
    ap.add_argument("pid")
    ap.add_argument("--tier", default=os.environ.get("VERIF_TIER", "quick"))
    ap.add_argument("--replay")
    a = ap.parse_args()
    tier = a.tier if a.tier in ("quick", "thorough") else "quick"
    seed = int(os.environ.get("VERIF_SEED", "1") or "1")
    pid = a.pid
    prop = importlib.import_module("props." + pid)
    ctx = Ctx(pid, tier, seed)
    violations = []     # (replay_path, suffix)
    known_lines = []
    ev_extra = {}

    if a.replay:
        hdr, body = parse_replay(a.replay)
        if hdr.get("kind") not in ("theorem", "correspondence", "build-failure"):
            return do_replay(ctx, prop, a.replay, hdr, body)
        # a broken proof / correspondence replays as the check itself

    # 1. build from the working tree
    b = buildmod.build()
    ev_extra["build"] = {k: v for k, v in b.items() if k != "errors"}
    if not b["ok"]:
        rp = ctx.write_replay("build", {"kind": "build-failure"},
                              "\n".join("%s\n%s" % e for e in b["errors"]))
        violations.append((rp, "no-failing-input-found"))
        return finish(ctx, prop, violations, known_lines, ev_extra, {}, None)

    # 2. translators + lake build + audit
    tr_status = {}
    # Isolation between properties: every regenerated model file (lean/EngineModel/Gen/*) is first put
    # back to its committed content, then only THIS property's translators regenerate theirs from the
    # working tree of /repo.  Otherwise a translation left behind by another property's check (e.g. of
    # a source change that breaks that property's proofs) would fail this property's build as well.
    try:
        run(["git", "-C", VERIF, "checkout", "--", "lean/EngineModel/Gen"])
    except Exception:
        pass
    for name, fn in getattr(prop, "TRANSLATORS", {}).items():
        try:
            tr_status[name] = fn()
        except Exception as e:  # translator crash = unsupported
            tr_status[name] = "unsupported-node: %r" % (e,)
    ev_extra["translators"] = tr_status
    # build what this property needs: its own theorem modules (and everything they import) and the
    # model driver -- not the proofs of other properties (tools/setup.py builds everything once)
    own = tuple(getattr(prop, "LEAN_MODULES", []))
    targets = own + ("modeldrv",)
    lb = auditmod.lake_build(targets=targets)
    ev_extra["lake_build"] = {"ok": lb["ok"], "wall_s": round(lb["wall_s"], 1), "targets": list(targets)}
    proof_ok = lb["ok"]
    arep = None
    if not lb["ok"]:
        # The model side no longer builds (a regenerated definition changed or a
        # proof broke).  Fall back: rebuild only the executable model so the tie
        # and the oracle can still run.
        ev_extra["lake_build"]["errors"] = lb["errors"][:10]
        lb2 = auditmod.lake_build(targets=("modeldrv",))
        ev_extra["lake_build"]["driver_only_ok"] = lb2["ok"]
    if lb["ok"]:
        arep = auditmod.audit(prop.THEOREMS, imports=tuple(getattr(prop, "LEAN_MODULES", ["Properties"])))
        proof_ok = arep["ok"]
        if tier == "thorough":
            lc = auditmod.leanchecker(getattr(prop, "LEAN_MODULES", []))
            ev_extra["leanchecker"] = lc
            if not all(lc.values()):
                proof_ok = False

    # 3. tie (+ direct oracle inside the plugin)
    try:
        tie = prop.tie(ctx)
    except Exception:
        tie = {"ok": False, "crash": traceback.format_exc(), "violations": [], "divergences": []}
    # 3b. stale regenerated model: a translator met source outside its fragment and kept the previous translation,
    # so the registered theorems are, for that part, theorems about the code as it WAS.  That alone is no alarm (a
    # harmless rewrite can leave the fragment), but the execution tie is then the only thing that speaks about the
    # code as it is: search deeper - the same tie again at further seeds (quick tier; the thorough tier is already
    # deep) - and say so in the evidence.  On the unchanged tree no translator is ever outside its fragment, so
    # this costs nothing there.
    stale = sorted(k for k, v in tr_status.items() if "unsupported" in json.dumps(v))
    if stale:
        ev_extra["stale_model"] = {"translators_outside_fragment": stale, "extra_tie_seeds": []}
        if tier == "quick" and not tie.get("violations") and not tie.get("divergences") and tie.get("ok", False):
            for extra_seed in (seed + 1000, seed + 2000, seed + 3000):
                try:
                    t2 = prop.tie(Ctx(pid, tier, extra_seed))
                except Exception:
                    t2 = {"ok": False, "crash": traceback.format_exc(), "violations": [], "divergences": []}
                ev_extra["stale_model"]["extra_tie_seeds"].append(
                    {"seed": extra_seed, "ok": bool(t2.get("ok")), "evaluations": t2.get("evaluations", 0)})
                if t2.get("violations") or t2.get("divergences") or not t2.get("ok", False):
                    tie = t2
                    break
    # 4. classify
    known = load_known()
    for v in tie.get("violations", []):
        sig = v.get("signature")
        match = None
        for k in known.get("known", []):
            if k.get("property") == pid and sig is not None and k.get("signature") == sig:
                match = k
        if match:
            known_lines.append("KNOWN-FINDING: property=%s %s" % (pid, match.get("what", json.dumps(sig))))
        else:
            rp = ctx.write_replay("%s%d" % (v.get("tag", "violation"), len(violations)), v.get("header", {}), v["body"])
            violations.append((rp, ""))
    if not violations:
        if not proof_ok:
            failed = (arep or {}).get("failed", []) or ["lake build: " + "; ".join(lb["errors"][:5])]
            rp = ctx.write_replay("proof", {"kind": "theorem"},
                                  "proof obligations that no longer check:\n" + "\n".join(failed) +
                                  "\n\nlake build log tail:\n" + lb.get("log", "")[-3000:])
            violations.append((rp, "no-failing-input-found"))
        elif tie.get("divergences") or not tie.get("ok", False):
            body = json.dumps(tie.get("divergences", [])[:20], indent=1) + "\n" + tie.get("crash", "")
            rp = ctx.write_replay("correspondence", {"kind": "correspondence"},
                                  "correspondence streams that no longer check (model vs implementation), "
                                  "no input contradicting the property found:\n" + body)
            violations.append((rp, "no-failing-input-found"))
    return finish(ctx, prop, violations, known_lines, ev_extra, tie, arep)


def finish(ctx, prop, violations, known_lines, ev_extra, tie, arep):
    pid = ctx.pid
    ths = getattr(prop, "THEOREMS", [])
    discharged = 0
    thinfo = {}
    if arep:
        for t, e in arep["theorems"].items():
            thinfo[t] = {"status": e.get("status"), "axioms": e.get("axioms")}
            if e.get("status") == "ok":
                discharged += 1
    cov = {
        "obligations": max(1, len(ths)),
        "discharged": discharged,
        "checker_cmd": "cd /verif/lean && lake build EngineModel Proofs Properties modeldrv && lake env lean <#print axioms for each registered theorem> (tools/audit.py)",
        "trusted_base": TRUSTED_BASE + getattr(prop, "TRUSTED_EXTRA", []),
        "theorems": thinfo,
        "evaluations": int(tie.get("evaluations", 0)),
        "distinct_nontrivial": int(tie.get("distinct_nontrivial", 0)),
        "rule": tie.get("rule", ""),
        "samples": tie.get("samples", [])[:8] or ["(no samples: run stopped before the tie)"],
        "traces_validated_against_impl": int(tie.get("evaluations", 0)),
        "histograms": tie.get("histograms", {}),
        "known_findings_printed": known_lines,
        "tie_ok": bool(tie.get("ok", False)),
        "divergences": tie.get("divergences", [])[:10],
    }
    cov.update(ev_extra)
    for k in ("exhaustive", "self_test", "extra"):
        if k in tie:
            cov[k] = tie[k]
    ev = {
        "property_id": pid, "tier": ctx.tier, "seed": ctx.seed, "level": "proof",
        "coverage": cov,
        "assumptions": getattr(prop, "ASSUMPTIONS", []),
        "wall_s": round(time.time() - ctx.t0, 2),
        "violations": len(violations),
    }
    os.makedirs(os.path.join(VERIF, "evidence"), exist_ok=True)
    with open(os.path.join(VERIF, "evidence", pid + ".json"), "w") as f:
        json.dump(ev, f, indent=1, default=str)
    for l in known_lines:
        print(l)
    for rp, suffix in violations:
        print(("VIOLATION property=%s replay=%s %s" % (pid, rp, suffix)).rstrip())
        # excerpt of the replay, so that a log of this run alone shows what failed
        try:
            with open(rp) as f:
                for n, l in enumerate(f):
                    if n >= 14:
                        print("  | ...")
                        break
                    print("  | " + l.rstrip("\n")[:400])
        except OSError:
            pass
    print("%s %s tier=%s seed=%d theorems=%d/%d evaluations=%d wall=%.1fs" % (
        pid, "FAIL" if violations else "ok", ctx.tier, ctx.seed, discharged, len(ths),
        cov["evaluations"], time.time() - ctx.t0))
    return 1 if violations else 0


if __name__ == "__main__":
    sys.exit(main())
