#!/usr/bin/env python3
"""setup: build everything from files on disk (offline): the Lean model, proofs
and driver, and the sanitizer build of /repo's working tree + harness."""
import os, sys, subprocess, time
sys.path.insert(0, os.path.dirname(os.path.abspath(__file__)))
from common import *
import build as buildmod
import audit as auditmod

def main():
    t0 = time.time()
    b = buildmod.build()
    print("library+harness:", {k: v for k, v in b.items() if k != "errors"})
    for s, m in b.get("errors", []):
        print("ERROR", s, m)
    # regenerate translated models so that the committed copies match the tree
    for tr in ("tr_trackutils.py", "tr_blobs.py", "tr_blobs_v1.py", "tr_zlib.py", "tr_prim.py", "tr_v1bindings.py", "tr_beatgrid.py"):
        p = os.path.join(VERIF, "tools", tr)
        if os.path.exists(p):
            r = subprocess.run([sys.executable, p], stdout=subprocess.PIPE, stderr=subprocess.STDOUT, text=True)
            print(tr, r.stdout.strip())
    lb = auditmod.lake_build()
    print("lake build:", lb["ok"], "%.1fs" % lb["wall_s"])
    if not lb["ok"]:
        print(lb["log"])
    # the two kernel-decided tables (C12: created vs reference catalogs; C17: expectation tables vs catalogs)
    # take minutes of kernel time when built cold; build them here, from the committed facts, so that the
    # checks find them cached (a check re-closes them only when the regenerated facts differ)
    if lb["ok"]:
        t1 = time.time()
        r = subprocess.run(["lake", "build", "Properties.C12Table", "Properties.C17Facts"], cwd=LEAN,
                           stdout=subprocess.PIPE, stderr=subprocess.STDOUT, text=True)
        print("kernel tables (C12Table, C17Facts):", r.returncode == 0, "%.1fs" % (time.time() - t1))
        if r.returncode != 0:
            print(r.stdout[-2000:])   # not fatal: the checks then report kernel_table/facts as skipped or failed themselves
    print("setup done in %.1fs" % (time.time() - t0))
    return 0 if (b["ok"] and lb["ok"]) else 1

if __name__ == "__main__":
    sys.exit(main())
