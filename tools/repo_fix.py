#!/usr/bin/env python3
"""repo_fix.py <patch.diff> "<commit message>"

Apply ONE small repair (or guarded hook) to /repo atomically:
  lock -> tree must be clean -> git apply -> build + unedited test suite with
  the repository's own build (/repo/_build) -> commit (or roll back on failure).
The message must start with "fix:" (repair of a genuine defect, unguarded,
minimal) or "hook:" (instrumentation guarded by DJINTEROP_VERIF).
Several workers share /repo: never edit it by hand, always go through this script.
"""
import fcntl, os, subprocess, sys

REPO = "/repo"
LOCK = "/tmp/djv_repo.lock"


def sh(cmd, **kw):
    return subprocess.run(cmd, shell=True, stdout=subprocess.PIPE, stderr=subprocess.STDOUT, text=True, **kw)


def main():
    if len(sys.argv) != 3:
        raise SystemExit(__doc__)
    patch, msg = os.path.abspath(sys.argv[1]), sys.argv[2]
    if not (msg.startswith("fix:") or msg.startswith("hook:")):
        raise SystemExit("commit message must start with 'fix:' or 'hook:'")
    with open(LOCK, "w") as lf:
        fcntl.flock(lf, fcntl.LOCK_EX)
        r = sh("git -C %s status --porcelain --untracked-files=no" % REPO)
        if r.stdout.strip():
            raise SystemExit("/repo has uncommitted changes to tracked files (someone applied a seeded patch?):\n" + r.stdout)
        r = sh("git -C %s apply --check %s" % (REPO, patch))
        if r.returncode != 0:
            raise SystemExit("patch does not apply:\n" + r.stdout)
        sh("git -C %s apply %s" % (REPO, patch))
        r = sh("cmake --build %s/_build 2>&1 | tail -15 && ctest --test-dir %s/_build -j8 --timeout 900 2>&1 | tail -15"
               % (REPO, REPO))
        ok = "100% tests passed" in r.stdout
        if ok:
            # the verification harness compiles every TU on its own (no unity build, fewer transitive
            # includes): a fix that does not compile there would turn every check red
            here = os.path.dirname(os.path.abspath(__file__))
            hb = sh("%s %s/build.py 2>&1 | tail -30" % (sys.executable, here))
            if '"ok": true' not in hb.stdout:
                ok = False
                r.stdout += "\nharness build (tools/build.py) failed:\n" + hb.stdout
        if not ok:
            sh("git -C %s checkout -- ." % REPO)
            # new files created by the patch
            sh("git -C %s clean -fdq -- src include test" % REPO)
            print(r.stdout)
            raise SystemExit("build or unedited test suite failed with the patch: rolled back")
        sh("git -C %s add -A -- src include CMakeLists.txt" % REPO)
        r = sh("git -C %s commit -q -m %s" % (REPO, subprocess.list2cmdline([msg])))
        if r.returncode != 0:
            print(r.stdout)
            raise SystemExit("commit failed")
        sha = sh("git -C %s rev-parse --short HEAD" % REPO).stdout.strip()
        print("committed %s %s" % (sha, msg))


if __name__ == "__main__":
    main()
