/-
modeldrv: the Lean side of the line protocol.  Reads one command per line,
prints one canonical result per line.  Nothing here imports Mathlib.
Commands live in EngineModel/Driver/Cmds/*.lean, one table per group; a new
group adds one `++ [...]` line to `tables` below (and one import line to
EngineModel.lean).  Stateful groups keep their state inside `Drv.State`
extensions of their own (see Cmds/*.lean).
-/
import EngineModel

open EngineModel

namespace Drv

/-- Stateless command tables, tried in order. -/
def tables : List (String → List String → Option String) := []
  ++ [Drv.table]
  ++ [Drv.monitorsTable]
  ++ [Drv.codecsTable]
  ++ [Drv.codecsGenTable]
  ++ [Drv.TracksV1.specTable]
  ++ [Drv.T2.table]
  ++ [Drv.C15.table]
  ++ [Drv.TableApi.specTable]
  ++ [Drv.T2Db.table]
  ++ [Drv.pureTable]
  ++ [Drv.Lib2.table]
  ++ [Drv.codecsGenV1Table]
  ++ [Drv.beatgridGenTable]
  ++ [Drv.Cv.table]

/-- Stateful groups, selected by a first line `#mode <name>`. -/
def modes : List Mode := []
  ++ [Drv.Schema.mode]
  ++ [Drv.CratesV2.mode]
  ++ [Drv.CratesV2Spec.mode]
  ++ [Drv.TracksV1.mode]
  ++ [Drv.CratesV1.mode]
  ++ [Drv.CratesV1Oracle.mode]
  ++ [Drv.CratesV1Explore.mode]
  ++ [Drv.T2.mode]
  ++ [Drv.TableApi.mode]
  ++ [Drv.T2Db.mode]
  ++ Drv.C15.modes
  ++ [Drv.Lib1.mode, Drv.Lib1.oracle]
  ++ [Drv.Lib2.mode]
  ++ Drv.C15Faults.modes
  ++ Drv.C15FaultsTracks.modes

def dispatch (line : String) : String :=
  match tokens line with
  | [] => "skip"
  | cmd :: args =>
    if cmd.startsWith "#" then "skip" else
    match tables.findSome? (fun t => t cmd args) with
    | some r => r
    | none => "bad-op unknown"

partial def loop (h : IO.FS.Stream) (out : IO.FS.Stream) : IO Unit := do
  let line ← h.getLine
  if line.isEmpty then return ()
  let l := chomp line
  match tokens l with
  | ["#mode", m] =>
    out.putStrLn "skip"
    match modes.find? (·.name == m) with
    | some md => md.run h out
    | none => loop h out
  | _ =>
    out.putStrLn (dispatch l)
    loop h out

end Drv

def main : IO Unit := do
  let stdin ← IO.getStdin
  let stdout ← IO.getStdout
  Drv.loop stdin stdout
  stdout.flush
