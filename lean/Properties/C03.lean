/-
C03 — Every blob codec decodes its own encoding to the original value.

`Impl.V2.*` / `Impl.V1.*` mirror the C++ codecs statement by statement
(payload level; the zlib framing is property C02/C05).  For every codec:

* `…_roundtrip` : `encodable v → ∃ b, encode v = ok b ∧ decode b = ok v`
                  (doubles are bit patterns, so −0, ∞, NaN payloads and
                  subnormals are covered; no bound on any size);
* `…_reject`    : a representable value that is not encodable makes the encoder
                  throw — never `ok` with other bytes, never `ub`;
* `…_total`     : codecs whose every representable value is encodable.

`Representable` side conditions (`… < maxCount = 2^63` elements, three bytes per
waveform point) hold of every value of the C++ type (`std::vector::max_size`,
struct layout); they appear because the Model's lists are unbounded.
-/
import Proofs.ImplV2Lists
import Proofs.ImplV1Roundtrip
import Proofs.ZlibCompressLoop
import Proofs.ZlibCompressChunks
import Proofs.PayloadNonempty
import Proofs.BlobLevel

namespace EngineModel.Properties.C03
open EngineModel EngineModel.Codec EngineModel.V2 EngineModel.Impl.V2

/-! ## schema 2.x -/

/-- 2.x track data: every value round-trips (any `extra_data`). -/
theorem C03_v2_track_roundtrip (v : Track) (extra : Bytes) :
    ∃ b, encodeTrack v extra = .ok b ∧ decodeTrack b = .ok (v, extra) := by
  refine ⟨_, encodeTrack_ok v extra, ?_⟩
  rw [decodeTrack_eq]
  exact liftDec_of_dec (track_sound v trivial extra)

/-- 2.x beat data.  `Beat.Valid` = both grids have fewer than 2^63 markers. -/
theorem C03_v2_beat_roundtrip (v : Beat) (extra : Bytes) (h : v.Valid) :
    ∃ b, encodeBeat v extra = .ok b ∧ decodeBeat b = .ok (v, extra) := by
  refine ⟨_, encodeBeat_ok v extra, ?_⟩
  rw [decodeBeat_eq]
  exact liftDec_of_dec (beat_sound v h extra)

example : (⟨0x40e5888000000000, 0x4150000000000000, 1,
    [⟨0, 0, 4, 0⟩, ⟨0x40d5888000000000, 4, 0, 0⟩], []⟩ : Beat).Valid := by
  unfold Beat.Valid maxCount; decide

/-- 2.x overview waveform.  `Ovw.Valid` = three bytes per point, a three-byte
maximum point, fewer than 2^63 points (true of every C++ value). -/
theorem C03_v2_ovw_roundtrip (v : Ovw) (extra : Bytes) (h : v.Valid)
    (hlen : 27 + v.points.length + extra.length < maxCount) :
    ∃ b, encodeOvw v extra = .ok b ∧ decodeOvw b = .ok (v, extra) := by
  refine ⟨_, encodeOvw_ok v h extra, ?_⟩
  rw [decodeOvw_eq _ (by rw [List.length_append, ovw_enc_length, h.2.2]; omega)]
  exact liftDec_of_dec (ovw_sound v h extra)

example : (⟨0x4090000000000000, [1, 2, 3, 4, 5, 6], [4, 5, 6]⟩ : Ovw).Valid ∧
    27 + (⟨0x4090000000000000, [1, 2, 3, 4, 5, 6], [4, 5, 6]⟩ : Ovw).points.length + ([] : Bytes).length < maxCount := by
  unfold Ovw.Valid maxCount; decide

/-- The encodable domain of 2.x quick cues: every label at most 255 bytes. -/
def encodableCues (v : Cues) : Prop := ∀ q ∈ v.cues, q.label.length ≤ 255
instance (v : Cues) : Decidable (encodableCues v) := by unfold encodableCues; infer_instance

/-- 2.x quick cues (any number of cues, labels of 0..255 arbitrary bytes). -/
theorem C03_v2_cues_roundtrip (v : Cues) (extra : Bytes)
    (hrep : v.cues.length < maxCount) (h : encodableCues v) :
    ∃ b, encodeCues v extra = .ok b ∧ decodeCues b = .ok (v, extra) := by
  refine ⟨_, encodeCues_ok v h extra, ?_⟩
  rw [decodeCues_eq]
  exact liftDec_of_dec (cues_sound v ⟨hrep, h⟩ extra)

/-- A label longer than 255 bytes is rejected with `invalid_argument`. -/
theorem C03_v2_cues_reject (v : Cues) (extra : Bytes) (h : ¬ encodableCues v) :
    encodeCues v extra = .throw .invalid_argument :=
  encodeCues_reject v h extra

example : encodableCues ⟨[⟨[65, 66], 0x40f0000000000000, ⟨255, 1, 2, 3⟩⟩, ⟨[], 0xbff0000000000000, ⟨0, 0, 0, 0⟩⟩],
    0, true, 0x8000000000000000⟩ := by decide
example : ¬ encodableCues ⟨[⟨List.replicate 256 65, 0, ⟨0, 0, 0, 0⟩⟩], 0, false, 0⟩ := by
  intro h; have := h _ (List.mem_cons_self); rw [List.length_replicate] at this; omega

/-- The encodable domain of 2.x loops. -/
def encodableLoops (v : Loops) : Prop := ∀ l ∈ v, l.label.length ≤ 255
instance (v : Loops) : Decidable (encodableLoops v) := by unfold encodableLoops; infer_instance

theorem C03_v2_loops_roundtrip (v : Loops) (extra : Bytes)
    (hrep : v.length < maxCount) (h : encodableLoops v) :
    ∃ b, encodeLoops v extra = .ok b ∧ decodeLoops b = .ok (v, extra) := by
  refine ⟨_, encodeLoops_ok v h extra, ?_⟩
  rw [decodeLoops_eq]
  exact liftDec_of_dec (loops_sound v ⟨hrep, h⟩ extra)

theorem C03_v2_loops_reject (v : Loops) (extra : Bytes) (h : ¬ encodableLoops v) :
    encodeLoops v extra = .throw .invalid_argument :=
  encodeLoops_reject v h extra

example : encodableLoops [⟨[76], 0x40f0000000000000, 0x4100000000000000, 1, 1, ⟨255, 9, 8, 7⟩⟩] := by decide
example : ¬ encodableLoops [⟨List.replicate 300 0, 0, 0, 0, 0, ⟨0, 0, 0, 0⟩⟩] := by
  intro h; have := h _ (List.mem_cons_self); rw [List.length_replicate] at this; omega

/-- The three remaining 2.x encoders never reject and never overrun their buffer. -/
theorem C03_v2_track_total (v : Track) (extra : Bytes) : ∃ b, encodeTrack v extra = .ok b :=
  ⟨_, encodeTrack_ok v extra⟩
theorem C03_v2_beat_total (v : Beat) (extra : Bytes) : ∃ b, encodeBeat v extra = .ok b :=
  ⟨_, encodeBeat_ok v extra⟩
theorem C03_v2_ovw_total (v : Ovw) (extra : Bytes) (h : v.Valid) : ∃ b, encodeOvw v extra = .ok b :=
  ⟨_, encodeOvw_ok v h extra⟩

/-! ## schema 1.x (performance_data_format.cpp)

The 1.x format itself defines three readings that are not the identity; the
theorems state the read-back value exactly (`…_readback`), and the plain round
trip on the domain where the reading is the identity:

* an optional numeric field holding exactly zero is written as the "absent"
  encoding (`normOptF`, `normOptI64`, `normOptI32`) — KNOWN FINDING
  `v1-optional-zero-reads-absent`: the full round trip is false
  (`…_roundtrip_counterexample`), the `_partial` theorems exclude zero;
* a present cue/loop with (start) offset exactly −1.0 reads back as an empty
  slot (`normCue`, `normLoop`) — the reserved encoding the property allows
  (`C03_absent_only_reserved`);
* the overview waveform has no opacity channel (`opaq`: read back as 255).
-/
section V1
open EngineModel.V1Proofs

/-! ### track data -/

/-- What decode(encode v) is, for every value. -/
theorem C03_v1_track_readback (v : Impl.V1.Track) :
    ∃ b, Impl.V1.encodeTrack v = .ok b ∧ Impl.V1.decodeTrack b = .ok (normTrack v) := by
  refine ⟨_, encodeTrack_ok v, ?_⟩
  rw [V1Proofs.decodeTrack_eq, spec_track_roundtrip]; rfl

/-- No optional field holds exactly zero (±0.0 for the doubles). -/
def optNonZeroF (o : Option UInt64) : Bool :=
  match o with
  | some x => !F64.isZero x
  | none => true

theorem optNonZeroF_spec {o : Option UInt64} (h : optNonZeroF o = true) :
    ∀ x, o = some x → F64.isZero x = false := by
  intro x hx; subst hx
  simpa [optNonZeroF] using h

def trackNoZero (v : Impl.V1.Track) : Prop :=
  optNonZeroF v.sampleRate = true ∧ v.sampleCount ≠ some 0 ∧ optNonZeroF v.loudness = true ∧ v.key ≠ some 0

instance (v : Impl.V1.Track) : Decidable (trackNoZero v) := by unfold trackNoZero; infer_instance

/- Full statement (FALSE of the code, known finding):
     ∀ v, ∃ b, Impl.V1.encodeTrack v = .ok b ∧ Impl.V1.decodeTrack b = .ok v -/
theorem C03_v1_track_roundtrip_partial (v : Impl.V1.Track) (h : trackNoZero v) :
    ∃ b, Impl.V1.encodeTrack v = .ok b ∧ Impl.V1.decodeTrack b = .ok v := by
  obtain ⟨b, h1, h2⟩ := C03_v1_track_readback v
  refine ⟨b, h1, ?_⟩
  rw [h2]
  obtain ⟨a1, a2, a3, a4⟩ := h
  cases v with
  | mk sr sc ld k =>
    simp only [normTrack, normOptF_id sr (optNonZeroF_spec a1), normOptI64_id sc a2,
      normOptF_id ld (optNonZeroF_spec a3), normOptI32_id k a4]

example : trackNoZero ⟨some 0x40e5888000000000, some 255, none, some 7⟩ := by decide

/-- The witness replayed on the real library: `enc v1.track 3ff0000000000000 255 none 0`. -/
theorem C03_v1_track_roundtrip_counterexample :
    ∃ v b, Impl.V1.encodeTrack v = .ok b ∧ Impl.V1.decodeTrack b ≠ .ok v :=
  ⟨⟨some 0x3ff0000000000000, some 255, none, some 0⟩, _, rfl, by decide⟩

theorem C03_v1_track_total (v : Impl.V1.Track) : ∃ b, Impl.V1.encodeTrack v = .ok b :=
  ⟨_, encodeTrack_ok v⟩

/-! ### beat data -/

/-- The encodable domain: each grid is empty or has 2..32768 markers, strictly increasing in
index (by less than 2^31) and in sample offset (`validate_beatgrid`). -/
def encodableBeat1 (v : Impl.V1.Beat) : Prop := V1.gridOk v.dflt = true ∧ V1.gridOk v.adj = true
instance (v : Impl.V1.Beat) : Decidable (encodableBeat1 v) := by unfold encodableBeat1; infer_instance

theorem C03_v1_beat_readback (v : Impl.V1.Beat) (h : encodableBeat1 v) :
    ∃ b, Impl.V1.encodeBeat v = .ok b ∧
      Impl.V1.decodeBeat b = .ok ⟨normOptF v.sampleRate, normOptF v.sampleCount, v.dflt, v.adj⟩ :=
  ⟨_, encodeBeat_ok v h.1 h.2, decodeBeat_of_spec _ _ (spec_beat_roundtrip v h.1 h.2)⟩

def beatNoZero (v : Impl.V1.Beat) : Prop :=
  optNonZeroF v.sampleRate = true ∧ optNonZeroF v.sampleCount = true

instance (v : Impl.V1.Beat) : Decidable (beatNoZero v) := by unfold beatNoZero; infer_instance

/- Full statement (FALSE of the code, same known finding):
     ∀ v, encodableBeat1 v → ∃ b, Impl.V1.encodeBeat v = .ok b ∧ Impl.V1.decodeBeat b = .ok v -/
theorem C03_v1_beat_roundtrip_partial (v : Impl.V1.Beat) (h : encodableBeat1 v) (hz : beatNoZero v) :
    ∃ b, Impl.V1.encodeBeat v = .ok b ∧ Impl.V1.decodeBeat b = .ok v := by
  obtain ⟨b, h1, h2⟩ := C03_v1_beat_readback v h
  refine ⟨b, h1, ?_⟩
  rw [h2]
  cases v with
  | mk sr sc d a => simp only [normOptF_id sr (optNonZeroF_spec hz.1), normOptF_id sc (optNonZeroF_spec hz.2)]

example : encodableBeat1 ⟨some 0x40e5888000000000, none,
    [⟨0, 0⟩, ⟨4, 0x40d5888000000000⟩, ⟨0x7fffffff, 0x40e5888000000000⟩], []⟩ ∧
    beatNoZero ⟨some 0x40e5888000000000, none,
    [⟨0, 0⟩, ⟨4, 0x40d5888000000000⟩, ⟨0x7fffffff, 0x40e5888000000000⟩], []⟩ := by decide

theorem C03_v1_beat_roundtrip_counterexample :
    ∃ v b, encodableBeat1 v ∧ Impl.V1.encodeBeat v = .ok b ∧ Impl.V1.decodeBeat b ≠ .ok v :=
  ⟨⟨some 0x8000000000000000, none, [], []⟩, _, by decide, rfl, by decide⟩

/-- A grid outside the domain (one marker, more than 32768, not strictly increasing) is rejected. -/
theorem C03_v1_beat_reject (v : Impl.V1.Beat) (h : ¬ encodableBeat1 v) :
    Impl.V1.encodeBeat v = .throw .invalid_argument := encodeBeat_reject v h

example : ¬ encodableBeat1 ⟨none, none, [⟨0, 0⟩], []⟩ := by decide
example : ¬ encodableBeat1 ⟨none, none, [⟨4, 0⟩, ⟨4, 0x40d5888000000000⟩], []⟩ := by decide

/-! ### quick cues -/

/-- Exactly 8 slots; every present cue has a label of 1..255 bytes. -/
def encodableCues1 (v : Impl.V1.Cues) : Prop := v.cues.length = 8 ∧ v.cues.all V1.cueSlotOk = true
instance (v : Impl.V1.Cues) : Decidable (encodableCues1 v) := by unfold encodableCues1; infer_instance

theorem C03_v1_cues_readback (v : Impl.V1.Cues) (h : encodableCues1 v) :
    ∃ b, Impl.V1.encodeCues v = .ok b ∧
      Impl.V1.decodeCues b = .ok ⟨v.cues.map normCue, v.adjMain, v.defMain⟩ := by
  refine ⟨_, encodeCues_ok v h.1 h.2, ?_⟩
  rw [V1Proofs.decodeCues_eq, spec_cues_roundtrip v h.1 h.2]; rfl

/-- No present cue carries the reserved offset −1.0. -/
def noReservedCue (v : Impl.V1.Cues) : Prop := ∀ q, some q ∈ v.cues → q.off ≠ F64.negOne
instance (v : Impl.V1.Cues) : Decidable (noReservedCue v) := by
  unfold noReservedCue
  exact decidable_of_iff (∀ s ∈ v.cues, ∀ q, s = some q → q.off ≠ F64.negOne)
    ⟨fun h q hq => h _ hq q rfl, fun h s hs q e => h q (e ▸ hs)⟩

theorem C03_v1_cues_roundtrip (v : Impl.V1.Cues) (h : encodableCues1 v) (hr : noReservedCue v) :
    ∃ b, Impl.V1.encodeCues v = .ok b ∧ Impl.V1.decodeCues b = .ok v := by
  obtain ⟨b, h1, h2⟩ := C03_v1_cues_readback v h
  refine ⟨b, h1, ?_⟩
  rw [h2]
  have : v.cues.map normCue = v.cues := by
    conv => rhs; rw [← List.map_id v.cues]
    apply List.map_congr_left
    intro s hs
    cases s with
    | none => rfl
    | some q => exact normCue_some q (hr q hs)
  cases v with
  | mk c a d => simp only at this; simp only [this]

/-- Never `ok` with other bytes, never undefined behaviour: more or fewer than 8 slots, an empty
label, a label over 255 bytes all end in an exception. -/
theorem C03_v1_cues_reject (v : Impl.V1.Cues) (h : ¬ encodableCues1 v) :
    ∃ e, Impl.V1.encodeCues v = .throw e := encodeCues_reject v h

example : encodableCues1 ⟨[some ⟨[67, 117, 101], 0x40f0000000000000, ⟨255, 1, 2, 3⟩⟩, none, none, none,
    none, none, none, some ⟨[0xff], 0xbff0000000000000, ⟨0, 0, 0, 0⟩⟩], 0, 0x8000000000000000⟩ := by decide
example : ¬ encodableCues1 ⟨[none, none, none], 0, 0⟩ := by decide
example : ¬ encodableCues1 ⟨[some ⟨[], 0, ⟨0, 0, 0, 0⟩⟩, none, none, none, none, none, none, none], 0, 0⟩ := by
  decide

/-! ### loops -/

def encodableLoops1 (v : Impl.V1.Loops) : Prop := v.all V1.loopSlotOk = true
instance (v : Impl.V1.Loops) : Decidable (encodableLoops1 v) := by unfold encodableLoops1; infer_instance

theorem C03_v1_loops_readback (v : Impl.V1.Loops) (hrep : v.length < maxCount) (h : encodableLoops1 v) :
    ∃ b, Impl.V1.encodeLoops v = .ok b ∧ Impl.V1.decodeLoops b = .ok (v.map normLoop) := by
  refine ⟨_, encodeLoops_ok v h, ?_⟩
  rw [V1Proofs.decodeLoops_eq, spec_loops_roundtrip v hrep h]; rfl

def noReservedLoop (v : Impl.V1.Loops) : Prop := ∀ l, some l ∈ v → l.start ≠ F64.negOne
instance (v : Impl.V1.Loops) : Decidable (noReservedLoop v) := by
  unfold noReservedLoop
  exact decidable_of_iff (∀ s ∈ v, ∀ l, s = some l → l.start ≠ F64.negOne)
    ⟨fun h l hl => h _ hl l rfl, fun h s hs l e => h l (e ▸ hs)⟩

theorem C03_v1_loops_roundtrip (v : Impl.V1.Loops) (hrep : v.length < maxCount) (h : encodableLoops1 v)
    (hr : noReservedLoop v) :
    ∃ b, Impl.V1.encodeLoops v = .ok b ∧ Impl.V1.decodeLoops b = .ok v := by
  obtain ⟨b, h1, h2⟩ := C03_v1_loops_readback v hrep h
  refine ⟨b, h1, ?_⟩
  rw [h2]
  have : v.map normLoop = v := by
    conv => rhs; rw [← List.map_id v]
    apply List.map_congr_left
    intro s hs
    cases s with
    | none => rfl
    | some l => exact normLoop_some l (hr l hs)
  rw [this]

theorem C03_v1_loops_reject (v : Impl.V1.Loops) (h : ¬ encodableLoops1 v) :
    ∃ e, Impl.V1.encodeLoops v = .throw e := by
  apply V1Proofs.encodeLoops_reject
  unfold encodableLoops1 at h
  cases hh : v.all V1.loopSlotOk
  · rfl
  · exact absurd hh h

example : encodableLoops1 [some ⟨[76], 0x40f0000000000000, 0x4100000000000000, ⟨255, 9, 8, 7⟩⟩, none] ∧
    noReservedLoop [some ⟨[76], 0x40f0000000000000, 0x4100000000000000, ⟨255, 9, 8, 7⟩⟩, none] := by decide
example : ¬ encodableLoops1 [some ⟨[], 0, 0, ⟨0, 0, 0, 0⟩⟩] := by decide

/-- The reserved empty-slot encodings are the only values that read back absent: a present cue
(loop) reads back absent iff its (start) offset is the bit pattern of −1.0, and an absent slot
stays absent. -/
theorem C03_absent_only_reserved :
    (∀ q : Impl.V1.HotCue, normCue (some q) = none ↔ q.off = F64.negOne) ∧
    (∀ l : Impl.V1.LoopV, normLoop (some l) = none ↔ l.start = F64.negOne) ∧
    (∀ q : Impl.V1.HotCue, q.off ≠ F64.negOne → normCue (some q) = some q) ∧
    (∀ l : Impl.V1.LoopV, l.start ≠ F64.negOne → normLoop (some l) = some l) ∧
    normCue none = none ∧ normLoop none = none :=
  ⟨normCue_none_iff, normLoop_none_iff, normCue_some, normLoop_some, rfl, rfl⟩

/-! ### waveforms -/

/-- Overview waveform: the three value channels come back; the format has no opacity channel and
the decoder supplies 255. -/
theorem C03_v1_ovw_readback (v : Impl.V1.Wave) (hrep : 27 + 3 * v.entries.length < maxCount) :
    ∃ b, Impl.V1.encodeOvw v = .ok b ∧ Impl.V1.decodeOvw b = .ok ⟨v.spe, v.entries.map opaq⟩ := by
  obtain ⟨b, hs, hi⟩ := encodeOvw_ok v
  refine ⟨b, hi, ?_⟩
  have hb : b.length = 27 + 3 * v.entries.length := Impl.V2.writeInto_length hi
  rw [V1Proofs.decodeOvw_eq b (by omega), spec_ovw_roundtrip v (by omega) b hs]; rfl

theorem C03_v1_ovw_roundtrip (v : Impl.V1.Wave) (hrep : 27 + 3 * v.entries.length < maxCount)
    (hop : ∀ e ∈ v.entries, e.lo = 255 ∧ e.mo = 255 ∧ e.ho = 255) :
    ∃ b, Impl.V1.encodeOvw v = .ok b ∧ Impl.V1.decodeOvw b = .ok v := by
  obtain ⟨b, h1, h2⟩ := C03_v1_ovw_readback v hrep
  refine ⟨b, h1, ?_⟩
  rw [h2]
  have : v.entries.map opaq = v.entries := by
    conv => rhs; rw [← List.map_id v.entries]
    apply List.map_congr_left
    intro e he
    obtain ⟨a, b, c⟩ := hop e he
    cases e with
    | mk lv mv hv lo mo ho => simp only at a b c; subst a b c; rfl
  rw [this]

theorem C03_v1_hires_roundtrip (v : Impl.V1.Wave) (hrep : 30 + 6 * v.entries.length < maxCount) :
    ∃ b, Impl.V1.encodeHires v = .ok b ∧ Impl.V1.decodeHires b = .ok v := by
  obtain ⟨b, hs, hi⟩ := encodeHires_ok v
  refine ⟨b, hi, ?_⟩
  have hb : b.length = 30 + 6 * v.entries.length := Impl.V2.writeInto_length hi
  rw [V1Proofs.decodeHires_eq b (by omega), spec_hires_roundtrip v (by omega) b hs]; rfl

example : 30 + 6 * (⟨0x4090000000000000, [⟨1, 2, 3, 255, 255, 255⟩, ⟨9, 8, 7, 255, 255, 255⟩]⟩ : Impl.V1.Wave).entries.length
    < maxCount := by decide

end V1

/-! ## the framing on the way out: `zlib_compress` drops nothing

`Impl/ZlibCompress.lean` mirrors the prefix and the two nested `do … while` loops of `zlib_compress`
over an abstract `deflate` oracle.  For every oracle honouring the explicit call contract
`DContract` (sizes, a finite output potential, "input is only left behind when the output buffer was
filled", "a `Z_FINISH` call that did not fill the buffer returns `Z_STREAM_END`"; a structure
parameter — not an axiom), every initial live stream state and every payload: the loops terminate
within an explicit fuel bound linear in the payload, the blob is the 4-byte length followed by ALL
output of ALL calls in order, every payload byte was consumed by some call, and the last call was a
`Z_FINISH` call that reported the end of the stream — i.e. what is written is a complete stream.
The tie replays the recorded `deflate()` calls of the real library through this Model on every run. -/
section Compress
open EngineModel.Impl.Zlib

theorem C03_compress_complete {σ : Type} (o : DOracle σ) (c : DContract o) (s0 : σ) (hs0 : c.live s0)
    (buf : Bytes) (hne : buf ≠ []) (fuel : Nat) (hf : cFuelBound c s0 buf.length ≤ fuel) :
    ∃ blob log, compress o s0 fuel buf = .ok (blob, log) ∧
      blob = lenPrefix buf.length ++ log.flatMap (·.out) ∧
      (log.map (·.consumed)).sum = buf.length ∧
      ∃ d, log.getLast? = some d ∧ d.flush = .finish ∧ d.ret = .streamEnd :=
  compress_complete o c s0 hs0 buf hne fuel hf

/-- The hypothesis `buf ≠ []` is exactly what the code needs: `auto* ptr = &uncompressed[0]` on an
empty vector is undefined (`operator[]` precondition; an abort in the `_GLIBCXX_ASSERTIONS` build of
the harness, replayed on every run as `ztrace -`) … -/
theorem C03_compress_empty_ub {σ : Type} (o : DOracle σ) (s0 : σ) (fuel : Nat) :
    compress o s0 fuel [] = .ub .oob_index := compress_empty o s0 fuel

/-- … and no codec reaches it: every payload one of the nine compressed codecs hands to
`zlib_compress` has at least 25 bytes. -/
theorem C03_compress_input_nonempty :
    (∀ v extra b, Impl.V2.encodeTrack v extra = .ok b → 44 ≤ b.length) ∧
    (∀ v extra b, Impl.V2.encodeBeat v extra = .ok b → 33 ≤ b.length) ∧
    (∀ v extra b, Impl.V2.encodeCues v extra = .ok b → 25 ≤ b.length) ∧
    (∀ v extra b, Impl.V2.encodeOvw v extra = .ok b → 27 ≤ b.length) ∧
    (∀ v b, Impl.V1.encodeTrack v = .ok b → b.length = 28) ∧
    (∀ v b, Impl.V1.encodeBeat v = .ok b → 33 ≤ b.length) ∧
    (∀ v b, Impl.V1.encodeCues v = .ok b → 129 ≤ b.length) ∧
    (∀ v b, Impl.V1.encodeOvw v = .ok b → 27 ≤ b.length) ∧
    (∀ v b, Impl.V1.encodeHires v = .ok b → 30 ≤ b.length) :=
  ⟨fun _ _ _ h => Impl.V2.encodeTrack_len h, fun _ _ _ h => Impl.V2.encodeBeat_len h,
   fun _ _ _ h => Impl.V2.encodeCues_len h, fun _ _ _ h => Impl.V2.encodeOvw_len h,
   fun _ _ h => Impl.V1.encodeTrack_len h, fun _ _ h => Impl.V1.encodeBeat_len h,
   fun _ _ h => Impl.V1.encodeCues_len h, fun _ _ h => Impl.V1.encodeOvw_len h,
   fun _ _ h => Impl.V1.encodeHires_len h⟩

/-- The contract is satisfiable and the fuel bound explicit (pass-through oracle: `4·n + 2`). -/
example : cFuelBound storeContract () 100000 = 400002 := by decide
example : ([0x2a] : Bytes) ≠ [] := by decide

/-- Repeating the inner loop "until the input chunk is consumed" instead of "while the output
buffer was filled" is wrong for an oracle that honours the same contract: with more than one
buffer of output pending at `Z_FINISH`, all input is consumed, one buffer is collected, the loop
leaves, and the stream is left unfinished (output dropped). -/
theorem C03_compress_avail_in_condition_counterexample (fuel : Nat) :
    ∃ acc d1 d2, cloopBad bufOracle (List.replicate (chunk + 1) 0) (fuel + 4) ⟨[], false⟩ 0 .outer [] []
        = .ok (acc, [d1, d2]) ∧
      acc.length = chunk ∧ d1.consumed + d2.consumed = chunk + 1 ∧ d2.flush = .finish ∧ d2.ret = .ok :=
  compress_avail_in_condition_drops_output fuel

/-! ### which call gets `Z_FINISH`: the input-chunking decision, for every payload length

`chunkPlan n` (Proofs/ZlibCompressChunks.lean) is the C++ decision
`if (ptr + chunk_size < end) {chunk_size, Z_NO_FLUSH} else {end - ptr, Z_FINISH}` … `while (flush != Z_FINISH)`
as a function of the payload length alone.  The next theorems hold for EVERY oracle (they are about
control flow, no contract is needed), every fuel and every payload length — 1 and exact multiples of the
chunk size included (the empty payload never returns: `C03_compress_empty_ub`). -/

/-- If the Model of `zlib_compress` returns, its recorded calls follow `chunkPlan (payload length)`
window by window (`Sched`: per window a non-empty run of calls with that window's flush mode, the first
seeing the whole window, every call but the last of a run having filled the output buffer). -/
theorem C03_compress_chunk_schedule {σ : Type} (o : DOracle σ) (s0 : σ) (fuel : Nat) (buf : Bytes)
    (blob : Bytes) (log : List DCall) (h : compress o s0 fuel buf = .ok (blob, log)) :
    Sched (chunkPlan buf.length) log :=
  compress_sched o s0 fuel buf blob log h

/-- The plan in closed form and at the boundaries: `(n−1)/chunk` full `Z_NO_FLUSH` windows then ONE
`Z_FINISH` window; an exact multiple `k·chunk` (k ≥ 1) ends with a FULL `Z_FINISH` window, `k·chunk+1`
with a 1-byte one, `k·chunk−1` with one a byte short; the empty payload is one empty `Z_FINISH` window. -/
theorem C03_compress_chunk_plan (n k : Nat) (hk : 0 < k) :
    chunkPlan n = List.replicate ((n - 1) / chunk) (Flush.noFlush, chunk) ++ [(Flush.finish, finalChunkLen n)] ∧
    ((chunkPlan n).map (·.2)).sum = n ∧
    chunkPlan 0 = [(Flush.finish, 0)] ∧
    chunkPlan (k * chunk - 1) = List.replicate (k - 1) (Flush.noFlush, chunk) ++ [(Flush.finish, chunk - 1)] ∧
    chunkPlan (k * chunk) = List.replicate (k - 1) (Flush.noFlush, chunk) ++ [(Flush.finish, chunk)] ∧
    chunkPlan (k * chunk + 1) = List.replicate k (Flush.noFlush, chunk) ++ [(Flush.finish, 1)] :=
  ⟨chunkPlan_eq n, chunkPlan_sum n, chunkPlan_last (by decide), chunkPlan_mul_pred k hk, chunkPlan_mul k hk,
   chunkPlan_mul_succ k hk⟩

example : chunkPlan 49152 = [(.noFlush, 16384), (.noFlush, 16384), (.finish, 16384)] :=
  chunkPlan_mul 3 (by decide)

/-- **The last window, and only the last window, carries `Z_FINISH`, for every payload length**: the
log is `pre ++ fin`, every call of `pre` is `Z_NO_FLUSH`, `fin` is the non-empty run of `Z_FINISH`
calls, and its first call is handed exactly `finalChunkLen n` bytes. -/
theorem C03_compress_finish_only_last {σ : Type} (o : DOracle σ) (s0 : σ) (fuel : Nat) (buf : Bytes)
    (blob : Bytes) (log : List DCall) (h : compress o s0 fuel buf = .ok (blob, log)) :
    ∃ pre fin, log = pre ++ fin ∧
      (∀ d ∈ pre, d.flush = .noFlush) ∧ (∀ d ∈ fin, d.flush = .finish) ∧ fin ≠ [] ∧
      Sched (List.replicate (fullChunks buf.length) (.noFlush, chunk)) pre ∧
      Run .finish (finalChunkLen buf.length) fin ∧
      ∃ d, fin.head? = some d ∧ d.availIn = finalChunkLen buf.length :=
  compress_finish_only_last o s0 fuel buf blob log h

/-- non-vacuity: the hypothesis is met for every payload by a contract-honouring oracle -/
example (buf : Bytes) (hne : buf ≠ []) :
    ∃ blob log, compress storeOracle () (4 * buf.length + 2) buf = .ok (blob, log) :=
  compress_ok storeOracle storeContract () trivial buf hne _ (by simp only [cFuelBound, storeContract]; omega)

/-- "A chunk is final iff it is shorter than the chunk size; loop while `remaining > 0`" (seeded change
C02-1) is the wrong decision: on a payload of exactly one chunk, for an oracle honouring the whole
contract, those loops return without a single `Z_FINISH` call and no call reports `Z_STREAM_END`. -/
theorem C03_compress_remaining_counter_counterexample (fuel : Nat) :
    ∃ acc log, cloopRem storeOracle (List.replicate chunk 0) (fuel + 3) () 0 .outer [] []
        = .ok (acc, log) ∧
      (∀ d ∈ log, d.flush = .noFlush) ∧ (log.map (·.consumed)).sum = chunk ∧
      ∀ d ∈ log, d.ret ≠ .streamEnd :=
  compress_remaining_counter_counterexample fuel

/-- **`zlib_uncompress (zlib_compress p) = p`** for the models of the two loop pairs: for every deflate
oracle honouring `DContract` and every payload of 1 byte … 2 GiB, the compress loops return a blob, and if
the independent Lean inflate inverts the bytes that oracle produced for `p` (the joint contract between the
two directions of zlib; for libz it is sampled on every run — every blob the library writes is inflated by
the Lean inflate in the C02 tie), the Model of `zlib_uncompress` returns `p` from that blob.  By
`C05_uncompress_replay_eq_unz` the same holds for the loop model driven by the Lean inflate. -/
theorem C03_uncompress_compress {σ : Type} (o : DOracle σ) (c : DContract o) (s0 : σ) (hs0 : c.live s0)
    (p : Bytes) (hne : p ≠ []) (hlt : p.length < 2147483648) (fuel : Nat)
    (hf : cFuelBound c s0 p.length ≤ fuel) :
    ∃ blob log, compress o s0 fuel p = .ok (blob, log) ∧
      ((∃ rest, EngineModel.Zlib.inflate (log.flatMap (·.out)) = some (p, rest)) → unz blob = .ok p) :=
  uncompress_compress o c s0 hs0 p hne hlt fuel hf

example : ([7] : Bytes) ≠ [] ∧ ([7] : Bytes).length < 2147483648 := by decide

end Compress

end EngineModel.Properties.C03
