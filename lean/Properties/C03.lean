/-
C03 — Every blob codec decodes its own encoding to the original value.

`Impl.V2.*` / `Impl.V1.*` mirror the C++ codecs statement by statement
(payload level; the zlib framing is property C02/C05).  For every codec:

* `…_roundtrip` : `encodable v → ∃ b, encode v = ok b ∧ decode b = ok v`
                  (doubles are bit patterns, so −0, ∞, NaN payloads and
                  subnormals are covered; no bound on any size);
* `…_reject`    : a representable value that is not encodable makes the encoder
                  throw — never `ok` with other bytes, never `ub`;
* `…_total`     : codecs whose every representable value is encodable.

`Representable` side conditions (`… < maxCount = 2^63` elements, three bytes per
waveform point) hold of every value of the C++ type (`std::vector::max_size`,
struct layout); they appear because the Model's lists are unbounded.
-/
import Proofs.ImplV2Lists

namespace EngineModel.Properties.C03
open EngineModel EngineModel.Codec EngineModel.V2 EngineModel.Impl.V2

/-! ## schema 2.x -/

/-- 2.x track data: every value round-trips (any `extra_data`). -/
theorem C03_v2_track_roundtrip (v : Track) (extra : Bytes) :
    ∃ b, encodeTrack v extra = .ok b ∧ decodeTrack b = .ok (v, extra) := by
  refine ⟨_, encodeTrack_ok v extra, ?_⟩
  rw [decodeTrack_eq]
  exact liftDec_of_dec (track_sound v trivial extra)

/-- 2.x beat data.  `Beat.Valid` = both grids have fewer than 2^63 markers. -/
theorem C03_v2_beat_roundtrip (v : Beat) (extra : Bytes) (h : v.Valid) :
    ∃ b, encodeBeat v extra = .ok b ∧ decodeBeat b = .ok (v, extra) := by
  refine ⟨_, encodeBeat_ok v extra, ?_⟩
  rw [decodeBeat_eq]
  exact liftDec_of_dec (beat_sound v h extra)

example : (⟨0x40e5888000000000, 0x4150000000000000, 1,
    [⟨0, 0, 4, 0⟩, ⟨0x40d5888000000000, 4, 0, 0⟩], []⟩ : Beat).Valid := by
  unfold Beat.Valid maxCount; decide

/-- 2.x overview waveform.  `Ovw.Valid` = three bytes per point, a three-byte
maximum point, fewer than 2^63 points (true of every C++ value). -/
theorem C03_v2_ovw_roundtrip (v : Ovw) (extra : Bytes) (h : v.Valid) :
    ∃ b, encodeOvw v extra = .ok b ∧ decodeOvw b = .ok (v, extra) := by
  refine ⟨_, encodeOvw_ok v h extra, ?_⟩
  rw [decodeOvw_eq]
  exact liftDec_of_dec (ovw_sound v h extra)

example : (⟨0x4090000000000000, [1, 2, 3, 4, 5, 6], [4, 5, 6]⟩ : Ovw).Valid := by
  unfold Ovw.Valid maxCount; decide

/-- The encodable domain of 2.x quick cues: every label at most 255 bytes. -/
def encodableCues (v : Cues) : Prop := ∀ q ∈ v.cues, q.label.length ≤ 255
instance (v : Cues) : Decidable (encodableCues v) := by unfold encodableCues; infer_instance

/-- 2.x quick cues (any number of cues, labels of 0..255 arbitrary bytes). -/
theorem C03_v2_cues_roundtrip (v : Cues) (extra : Bytes)
    (hrep : v.cues.length < maxCount) (h : encodableCues v) :
    ∃ b, encodeCues v extra = .ok b ∧ decodeCues b = .ok (v, extra) := by
  refine ⟨_, encodeCues_ok v h extra, ?_⟩
  rw [decodeCues_eq]
  exact liftDec_of_dec (cues_sound v ⟨hrep, h⟩ extra)

/-- A label longer than 255 bytes is rejected with `invalid_argument`. -/
theorem C03_v2_cues_reject (v : Cues) (extra : Bytes) (h : ¬ encodableCues v) :
    encodeCues v extra = .throw .invalid_argument :=
  encodeCues_reject v h extra

example : encodableCues ⟨[⟨[65, 66], 0x40f0000000000000, ⟨255, 1, 2, 3⟩⟩, ⟨[], 0xbff0000000000000, ⟨0, 0, 0, 0⟩⟩],
    0, true, 0x8000000000000000⟩ := by decide
example : ¬ encodableCues ⟨[⟨List.replicate 256 65, 0, ⟨0, 0, 0, 0⟩⟩], 0, false, 0⟩ := by
  intro h; have := h _ (List.mem_cons_self); rw [List.length_replicate] at this; omega

/-- The encodable domain of 2.x loops. -/
def encodableLoops (v : Loops) : Prop := ∀ l ∈ v, l.label.length ≤ 255
instance (v : Loops) : Decidable (encodableLoops v) := by unfold encodableLoops; infer_instance

theorem C03_v2_loops_roundtrip (v : Loops) (extra : Bytes)
    (hrep : v.length < maxCount) (h : encodableLoops v) :
    ∃ b, encodeLoops v extra = .ok b ∧ decodeLoops b = .ok (v, extra) := by
  refine ⟨_, encodeLoops_ok v h extra, ?_⟩
  rw [decodeLoops_eq]
  exact liftDec_of_dec (loops_sound v ⟨hrep, h⟩ extra)

theorem C03_v2_loops_reject (v : Loops) (extra : Bytes) (h : ¬ encodableLoops v) :
    encodeLoops v extra = .throw .invalid_argument :=
  encodeLoops_reject v h extra

example : encodableLoops [⟨[76], 0x40f0000000000000, 0x4100000000000000, 1, 1, ⟨255, 9, 8, 7⟩⟩] := by decide
example : ¬ encodableLoops [⟨List.replicate 300 0, 0, 0, 0, 0, ⟨0, 0, 0, 0⟩⟩] := by
  intro h; have := h _ (List.mem_cons_self); rw [List.length_replicate] at this; omega

/-- The three remaining 2.x encoders never reject and never overrun their buffer. -/
theorem C03_v2_track_total (v : Track) (extra : Bytes) : ∃ b, encodeTrack v extra = .ok b :=
  ⟨_, encodeTrack_ok v extra⟩
theorem C03_v2_beat_total (v : Beat) (extra : Bytes) : ∃ b, encodeBeat v extra = .ok b :=
  ⟨_, encodeBeat_ok v extra⟩
theorem C03_v2_ovw_total (v : Ovw) (extra : Bytes) (h : v.Valid) : ∃ b, encodeOvw v extra = .ok b :=
  ⟨_, encodeOvw_ok v h extra⟩

end EngineModel.Properties.C03
