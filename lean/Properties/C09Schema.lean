/-
The 2.x crate model (C07V2, C08V2, C09, C11V2) is schema-free — justified by data regenerated on every run.

`Gen.V2CrateDdl.catalog` (tools/tr_v2ddl.py): for each of the seven supported 2.x schema versions, the catalog
entries of a library created by the working tree's own schema creator that belong to or mention Playlist /
PlaylistEntity, read through the SQLite C API, with the `unique` flag of PRAGMA index_list and the DDL text
canonicalised by the compiled Spec/SqlCanon.canon (whitespace, comments, identifier quoting forgotten — nothing
else) and packed into a number.
-/
import EngineModel.Gen.V2CrateDdl
import EngineModel.Spec.V2Ddl

namespace EngineModel.Properties.C09
open EngineModel EngineModel.Spec.V2Ddl

/-- In all seven supported 2.x schema versions the Playlist and PlaylistEntity tables, every trigger and view
that belongs to or mentions them, and every index that can reject a row of theirs, have the same (canonical) DDL.
Hence one model (statements and triggers as list operations) serves all seven versions: every theorem of
C07V2 / C08V2 / C09 / C11V2 is a statement about each of them. -/
theorem C09_crate_ddl_same_in_all_2x_schemas :
    Gen.V2CrateDdl.catalog.map (·.1) = ["schema_2_18_0", "schema_2_20_1", "schema_2_20_2", "schema_2_20_3",
      "schema_2_21_0", "schema_2_21_1", "schema_2_21_2"] ∧
    allSame Gen.V2CrateDdl.catalog = true := by
  decide +kernel

/-- The comparison is not vacuous: the relevant part of each dump has 15 entries — the two tables, their three
automatic unique indexes, the insert / delete triggers of the sibling chain, the delete trigger of the entries,
the three isPersisted triggers and the three recursive views. -/
theorem C09_crate_ddl_nonempty :
    Gen.V2CrateDdl.catalog.map (fun p => (core p.2).map (·.2.1)) = List.replicate 7
      ["sqlite_autoindex_PlaylistEntity_1", "sqlite_autoindex_Playlist_1", "sqlite_autoindex_Playlist_2", "Playlist",
       "PlaylistEntity", "trigger_after_delete_List", "trigger_after_insert_List", "trigger_after_insert_isPersist",
       "trigger_after_update_isPersistChild", "trigger_after_update_isPersistParent",
       "trigger_before_delete_PlaylistEntity", "trigger_before_insert_List", "PlaylistAllChildren",
       "PlaylistAllParent", "PlaylistPath"] := by
  decide +kernel

/-- … and it does discriminate: a trigger with a different text is not "the same"; a plain index is ignored, a
unique one is not. -/
example : allSame [("a", [("trigger", "t", "PlaylistEntity", false, 0x0141)]), ("b", [("trigger", "t", "PlaylistEntity", false, 0x0142)])] = false := by
  decide +kernel
example : allSame [("a", []), ("b", [("index", "i", "PlaylistEntity", false, 0x0141)])] = true := by decide +kernel
example : allSame [("a", []), ("b", [("index", "i", "PlaylistEntity", true, 0x0141)])] = false := by decide +kernel

end EngineModel.Properties.C09
