/-
C10 — Everything observed before closing is observed after reopening; loading
reports the created schema; create-or-load creates exactly when none exists.

The theorem side is thin by design (DESIGN.md C10: the tie — close and reload
at every prefix of generated histories on real on-disk libraries — carries the
weight; durability of committed data is SQLite's).  What the kernel checks:
 (i)  handles are stateless in the Model: an observation is a function of the
      database the connection sees and of the handle's id only; closing a
      connection drops at most an *open transaction*, and after any history of
      public calls — failed ones included — none is open, so what the closed
      connection saw is what a new connection sees;
 (ii) reload: the version triple each creator stamps is detected as that very
      schema (`C13_reload`, re-exported), and `load_database` on the directory
      a creator wrote reports the created schema, for all supported schemas;
 (iii) the decision logic of `create_or_load_database` creates iff nothing
      exists, otherwise loads what is there and reports its schema.
`Gen.Detect.detectGen` / `stampGen` are regenerated from schema.cpp and the
schema_*.hpp creators on every run.
-/
import EngineModel.Spec.Txn
import EngineModel.Spec.Observe
import Proofs.Txn
import Properties.C13

namespace EngineModel.Properties.C10
open EngineModel.Spec.Txn EngineModel.Spec.Observe EngineModel.Proofs.Txn
open EngineModel.Pure.Detect EngineModel.Gen.Detect

variable {α β : Type}

/-! ### (i) stateless handles, nothing pending at close -/

/-- An observation depends on the visible database and the id only: two
handles with the same id on connections that see the same database agree. -/
theorem C10_observe_state (q : α → Int → β) (c₁ c₂ : Conn α) (h₁ h₂ : Handle)
    (hv : c₁.view = c₂.view) (hid : h₁.id = h₂.id) : observe q c₁ h₁ = observe q c₂ h₂ := by
  simp [observe, hv, hid]

/-- Closing and reopening a connection at rest changes nothing it could see. -/
theorem C10_reopen_idle (c : Conn α) (h : c.working = none) : c.reopen = c ∧ c.reopen.view = c.view := by
  rcases c with ⟨cm, wk⟩
  simp only at h
  subst h
  exact ⟨rfl, rfl⟩

/-- One public call from rest ends at rest: if it raised, every scope unwound;
if it completed, its scopes were closed. -/
theorem call_settles (k : Call α) (hs : k.settles) (c : Conn α) (hc : c.working = none) :
    (exec k.fault k.auto k.cmds 0 0 c).conn.working = none := by
  cases hr : (exec k.fault k.auto k.cmds 0 0 c).raised
  · have hcl : closedRun false (k.cmds.map Cmd.kind) = some false := by
      simpa [Call.settles, closedShape] using hs
    exact closed_aux k.fault k.auto k.cmds false false 0 0 c (fun _ => hc) hcl hr rfl
  · exact raise_autocommit k.fault k.auto k.cmds 0 0 c (Or.inl ⟨rfl, hc⟩) hr

/-- After any history of public calls — each with any fault plan — in which
every call has closed scopes, the connection is at rest … -/
theorem C10_history_settles (ks : List (Call α)) (hs : ∀ k ∈ ks, k.settles) (db : α) :
    (runCalls (Conn.idle db) ks).working = none := by
  suffices h : ∀ c : Conn α, c.working = none → (runCalls c ks).working = none from h _ rfl
  induction ks with
  | nil => intro c hc; exact hc
  | cons k ks ih =>
    intro c hc
    simp only [runCalls]
    exact ih (fun k' hk' => hs k' (List.mem_cons_of_mem _ hk')) _
      (call_settles k (hs k List.mem_cons_self) c hc)

/-- … hence every observation through any handle is the same before closing
and after reopening. -/
theorem C10_reopen_observes (ks : List (Call α)) (hs : ∀ k ∈ ks, k.settles) (db : α)
    (q : α → Int → β) (h : Handle) :
    observe q (runCalls (Conn.idle db) ks).reopen h = observe q (runCalls (Conn.idle db) ks) h := by
  have := C10_reopen_idle _ (C10_history_settles ks hs db)
  rw [this.1]

/-- The hypothesis matters: a call that leaves a transaction open shows its
write to the old connection and loses it at close. -/
theorem C10_open_transaction_is_lost :
    let c := runCalls (Conn.idle (0 : Nat)) [⟨[.begin, .write (fun n => some (n + 1))], none, false⟩]
    observe (fun db _ => db) c ⟨1⟩ = 1 ∧ observe (fun db _ => db) c.reopen ⟨1⟩ = 0 := by
  decide

/-! ### (ii) reload -/

/-- Re-export of `C13_reload`: what a creator stamps is detected as that schema. -/
theorem C10_reload (s : Schema) (m : Bool) (hm : s.marker = none ∨ s.marker = some m) :
    detectGen (stampGen s).1 (stampGen s).2.1 (stampGen s).2.2 m = .schema s :=
  C13.C13_reload s m hm

/-- `load_database` on the directory the creator of `s` wrote (layout of its
generation, its stamp, its variant marker) reports `s` — every schema the
library can create, the 18 supported ones and 3.0.0. -/
theorem C10_load_reports_created (s : Schema) : loadCreated s = .loaded s := by
  cases s <;> decide

/-! ### (iii) create_or_load -/

/-- `create_or_load_database` creates exactly when no library exists in the
directory; then the requested schema is what is open.  When one exists it is
loaded, not re-created, and its own schema is reported — whatever was requested. -/
theorem C10_create_or_load (existing : Option Schema) (req : Schema) :
    ((createOrLoadDir existing req).1 = true ↔ existing = none) ∧
    (existing = none → (createOrLoadDir existing req).2 = .loaded req) ∧
    (∀ s, existing = some s → (createOrLoadDir existing req) = (false, .loaded s)) := by
  cases existing with
  | none => simp [createOrLoadDir, createOrLoad, loadModel]
  | some s =>
    have := C10_load_reports_created s
    simp [createOrLoadDir, createOrLoad, this]

/-- The general decision logic (any load outcome): re-export of `C13_create_or_load`. -/
theorem C10_create_or_load_logic (o : LoadOutcome) (req : Schema) :
    ((createOrLoad o req).1 = true ↔ o = .database_not_found) ∧
    (o ≠ .database_not_found → (createOrLoad o req).2 = o) :=
  C13.C13_create_or_load o req

/-! ### non-vacuity -/
example : loadCreated .schema_1_18_0_desktop = .loaded .schema_1_18_0_desktop ∧
    loadCreated .schema_1_18_0_os = .loaded .schema_1_18_0_os ∧
    loadCreated .schema_2_21_2 = .loaded .schema_2_21_2 := by decide
example : createOrLoadDir none .schema_2_18_0 = (true, .loaded .schema_2_18_0) := by decide
example : createOrLoadDir (some .schema_1_6_0) .schema_2_21_2 = (false, .loaded .schema_1_6_0) := by decide
/-- a settled history with a failed call in the middle -/
example : (⟨[.begin, .write (fun n => some (n + 1)), .commit], some 1, false⟩ : Call Nat).settles := by
  simp [Call.settles, closedShape, closedRun, closedStep, Cmd.kind]
example : (runCalls (Conn.idle (0 : Nat))
    [⟨[.write (fun n => some (n + 1))], none, false⟩,
     ⟨[.begin, .write (fun n => some (n + 10)), .commit], some 1, false⟩,
     ⟨[.begin, .write (fun n => some (n + 100)), .commit], none, true⟩]) = Conn.idle 101 := by rfl

end EngineModel.Properties.C10
