/-
C10 — Everything observed before closing is observed after reopening; loading
reports the created schema; create-or-load creates exactly when none exists.

The theorem side is thin by design (DESIGN.md C10: the tie — close and reload
at every prefix of generated histories on real on-disk libraries — carries the
weight; durability of committed data is SQLite's).  What the kernel checks:
 (i)  handles are stateless in the Model: an observation is a function of the
      database the connection sees and of the handle's id only; closing a
      connection drops at most an *open transaction*, and after any history of
      public calls — failed ones included — none is open, so what the closed
      connection saw is what a new connection sees;
 (ii) reload: the version triple each creator stamps is detected as that very
      schema (`C13_reload`, re-exported), and `load_database` on the directory
      a creator wrote reports the created schema, for all supported schemas;
 (iii) the decision logic of `create_or_load_database` creates iff nothing
      exists, otherwise loads what is there and reports its schema.
`Gen.Detect.detectGen` / `stampGen` are regenerated from schema.cpp and the
schema_*.hpp creators on every run.
-/
import EngineModel.Spec.Txn
import EngineModel.Spec.Observe
import Proofs.Txn
import Properties.C13
import EngineModel.Api.CratesV1
import EngineModel.Db.V2Crates
import EngineModel.TracksV2.Lens
import EngineModel.Spec.Dir
import EngineModel.TracksV1.Stmts
import Proofs.Dir

namespace EngineModel.Properties.C10
open EngineModel.Spec.Txn EngineModel.Spec.Observe EngineModel.Proofs.Txn
open EngineModel.Pure.Detect EngineModel.Gen.Detect

variable {α β : Type}

/-! ### (i) stateless handles, nothing pending at close -/

/-- An observation depends on the visible database and the id only: two
handles with the same id on connections that see the same database agree. -/
theorem C10_observe_state (q : α → Int → β) (c₁ c₂ : Conn α) (h₁ h₂ : Handle)
    (hv : c₁.view = c₂.view) (hid : h₁.id = h₂.id) : observe q c₁ h₁ = observe q c₂ h₂ := by
  simp [observe, hv, hid]

/-- Closing and reopening a connection at rest changes nothing it could see. -/
theorem C10_reopen_idle (c : Conn α) (h : c.working = none) : c.reopen = c ∧ c.reopen.view = c.view := by
  rcases c with ⟨cm, wk⟩
  simp only at h
  subst h
  exact ⟨rfl, rfl⟩

/-- One public call from rest ends at rest: if it raised, every scope unwound;
if it completed, its scopes were closed. -/
theorem call_settles (k : Call α) (hs : k.settles) (c : Conn α) (hc : c.working = none) :
    (exec k.fault k.auto k.cmds 0 0 c).conn.working = none := by
  cases hr : (exec k.fault k.auto k.cmds 0 0 c).raised
  · have hcl : closedRun false (k.cmds.map Cmd.kind) = some false := by
      simpa [Call.settles, closedShape] using hs
    exact closed_aux k.fault k.auto k.cmds false false 0 0 c (fun _ => hc) hcl hr rfl
  · exact raise_autocommit k.fault k.auto k.cmds 0 0 c (Or.inl ⟨rfl, hc⟩) hr

/-- After any history of public calls — each with any fault plan — in which
every call has closed scopes, the connection is at rest … -/
theorem C10_history_settles (ks : List (Call α)) (hs : ∀ k ∈ ks, k.settles) (db : α) :
    (runCalls (Conn.idle db) ks).working = none := by
  suffices h : ∀ c : Conn α, c.working = none → (runCalls c ks).working = none from h _ rfl
  induction ks with
  | nil => intro c hc; exact hc
  | cons k ks ih =>
    intro c hc
    simp only [runCalls]
    exact ih (fun k' hk' => hs k' (List.mem_cons_of_mem _ hk')) _
      (call_settles k (hs k List.mem_cons_self) c hc)

/-- … hence every observation through any handle is the same before closing
and after reopening. -/
theorem C10_reopen_observes (ks : List (Call α)) (hs : ∀ k ∈ ks, k.settles) (db : α)
    (q : α → Int → β) (h : Handle) :
    observe q (runCalls (Conn.idle db) ks).reopen h = observe q (runCalls (Conn.idle db) ks) h := by
  have := C10_reopen_idle _ (C10_history_settles ks hs db)
  rw [this.1]

/-- The hypothesis matters: a call that leaves a transaction open shows its
write to the old connection and loses it at close. -/
theorem C10_open_transaction_is_lost :
    let c := runCalls (Conn.idle (0 : Nat)) [⟨[.begin, .write (fun n => some (n + 1))], none, false⟩]
    observe (fun db _ => db) c ⟨1⟩ = 1 ∧ observe (fun db _ => db) c.reopen ⟨1⟩ = 0 := by
  decide

/-- What is observed is what is durable: after a settled history the database
the connection sees is the committed one. -/
theorem C10_durable_is_visible (ks : List (Call α)) (hs : ∀ k ∈ ks, k.settles) (db : α) :
    (runCalls (Conn.idle db) ks).view = (runCalls (Conn.idle db) ks).committed := by
  simp [Conn.view, C10_history_settles ks hs db]

/-- Releasing every handle and loading the library again after *each* call of a
settled history reaches the very connection state of the history run in one
session: reopening is invisible to everything that follows (the tie compares
the two runs at every prefix). -/
theorem C10_reopen_invisible (ks : List (Call α)) (hs : ∀ k ∈ ks, k.settles) (db : α) :
    runCallsReopen (Conn.idle db) ks = runCalls (Conn.idle db) ks := by
  suffices h : ∀ c : Conn α, c.working = none → runCallsReopen c ks = runCalls c ks from h _ rfl
  induction ks with
  | nil => intro c _; rfl
  | cons k ks ih =>
    intro c hc
    simp only [runCallsReopen, runCalls]
    have hw := call_settles k (hs k List.mem_cons_self) c hc
    rw [(C10_reopen_idle _ hw).1]
    exact ih (fun k' hk' => hs k' (List.mem_cons_of_mem _ hk')) _ hw

/-- The quantifier of the property — closing at **every prefix** of the
history: for each `n`, the observation through any handle after the first `n`
calls is the same (a) before closing, (b) after closing and loading, and (c) in
the run that was closed and loaded after every single call. -/
theorem C10_every_prefix (ks : List (Call α)) (hs : ∀ k ∈ ks, k.settles) (db : α)
    (q : α → Int → β) (h : Handle) (n : Nat) :
    observe q (runCalls (Conn.idle db) (ks.take n)).reopen h = observe q (runCalls (Conn.idle db) (ks.take n)) h ∧
    observe q (runCallsReopen (Conn.idle db) (ks.take n)) h = observe q (runCalls (Conn.idle db) (ks.take n)) h := by
  have hs' : ∀ k ∈ ks.take n, k.settles := fun k hk => hs k (List.mem_of_mem_take hk)
  exact ⟨C10_reopen_observes _ hs' db q h, by rw [C10_reopen_invisible _ hs' db]⟩

/-- Link to C14: a call whose statement kinds the C14 monitor accepts
(`atomicShape`) settles.  So on a library where every public mutating call has
an atomic shape — what C14's tie establishes call by call — every history is
settled and `C10_reopen_observes` applies, faults included. -/
theorem C10_atomic_calls_settle (k : Call α) (h : atomicShape (k.cmds.map Cmd.kind) = true) : k.settles := by
  simp only [atomicShape] at h
  split at h
  · rename_i s hs
    have := shapeRun_closedRun _ _ _ hs
    simp only [ShapeSt.init] at this
    simp only [Bool.not_eq_eq_eq_not, Bool.not_true] at h
    simp [Call.settles, closedShape, this, h]
  · cases h

/-! ### (i′) the concrete API models behind the connection

`Api.CratesV1`, `Db.V2` (crates 2.x) and `TracksV2.Db` model every public call
as a function of the stored tables and ids; seen from the connection a call
makes the model's resulting state durable (`apiCall`).  Then every observation
the concrete models define — after the history, after closing and loading, or
after closing and loading at every prefix — is the observation of the model's
own run. -/

/-- A history of calls of a deterministic API model is settled and reaches the
model's own fold. -/
theorem C10_api_model {ω : Type} (step : α → ω → α) (ops : List ω) (db : α) :
    (∀ k ∈ ops.map (apiCall step), k.settles) ∧
    runCalls (Conn.idle db) (ops.map (apiCall step)) = Conn.idle (ops.foldl step db) := by
  refine ⟨?_, ?_⟩
  · intro k hk
    obtain ⟨op, _, rfl⟩ := List.mem_map.1 hk
    simp [Call.settles, apiCall, closedShape, closedRun, closedStep, Cmd.kind]
  · induction ops generalizing db with
    | nil => rfl
    | cons op ops ih =>
      simp only [List.map_cons, runCalls, List.foldl_cons]
      have : (exec (apiCall step op).fault (apiCall step op).auto (apiCall step op).cmds 0 0 (Conn.idle db)).conn
          = Conn.idle (step db op) := by
        simp [apiCall, exec, faultable, Cmd.kind, stepStmt, Conn.idle, Outcome.cons]
      rw [this]
      exact ih _

/-- … hence closing and loading — once, or after every call — shows the state of
the model's own run, at every prefix. -/
theorem C10_api_model_reopen {ω : Type} (step : α → ω → α) (ops : List ω) (db : α) (n : Nat) :
    (runCalls (Conn.idle db) ((ops.take n).map (apiCall step))).reopen.view = (ops.take n).foldl step db ∧
    (runCallsReopen (Conn.idle db) ((ops.take n).map (apiCall step))).view = (ops.take n).foldl step db := by
  obtain ⟨hs, hr⟩ := C10_api_model step (ops.take n) db
  refine ⟨?_, ?_⟩
  · rw [hr]; rfl
  · rw [C10_reopen_invisible _ hs db, hr]; rfl

open EngineModel.Api in
/-- Schema-1.x crates and memberships (`Api.CratesV1`, every version): the full
observation — every query of every crate / track handle held and every probe
name — after closing and loading at every prefix is the model's own. -/
theorem C10_crates_v1 (s : Schema) (ops : List CratesV1.Op) (db : CratesV1.Db)
    (handles thandles : List CratesV1.Id) (names : List CratesV1.Name) (n : Nat) :
    CratesV1.observe s (runCallsReopen (Conn.idle db)
        ((ops.take n).map (apiCall fun d op => (CratesV1.step s d op).1))).view handles thandles names
      = CratesV1.observe s (CratesV1.run s db (ops.take n)) handles thandles names := by
  rw [(C10_api_model_reopen _ ops db n).2]
  rfl

theorem v2_run_foldl (ops : List Db.V2.Op) (d : Db.V2.Db) :
    Db.V2.run d ops = ops.foldl (fun d op => (Db.V2.step d op).1) d := by
  induction ops generalizing d with
  | nil => rfl
  | cons op ops ih => simp [Db.V2.run, ih]

/-- Schema-2.x crates and memberships (`Db.V2`): the same, for every query of
the model (`crates`, `root_crates`, `children`, `descendants`, `parent`, `name`,
`tracks`, …) applied through any function `q` of the stored tables. -/
theorem C10_crates_v2 {β : Type} (ops : List Db.V2.Op) (db : Db.V2.Db) (q : Db.V2.Db → β) (n : Nat) :
    q (runCallsReopen (Conn.idle db) ((ops.take n).map (apiCall fun d op => (Db.V2.step d op).1))).view
      = q (Db.V2.run db (ops.take n)) := by
  rw [(C10_api_model_reopen _ ops db n).2, v2_run_foldl]

/-- Schema-2.x tracks (`TracksV2.Db`): after any history of setter calls, closed
and loaded after each, `snapshot()` of any track is the one of the model's run. -/
theorem C10_tracks_v2 (o : TracksV2.FOps) (calls : List (Nat × TracksV2.Setter)) (db : TracksV2.Db) (id n : Nat) :
    TracksV2.Db.snapshot o (runCallsReopen (Conn.idle db)
        ((calls.take n).map (apiCall fun d c => (TracksV2.Db.set o d c.1 c.2).1))).view id
      = TracksV2.Db.snapshot o ((calls.take n).foldl (fun d c => (TracksV2.Db.set o d c.1 c.2).1) db) id := by
  rw [(C10_api_model_reopen _ calls db n).2]

/-- One public mutating track call of the 1.x model as a state transformer (a call that throws changes nothing). -/
def tracksV1Step (o : EngineModel.TracksV1.Fl.FOps) (d : TracksV1.Db) (op : TracksV1.TOp) : TracksV1.Db :=
  match TracksV1.topStep o d op with
  | .ok d' => d'
  | _ => d

/-- Schema-1.x tracks (`TracksV1`): after any history of track calls (create, update, every setter, remove),
closed and loaded after each, every accessor of the model — `snapshot()`, any getter, `is_valid`, through any
function `q` of the tables — answers as in the model's own run, at every prefix. -/
theorem C10_tracks_v1 {β : Type} (o : EngineModel.TracksV1.Fl.FOps) (calls : List TracksV1.TOp) (db : TracksV1.Db) (q : TracksV1.Db → β) (n : Nat) :
    q (runCallsReopen (Conn.idle db) ((calls.take n).map (apiCall (tracksV1Step o)))).view
      = q ((calls.take n).foldl (tracksV1Step o) db) ∧
    q (runCalls (Conn.idle db) ((calls.take n).map (apiCall (tracksV1Step o)))).reopen.view
      = q ((calls.take n).foldl (tracksV1Step o) db) := by
  rw [(C10_api_model_reopen _ calls db n).2, (C10_api_model_reopen _ calls db n).1]
  exact ⟨rfl, rfl⟩

/-! ### (ii) reload -/

/-- Re-export of `C13_reload`: what a creator stamps is detected as that schema. -/
theorem C10_reload (s : Schema) (m : Bool) (hm : s.marker = none ∨ s.marker = some m) :
    detectGen (stampGen s).1 (stampGen s).2.1 (stampGen s).2.2 m = .schema s :=
  C13.C13_reload s m hm

/-- `load_database` on the directory the creator of `s` wrote (layout of its
generation, its stamp, its variant marker) reports `s` — every schema the
library can create, the 18 supported ones and 3.0.0. -/
theorem C10_load_reports_created (s : Schema) : loadCreated s = .loaded s := by
  cases s <;> decide

/-! ### (iii) create_or_load, load and database_exists over the directory model (`Spec/Dir.lean`)

The directory model keeps the state of `m.db`, `p.db`, `Database2/`, `Database2/m.db` (absent / valid / zero
bytes / not a database) and the stamps of valid files; its functions are written from file-system primitives
that create files (`openCreate`), so the statements below are about the guards of the code. -/
section dir
open EngineModel.Spec.Dir EngineModel.Proofs.Dir

/-- **create-or-load creates a library exactly when none exists**: the `created` flag is set iff neither
`m.db` nor `Database2/m.db` is there — for every directory state (all four presence combinations, any file
content, with or without `p.db` / `Database2/`) and every requested schema. -/
theorem C10_create_or_load_iff (d : Dir) (req : Schema) :
    (createOrLoadAt d req).created = true ↔ (legacyExists d = false ∧ db2Exists d = false) :=
  createOrLoadAt_created_iff d req

/-- When a library exists (in whatever state) nothing is created or written: the directory is as before and the
answer is `load_database`'s — the loaded schema, whatever was requested, or its exception. -/
theorem C10_create_or_load_existing (d : Dir) (req : Schema) (h : legacyExists d = true ∨ db2Exists d = true) :
    createOrLoadAt d req = ⟨d, false, (loadDatabase d).2⟩ := by
  have hc : (createOrLoadAt d req).created = false := by
    cases hcr : (createOrLoadAt d req).created
    · rfl
    · have := (C10_create_or_load_iff d req).1 hcr
      rcases h with h | h <;> simp_all
  have := createOrLoadAt_not_created d req hc
  cases hr : createOrLoadAt d req with
  | mk dir created res => simp_all

/-- Both layouts present (the reviewer's case): `load_database` reports "not found", and create-or-load does
**not** create — it rethrows, leaving both libraries as they are. -/
theorem C10_create_or_load_both_layouts (d : Dir) (req : Schema) (h1 : legacyExists d = true) (h2 : db2Exists d = true) :
    createOrLoadAt d req = ⟨d, false, .throw notFound⟩ := by
  rw [C10_create_or_load_existing d req (Or.inl h1), (load_notFound_iff d).2 (by rw [h1, h2])]

/-- No library there and creation possible (a 2.x request, or no stray `p.db` that already holds tables / is not a
database): the requested schema is created, loads back as such (`load_database` and `database_exists` on the
resulting directory), and a second create-or-load — whatever it requests — loads it instead of creating. -/
theorem C10_create_or_load_creates (d : Dir) (req req' : Schema) (hwf : d.wf = true)
    (hl : legacyExists d = false) (h2 : db2Exists d = false)
    (hp : createsDb2 req = true ∨ d.p = .absent ∨ d.p = .zero) :
    (createOrLoadAt d req).created = true ∧ (createOrLoadAt d req).res = .ok req ∧
    (loadDatabase (createOrLoadAt d req).dir).2 = .ok req ∧
    (databaseExists (createOrLoadAt d req).dir).2 = .ok true ∧
    createOrLoadAt (createOrLoadAt d req).dir req' = ⟨(createOrLoadAt d req).dir, false, .ok req⟩ := by
  have hnf : (loadDatabase d).2 = .throw notFound := (load_notFound_iff d).2 (by rw [hl, h2])
  have hcr : createOrLoadAt d req = ⟨(createDatabase d req).1, true, (createDatabase d req).2⟩ := by
    unfold createOrLoadAt createOrLoadAtWith
    simp [loadDatabase_dir, hnf, hl, h2]
  have key : (createDatabase d req).2 = .ok req ∧ (loadDatabase (createDatabase d req).1).2 = .ok req ∧
      (legacyExists (createDatabase d req).1 = true ∨ db2Exists (createDatabase d req).1 = true) := by
    obtain ⟨dir, m, p, dd2, dm, stL, stD⟩ := d
    have hdet := detect_stampOf req
    cases hc : createsDb2 req
    · have hp' : p = .absent ∨ p = .zero := by simpa [hc] using hp
      have hlt : ¬ Schema.schema_2_18_0.ord ≤ req.ord := by simpa [createsDb2] using hc
      cases dir <;> cases m <;> cases dd2 <;> cases dm <;> rcases hp' with rfl | rfl <;>
        simp_all [Dir.wf, legacyExists, db2Exists, FileSt.present, createDatabase, createLegacy, createDb2, openCreate,
          createIn, loadDatabase, loadDatabaseWith, detectIsDb2, loadLegacyWith, loadLegacySqlite, v2LoadWith,
          loadDb2Sqlite, Res.bind, requireDb2Schema]
    · have hle : Schema.schema_2_18_0.ord ≤ req.ord := by simpa [createsDb2] using hc
      cases dir <;> cases m <;> cases p <;> cases dd2 <;> cases dm <;>
        simp_all [Dir.wf, legacyExists, db2Exists, FileSt.present, createDatabase, createLegacy, createDb2, openCreate,
          createIn, loadDatabase, loadDatabaseWith, detectIsDb2, loadLegacyWith, loadLegacySqlite, v2LoadWith,
          loadDb2Sqlite, Res.bind, requireDb2Schema]
  obtain ⟨k1, k2, k3⟩ := key
  have hex := C10_create_or_load_existing (createDatabase d req).1 req' k3
  refine ⟨by rw [hcr], by rw [hcr]; exact k1, by rw [hcr]; exact k2, ?_, ?_⟩
  · rw [hcr]
    show (databaseExistsWith loadDatabase _).2 = _
    simp [databaseExistsWith, k2, existsAnswer]
  · rw [hcr]; simp only; rw [hex, k2]

/-- The creation-failure outcome: no library there, a 1.x schema requested, but a stray `p.db` that already holds
tables or is not a database.  `created` is set, the creator throws, and what it wrote before failing stays
(an `m.db` appears) — the one case in which create-or-load neither loads nor delivers a library. -/
theorem C10_create_or_load_creation_fails (d : Dir) (req : Schema) (hwf : d.wf = true)
    (hl : legacyExists d = false) (h2 : db2Exists d = false)
    (hreq : createsDb2 req = false) (hp : d.p = .valid ∨ d.p = .garbage) :
    (createOrLoadAt d req).created = true ∧ (createOrLoadAt d req).res = .throw .sqlite_error ∧
    (createOrLoadAt d req).dir.m.present = true ∧ (createOrLoadAt d req).dir.p = d.p := by
  have hnf : (loadDatabase d).2 = .throw notFound := (load_notFound_iff d).2 (by rw [hl, h2])
  have hcr : createOrLoadAt d req = ⟨(createDatabase d req).1, true, (createDatabase d req).2⟩ := by
    unfold createOrLoadAt createOrLoadAtWith
    simp [loadDatabase_dir, hnf, hl, h2]
  rw [hcr]
  obtain ⟨dir, m, p, dd2, dm, stL, stD⟩ := d
  simp only at hp
  cases dir <;> cases m <;> cases dd2 <;> cases dm <;> rcases hp with rfl | rfl <;>
    simp_all [Dir.wf, legacyExists, db2Exists, FileSt.present, createDatabase, createLegacy, openCreate, createIn]

/-- What a creator writes (into no directory, or an empty one) is the layout of its generation and loads back as the
created schema — every schema the library can create, the 18 supported ones and 3.0.0. -/
theorem C10_dir_load_reports_created (s : Schema) :
    (loadDatabase (createDatabase noDir s).1).2 = .ok s ∧ (loadDatabase (createDatabase emptyDir s).1).2 = .ok s ∧
    (createDatabase noDir s).1.shape = (if createsDb2 s then "aav" else "vva") := by
  cases s <;> decide

/-- `load_database`, `database_exists` (and the 2.x entry points `engine_library::load` / `exists`) never change
the directory — whatever is in it. -/
theorem C10_load_exists_keep_directory (d : Dir) :
    (loadDatabase d).1 = d ∧ (databaseExists d).1 = d ∧ (v2Load d).1 = d ∧ (v2Exists d).1 = d :=
  ⟨loadDatabase_dir d, databaseExists_dir d, v2Load_dir d, rfl⟩

/-- The code before 1fcc407 (create whenever the loader says "not found") does not satisfy the property: with a
zero-byte `m.db` next to a valid `Database2/m.db` and a 1.x request it reports `created` and writes a 1.x library
over the existing files.  Replayed on the real library: corpus/C10/create-over-both-layouts.txt. -/
theorem C10_create_or_load_old_counterexample :
    let d : Dir := ⟨true, .zero, .absent, true, .valid, stampOf .schema_1_18_0_os, stampOf .schema_2_21_2⟩
    db2Exists d = true ∧ (createOrLoadAtOld d .schema_1_18_0_os).created = true ∧
    (createOrLoadAtOld d .schema_1_18_0_os).dir ≠ d ∧ (createOrLoadAt d .schema_1_18_0_os) = ⟨d, false, .throw notFound⟩ := by
  decide

end dir

/-! ### non-vacuity -/
example : loadCreated .schema_1_18_0_desktop = .loaded .schema_1_18_0_desktop ∧
    loadCreated .schema_1_18_0_os = .loaded .schema_1_18_0_os ∧
    loadCreated .schema_2_21_2 = .loaded .schema_2_21_2 := by decide
open EngineModel.Spec.Dir in
example : (createOrLoadAt noDir .schema_2_18_0).created = true ∧ (createOrLoadAt noDir .schema_2_18_0).res = .ok .schema_2_18_0 ∧
    (createOrLoadAt noDir .schema_2_18_0).dir.shape = "aav" := by decide
open EngineModel.Spec.Dir in
/-- an existing 1.6.0 library, 2.21.2 requested: loaded, reported as 1.6.0, directory untouched -/
example : createOrLoadAt (createDatabase emptyDir .schema_1_6_0).1 .schema_2_21_2
    = ⟨(createDatabase emptyDir .schema_1_6_0).1, false, .ok .schema_1_6_0⟩ := by decide
open EngineModel.Spec.Dir in
/-- the hypotheses of `C10_create_or_load_creates` / `_creation_fails` are satisfiable -/
example : emptyDir.wf = true ∧ legacyExists emptyDir = false ∧ db2Exists emptyDir = false ∧ emptyDir.p = .absent := by decide
open EngineModel.Spec.Dir in
example : let d : Dir := { emptyDir with p := .valid }
    d.wf = true ∧ legacyExists d = false ∧ db2Exists d = false ∧
    (createOrLoadAt d .schema_1_18_0_os).res = .throw .sqlite_error ∧ (createOrLoadAt d .schema_1_18_0_os).dir.shape = "vva" := by decide
/-- a settled history with a failed call in the middle -/
example : (⟨[.begin, .write (fun n => some (n + 1)), .commit], some 1, false⟩ : Call Nat).settles := by
  simp [Call.settles, closedShape, closedRun, closedStep, Cmd.kind]
example : (runCalls (Conn.idle (0 : Nat))
    [⟨[.write (fun n => some (n + 1))], none, false⟩,
     ⟨[.begin, .write (fun n => some (n + 10)), .commit], some 1, false⟩,
     ⟨[.begin, .write (fun n => some (n + 100)), .commit], none, true⟩]) = Conn.idle 101 := by rfl

/-- reopening after every call of a settled history (one call fails, one runs in a scope) is invisible -/
example : runCallsReopen (Conn.idle (0 : Nat))
    [⟨[.write (fun n => some (n + 1))], none, false⟩,
     ⟨[.begin, .write (fun n => some (n + 10)), .commit], some 1, false⟩,
     ⟨[.begin, .write (fun n => some (n + 100)), .commit], none, true⟩] = Conn.idle 101 := by rfl
/-- … and it is visible when a call does not settle: the second call's write joins the transaction the first
left open when the session is kept, and is all that survives when the library is closed in between -/
example : (runCalls (Conn.idle (0 : Nat))
      [⟨[.begin, .write (fun n => some (n + 1))], none, false⟩, ⟨[.write (fun n => some (n + 10)), .commit], none, false⟩]).view = 11 ∧
    (runCallsReopen (Conn.idle (0 : Nat))
      [⟨[.begin, .write (fun n => some (n + 1))], none, false⟩, ⟨[.write (fun n => some (n + 10)), .commit], none, false⟩]).view = 10 := by
  decide
/-- the C14 monitor's shapes settle -/
example : atomicShape ((⟨[.read, .begin, .write (fun n => some (n + 1)), .write (fun n => some (n + 2)), .commit], none, false⟩ :
    Call Nat).cmds.map Cmd.kind) = true := by decide
/-- concrete models: a 1.x history whose observation after reopening at every prefix is not trivial -/
example : EngineModel.Api.CratesV1.crateTracks .schema_1_18_0_os
    (EngineModel.Api.CratesV1.run .schema_1_18_0_os EngineModel.Api.CratesV1.Db.empty
      [.createRoot [65], .createSub 1 [66], .createTrack, .addTrack 2 1]) 2 = [1] := by decide +kernel

end EngineModel.Properties.C10
