/-
C20 on the function REGENERATED from the source.

`Gen.Beatgrid.normalize` is rewritten by tools/tr_beatgrid.py from clang's typed AST of
`normalize_beatgrid` (src/djinterop/engine/engine.cpp) on every run of the check.  `C20Gen_eq`
says it is the hand model `Pure.Beatgrid.normalize` for EVERY arithmetic — so for the hardware-`Float`
instance the driver runs against the real library and for the exact rationals of the C20 theorems at
once — and the main C20 theorems are restated on it (one rewriting step each).  The statements
mention names only (their lock hashes do not depend on the translation); the proofs unfold the
regenerated blocks (Proofs/BeatgridGenEq.lean), so a change of the C++ that changes what the function
computes breaks a proof obligation here.

Two hypotheses appear beside those of C20, because the regenerated function is more literal than the
hand model (both are facts about every grid the C++ can be handed):
  `Idx32 g`  beat indices are `int` values — the type of the field (the source stores the new last
             index through `static_cast<int32_t>`);
  `Len31 g`  at most 2^31 markers (the source computes `int32_t last = size() - 1`).
-/
import Properties.C20
import Proofs.BeatgridGenEq

namespace EngineModel.Properties.C20Gen
open EngineModel EngineModel.Pure.Beatgrid EngineModel.Properties.C20

/-- The grid has at most 2^31 markers (a `std::vector` of 16-byte markers that `int32_t last =
size() - 1` can index). -/
def Len31 {α : Type} (g : List (Marker α)) : Prop := g.length ≤ 2147483648

instance {α : Type} (g : List (Marker α)) : Decidable (Len31 g) := by unfold Len31; infer_instance

/-! ## the regenerated function is the hand model -/

/-- **Regenerated = hand model**, for every arithmetic, every grid of `int` indices the C++ can hold,
every sample count.  (Full statement without `Idx32` / `Len31`: false only for grids outside the C++
types — Proofs/BeatgridGenEq.lean, header.) -/
theorem C20Gen_eq_partial {α : Type} (num : Num α) (g : List (Marker α)) (n : Int) (hi : Idx32 g)
    (hl : Len31 g) : Gen.Beatgrid.normalize num g n = normalize num g n :=
  normalizeGen_eq_partial num g n hi hl

/-- … in particular for the hardware-float instance (what `bg.normgen` runs against the library) -/
theorem C20Gen_eq_float_partial (g : List (Marker Float)) (n : Int) (hi : Idx32 g) (hl : Len31 g) :
    Gen.Beatgrid.normalize floatNum g n = normalize floatNum g n :=
  normalizeGen_eq_partial floatNum g n hi hl

/-- … and for the exact rationals the quantitative theorems are about. -/
theorem C20Gen_eq_rat_partial (g : List (Marker ℚ)) (n : Int) (hi : Idx32 g) (hl : Len31 g) :
    Gen.Beatgrid.normalize ratNum g n = normalize ratNum g n :=
  normalizeGen_eq_partial ratNum g n hi hl

/-! ## C20 restated on the regenerated function -/

section generic
variable {α : Type} (num : Num α)

/-- **Defined**: a grid or `invalid_argument`, never undefined behaviour — this covers every checked
operation of the translation (iterator arithmetic, `erase`, `operator[]`, `int` / `int64_t`
arithmetic, the `double → int32_t` conversion). -/
theorem C20Gen_defined (hc : num.Ceil32Ok) (g : List (Marker α)) (n : Int) (hi : Idx32 g)
    (hl : Len31 g) : ∀ u, Gen.Beatgrid.normalize num g n ≠ .ub u := by
  rw [C20Gen_eq_partial num g n hi hl]; exact C20_defined num hc g n hi

theorem C20Gen_ok_or_invalid (hc : num.Ceil32Ok) (g : List (Marker α)) (n : Int) (hi : Idx32 g)
    (hl : Len31 g) :
    (∃ out, Gen.Beatgrid.normalize num g n = .ok out) ∨
      Gen.Beatgrid.normalize num g n = .throw .invalid_argument := by
  rw [C20Gen_eq_partial num g n hi hl]; exact C20_ok_or_invalid num hc g n hi

/-- First index −4, length and interior positions of the trimmed grid, `int` indices again. -/
theorem C20Gen_gen_shape (hc : num.Ceil32Ok) (g out : List (Marker α)) (n : Int) (hi : Idx32 g)
    (hl : Len31 g) (h : Gen.Beatgrid.normalize num g n = .ok out) (hne : g ≠ []) :
    (∃ m, out.head? = some m ∧ m.index = -4) ∧
    out.length = (trim num g n).length ∧
    (∀ i, 0 < i → i + 1 < out.length → out[i]? = (trim num g n)[i]?) ∧ Idx32 out := by
  rw [C20Gen_eq_partial num g n hi hl] at h
  exact ⟨C20_gen_first_index num hc g out n hi h hne, (C20_gen_interior_unchanged num hc g out n hi h hne).1,
    (C20_gen_interior_unchanged num hc g out n hi h hne).2, C20_gen_out_idx32 num hc g out n hi h hne⟩

theorem C20Gen_gen_reject_of (g : List (Marker α)) (n : Int) (hi : Idx32 g) (hl : Len31 g) (hne : g ≠ [])
    (hc : (trim num g n).length < 2 ∨ ∃ m1, (trim num g n)[1]? = some m1 ∧ m1.index ≤ -4) :
    Gen.Beatgrid.normalize num g n = .throw .invalid_argument := by
  rw [C20Gen_eq_partial num g n hi hl]; exact C20_gen_reject_of num g n hne hc

end generic

/-- The comparison-only clauses for the regenerated function over hardware floats. -/
theorem C20Gen_float (g : List (Marker Float)) (n : Int) (hi : Idx32 g) (hl : Len31 g) :
    (∀ u, Gen.Beatgrid.normalize floatNum g n ≠ .ub u) ∧
    (∀ out, Gen.Beatgrid.normalize floatNum g n = .ok out → g ≠ [] →
      (∃ m, out.head? = some m ∧ m.index = -4) ∧
      out.length = (trim floatNum g n).length ∧
      (∀ i, 0 < i → i + 1 < out.length → out[i]? = (trim floatNum g n)[i]?) ∧ Idx32 out) ∧
    (g ≠ [] → ((trim floatNum g n).length < 2 ∨
        ∃ m1, (trim floatNum g n)[1]? = some m1 ∧ m1.index ≤ -4) →
      Gen.Beatgrid.normalize floatNum g n = .throw .invalid_argument) := by
  rw [C20Gen_eq_float_partial g n hi hl]; exact C20_float g n hi

/-! ### exact rationals, about the input grid -/

/-- **The rejection set, exactly** (`C20_reject_iff`). -/
theorem C20Gen_reject_iff (g : List (Marker ℚ)) (n : Int) (hs : Sorted g) (hi : Idx32 g) (hl : Len31 g)
    (hn : 0 < n) (hne : g ≠ []) :
    Gen.Beatgrid.normalize ratNum g n = .throw .invalid_argument ↔
      ((window ratNum g n).length < 2 ∨
       (∃ m1, (window ratNum g n)[1]? = some m1 ∧ m1.index ≤ -4) ∨
       (∃ m0 m1, window ratNum g n = [m0, m1] ∧
          (n : ℚ) ≤ m0.off + (((-4 - m0.index : Int)) : ℚ) * tempo m0 m1) ∨
       (∃ p l, (window ratNum g n)[(window ratNum g n).length - 2]? = some p ∧
          (window ratNum g n)[(window ratNum g n).length - 1]? = some l ∧
          2 ≤ (window ratNum g n).length ∧
          (¬ In32 (beatsToEnd p l n) ∨ 2147483647 < l.index + beatsToEnd p l n))) := by
  rw [C20Gen_eq_rat_partial g n hi hl]; exact C20_reject_iff g n hs hi hn hne

theorem C20Gen_reject_out_of_range (g : List (Marker ℚ)) (n : Int) (hi : Idx32 g) (hl : Len31 g)
    (hne : g ≠ [])
    (h : g.length < 2 ∨ (∀ m ∈ g, m.off ≤ 0) ∨ (∀ m ∈ g, (n : ℚ) ≤ m.off)) :
    Gen.Beatgrid.normalize ratNum g n = .throw .invalid_argument := by
  rw [C20Gen_eq_rat_partial g n hi hl]; exact C20_reject_out_of_range g n hne h

/-- **Acceptance** (`C20_accept_of_overlap`). -/
theorem C20Gen_accept_of_overlap (g : List (Marker ℚ)) (n : Int) (hs : Sorted g) (hi : Idx32 g)
    (hl : Len31 g)
    (hn : 0 < n) (h2 : 2 ≤ g.length) (hpos : ∃ m ∈ g, 0 < m.off) (hend : ∃ m ∈ g, m.off < (n : ℚ))
    (h4 : ∀ m1, (window ratNum g n)[1]? = some m1 → -4 < m1.index)
    (hb : ∀ m0 m1, window ratNum g n = [m0, m1] →
      m0.off + (((-4 - m0.index : Int)) : ℚ) * tempo m0 m1 < (n : ℚ))
    (hrep : ∀ p l, (window ratNum g n)[(window ratNum g n).length - 2]? = some p →
      (window ratNum g n)[(window ratNum g n).length - 1]? = some l →
      In32 (beatsToEnd p l n) ∧ l.index + beatsToEnd p l n ≤ 2147483647) :
    ∃ out, Gen.Beatgrid.normalize ratNum g n = .ok out := by
  rw [C20Gen_eq_rat_partial g n hi hl]; exact C20_accept_of_overlap g n hs hi hn h2 hpos hend h4 hb hrep

theorem C20Gen_first_index (g out : List (Marker ℚ)) (n : Int) (hi : Idx32 g) (hl : Len31 g)
    (h : Gen.Beatgrid.normalize ratNum g n = .ok out) (hne : g ≠ []) :
    ∃ m, out.head? = some m ∧ m.index = -4 := by
  rw [C20Gen_eq_rat_partial g n hi hl] at h; exact C20_first_index g out n hi h hne

/-- **Interior markers unchanged** (`C20_interior_kept`, `C20_interior_inside`,
`C20_interior_unchanged`). -/
theorem C20Gen_interior_kept (g out : List (Marker ℚ)) (n : Int) (hs : Sorted g) (hi : Idx32 g)
    (hl : Len31 g) (h : Gen.Beatgrid.normalize ratNum g n = .ok out) (hne : g ≠ []) (m : Marker ℚ)
    (hm : m ∈ g) (h0 : 0 < m.off) (h1 : m.off < (n : ℚ))
    (hbefore : ∃ x ∈ g, x.off < m.off) (hafter : ∃ y ∈ g, m.off < y.off) :
    m ∈ out.dropLast.tail := by
  rw [C20Gen_eq_rat_partial g n hi hl] at h
  exact C20_interior_kept g out n hs hi h hne m hm h0 h1 hbefore hafter

theorem C20Gen_interior_inside (g out : List (Marker ℚ)) (n : Int) (hs : Sorted g) (hi : Idx32 g)
    (hl : Len31 g) (h : Gen.Beatgrid.normalize ratNum g n = .ok out) (hne : g ≠ []) (m : Marker ℚ)
    (hm : m ∈ out.dropLast.tail) : m ∈ g ∧ 0 < m.off ∧ m.off < (n : ℚ) := by
  rw [C20Gen_eq_rat_partial g n hi hl] at h; exact C20_interior_inside g out n hs hi h hne m hm

theorem C20Gen_interior_unchanged (g out : List (Marker ℚ)) (n : Int) (hs : Sorted g) (hi : Idx32 g)
    (hl : Len31 g) (hn : 0 < n) (h : Gen.Beatgrid.normalize ratNum g n = .ok out) (hne : g ≠ []) :
    out.length = (window ratNum g n).length ∧
    ∀ i, 0 < i → i + 1 < out.length → out[i]? = (window ratNum g n)[i]? := by
  rw [C20Gen_eq_rat_partial g n hi hl] at h; exact C20_interior_unchanged g out n hs hi hn h hne

/-- **Tempo kept** (`C20_tempo_kept`). -/
theorem C20Gen_tempo_kept (g out : List (Marker ℚ)) (n : Int) (hs : Sorted g) (hi : Idx32 g)
    (hl : Len31 g) (hn : 0 < n) (h : Gen.Beatgrid.normalize ratNum g n = .ok out) (hne : g ≠ []) :
    let t := window ratNum g n
    (∀ a b a' b', t[0]? = some a → t[1]? = some b → out[0]? = some a' → out[1]? = some b' →
        tempo a' b' = tempo a b) ∧
    (∀ a b a' b', t[t.length - 2]? = some a → t[t.length - 1]? = some b →
        out[out.length - 2]? = some a' → out[out.length - 1]? = some b' → tempo a' b' = tempo a b) := by
  rw [C20Gen_eq_rat_partial g n hi hl] at h; exact C20_tempo_kept g out n hs hi hn h hne

/-- **Bracket** (`C20_bracket`): the last marker lies in `[n, n + beat)`. -/
theorem C20Gen_bracket (g out : List (Marker ℚ)) (n : Int) (hs : Sorted g) (hi : Idx32 g)
    (hl : Len31 g) (h : Gen.Beatgrid.normalize ratNum g n = .ok out) (hne : g ≠ []) :
    ∃ p l, out[out.length - 2]? = some p ∧ out[out.length - 1]? = some l ∧
      (n : ℚ) ≤ l.off ∧ l.off < (n : ℚ) + tempo p l := by
  rw [C20Gen_eq_rat_partial g n hi hl] at h; exact C20_bracket g out n hs hi h hne

theorem C20Gen_sorted (g out : List (Marker ℚ)) (n : Int) (hs : Sorted g) (hi : Idx32 g)
    (hl : Len31 g) (h : Gen.Beatgrid.normalize ratNum g n = .ok out) (hne : g ≠ []) :
    Sorted out ∧ Idx32 out ∧ Len31 out := by
  rw [C20Gen_eq_rat_partial g n hi hl] at h
  refine ⟨(C20_sorted g out n hs hi h hne).1, (C20_sorted g out n hs hi h hne).2, ?_⟩
  have h1 := (C20_gen_interior_unchanged ratNum ratNum_ceil32Ok g out n hi h hne).1
  have h2 := trim_length_le ratNum g n
  unfold Len31 at hl ⊢; omega

/-- **Idempotence** of the regenerated function (`C20_idempotent`). -/
theorem C20Gen_idempotent (g out : List (Marker ℚ)) (n : Int) (hs : Sorted g) (hi : Idx32 g)
    (hl : Len31 g) (hn : 0 < n) (h : Gen.Beatgrid.normalize ratNum g n = .ok out) (hne : g ≠ []) :
    Gen.Beatgrid.normalize ratNum out n = .ok out := by
  obtain ⟨-, hio, hlo⟩ := C20Gen_sorted g out n hs hi hl h hne
  rw [C20Gen_eq_rat_partial g n hi hl] at h
  rw [C20Gen_eq_rat_partial out n hio hlo]; exact C20_idempotent g out n hs hi hn h hne

/-- The empty grid is returned unchanged (the regenerated function, computed). -/
theorem C20Gen_empty (n : Int) : Gen.Beatgrid.normalize ratNum ([] : List (Marker ℚ)) n = .ok [] := rfl

/-! ### non-vacuity -/

/-- The regenerated function itself, evaluated by the kernel. -/
example : Gen.Beatgrid.normalize ratNum [⟨0, 0⟩, ⟨4, 400⟩, ⟨8, 800⟩] 1000 =
    .ok [⟨-4, -400⟩, ⟨4, 400⟩, ⟨10, 1000⟩] := by decide +kernel

example : Gen.Beatgrid.normalize ratNum [⟨-6, -100⟩, ⟨-4, 100⟩, ⟨0, 500⟩] 1000 =
    .throw .invalid_argument := by decide +kernel

/-- `Idx32`, `Len31`, `Sorted` are met by a concrete grid. -/
example : Sorted [⟨0, 0⟩, ⟨4, 400⟩, ⟨8, 800⟩] ∧ Idx32 ([⟨0, 0⟩, ⟨4, 400⟩, ⟨8, 800⟩] : List (Marker ℚ)) ∧
    Len31 ([⟨0, 0⟩, ⟨4, 400⟩, ⟨8, 800⟩] : List (Marker ℚ)) := by
  refine ⟨?_, ?_, ?_⟩
  · unfold Sorted; simp; norm_num
  · intro m hm; simp at hm; rcases hm with rfl | rfl | rfl <;> (unfold In32; norm_num)
  · unfold Len31; simp

end EngineModel.Properties.C20Gen
