/-
C20 — Beat-grid normalisation brackets the track and keeps its tempo.

The Model `Pure.Beatgrid.normalize` is generic over the arithmetic `Num α`; the
driver runs it over hardware `Float` (`floatNum`, tied bit for bit to the C++)
and over exact rationals (`ratNum`, core `Rat`, the Float-vs-ℚ stream).

Three groups of theorems:
  A. for EVERY arithmetic (so also for `Float`): totality on `int` indices
     (`C20_defined`: a grid or `invalid_argument`, never undefined behaviour),
     first index −4, interior positions untouched, the two unconditional
     rejections, and — under the four order laws `OrdLaws` that IEEE comparisons
     satisfy even with NaN — `trim = window`;
  B. over exact rationals, about the INPUT grid `g` (through the Spec `window`,
     not through the model's own `trim`): which grids are accepted / rejected,
     bracket, tempo, interior markers, sortedness, idempotence;
  C. registered witnesses (`_counterexample`) showing which hypotheses are needed.

The proofs are in Proofs/BeatgridGen.lean (A), Proofs/BeatgridWindow.lean
(`trim = window`) and Proofs/Beatgrid.lean (B).
-/
import EngineModel.Pure.Beatgrid
import EngineModel.Pure.BeatgridRat
import EngineModel.Pure.BeatgridFloat
import Proofs.Beatgrid
import Mathlib.Data.Rat.Floor
import Mathlib.Tactic.Linarith

namespace EngineModel.Properties.C20
open EngineModel EngineModel.Pure.Beatgrid

/-! ## A. every arithmetic (in particular the `Float` instance the driver runs) -/

section generic
variable {α : Type} (num : Num α)

/-- **Totality.**  On grids whose beat indices are `int` values (the type of the C++ field) and
for any sample count, normalisation returns a grid or throws `invalid_argument`: no `int`
overflow, no out-of-range `double → int` conversion.  (Before the `fix:` to `normalize_beatgrid`
this was false: see `C20_defined_counterexample` for what is left outside.) -/
theorem C20_defined (hc : num.Ceil32Ok) (g : List (Marker α)) (n : Int) (hi : Idx32 g) :
    ∀ u, normalize num g n ≠ .ub u :=
  normalize_defined num hc g n hi

/-- The outcome alphabet, positively: a grid or `invalid_argument`, nothing else. -/
theorem C20_ok_or_invalid (hc : num.Ceil32Ok) (g : List (Marker α)) (n : Int) (hi : Idx32 g) :
    (∃ out, normalize num g n = .ok out) ∨ normalize num g n = .throw .invalid_argument :=
  gen_ok_or_invalid hc hi

/-- The trimmed grid is a contiguous part of the input. -/
theorem C20_trim_infix (g : List (Marker α)) (n : Int) : trim num g n <:+: g :=
  trim_infix num g n

/-- The first marker of a result has beat index −4. -/
theorem C20_gen_first_index (hc : num.Ceil32Ok) (g out : List (Marker α)) (n : Int) (hi : Idx32 g)
    (h : normalize num g n = .ok out) (hne : g ≠ []) :
    ∃ m, out.head? = some m ∧ m.index = -4 :=
  gen_first_index hc hi h hne

/-- A result has as many markers as the trimmed grid and every position but the first and the
last holds the very marker (index and offset) of the trimmed grid. -/
theorem C20_gen_interior_unchanged (hc : num.Ceil32Ok) (g out : List (Marker α)) (n : Int)
    (hi : Idx32 g) (h : normalize num g n = .ok out) (hne : g ≠ []) :
    out.length = (trim num g n).length ∧
    ∀ i, 0 < i → i + 1 < out.length → out[i]? = (trim num g n)[i]? :=
  gen_interior_unchanged hc hi h hne

/-- A result again has `int` beat indices. -/
theorem C20_gen_out_idx32 (hc : num.Ceil32Ok) (g out : List (Marker α)) (n : Int) (hi : Idx32 g)
    (h : normalize num g n = .ok out) (hne : g ≠ []) : Idx32 out :=
  gen_out_idx32 hc hi h hne

/-- Fewer than two usable markers, or beat −4 not before the second usable marker: rejected. -/
theorem C20_gen_reject_of (g : List (Marker α)) (n : Int) (hne : g ≠ [])
    (hc : (trim num g n).length < 2 ∨ ∃ m1, (trim num g n)[1]? = some m1 ∧ m1.index ≤ -4) :
    normalize num g n = .throw .invalid_argument :=
  gen_reject_of hne hc

/-- **Trimming keeps exactly the Spec's window** — the last marker at or before sample 0 (or the
first marker), every marker strictly inside the track, the first marker at or beyond the end (or
the last marker) — for any comparisons satisfying `OrdLaws`. -/
theorem C20_trim_spec (L : OrdLaws num) (g : List (Marker α)) (n : Int) (hs : SortedBy num g)
    (hn : num.lt (num.ofInt 0) (num.ofInt n) = true) :
    trim num g n = window num g n :=
  trim_eq_window L hs hn

end generic

/-- The hardware-float instance keeps its `ceil32` contract, … -/
theorem C20_float_ceil32Ok : floatNum.Ceil32Ok := floatNum_ceil32Ok

/-- … so the comparison-only clauses hold of the very code the driver runs against the C++. -/
theorem C20_float (g : List (Marker Float)) (n : Int) (hi : Idx32 g) :
    (∀ u, normalize floatNum g n ≠ .ub u) ∧
    (∀ out, normalize floatNum g n = .ok out → g ≠ [] →
      (∃ m, out.head? = some m ∧ m.index = -4) ∧
      out.length = (trim floatNum g n).length ∧
      (∀ i, 0 < i → i + 1 < out.length → out[i]? = (trim floatNum g n)[i]?) ∧ Idx32 out) ∧
    (g ≠ [] → ((trim floatNum g n).length < 2 ∨
        ∃ m1, (trim floatNum g n)[1]? = some m1 ∧ m1.index ≤ -4) →
      normalize floatNum g n = .throw .invalid_argument) :=
  ⟨normalize_defined floatNum floatNum_ceil32Ok g n hi,
   fun _ h hne => ⟨gen_first_index floatNum_ceil32Ok hi h hne,
     (gen_interior_unchanged floatNum_ceil32Ok hi h hne).1,
     (gen_interior_unchanged floatNum_ceil32Ok hi h hne).2,
     gen_out_idx32 floatNum_ceil32Ok hi h hne⟩,
   fun hne hc => gen_reject_of hne hc⟩

/-! ## B. exact rationals: the property, about the input grid -/

/-- Strictly increasing in beat index and in sample offset (positive tempo everywhere). -/
def Sorted (g : List (Marker ℚ)) : Prop :=
  g.Pairwise (fun a b => a.index < b.index ∧ a.off < b.off)

/-- Samples per beat of the segment between two markers. -/
def tempo (a b : Marker ℚ) : ℚ := (b.off - a.off) / ((b.index - a.index : Int) : ℚ)

/-- Number of beats from the last marker `l` to the first beat at or beyond the end `n`, along the
last segment `p`–`l`. -/
def beatsToEnd (p l : Marker ℚ) (n : Int) : Int := ⌈((n : ℚ) - l.off) / tempo p l⌉

/-- The exact-rational instance satisfies the order laws and the `ceil32` contract. -/
theorem C20_rat_laws : OrdLaws ratNum ∧ ratNum.Ceil32Ok := ⟨qNum_ordLaws, ratNum_ceil32Ok⟩

/-- What trimming keeps, over ℚ: the Spec's window. -/
theorem C20_window_spec (g : List (Marker ℚ)) (n : Int) (hs : Sorted g) (hn : 0 < n) :
    trim ratNum g n = window ratNum g n :=
  trim_eq_window_q hs hn

/-- **"Overlaps the track"**: the window has two or more markers exactly when the grid has at
least two markers, one of them after sample 0 and one of them before the end. -/
theorem C20_overlap_iff (g : List (Marker ℚ)) (n : Int) (hs : Sorted g) (hn : 0 < n) :
    2 ≤ (window ratNum g n).length ↔
      2 ≤ g.length ∧ (∃ m ∈ g, 0 < m.off) ∧ (∃ m ∈ g, m.off < (n : ℚ)) := by
  rw [← trim_eq_window_q hs hn]; exact trim_length_ge_two_iff hs hn

/-- A single marker, a grid wholly at or before sample 0, or wholly at or beyond the end, is
rejected with `invalid_argument` (no sortedness, no index bound needed). -/
theorem C20_reject_out_of_range (g : List (Marker ℚ)) (n : Int) (hne : g ≠ [])
    (h : g.length < 2 ∨ (∀ m ∈ g, m.off ≤ 0) ∨ (∀ m ∈ g, (n : ℚ) ≤ m.off)) :
    normalize ratNum g n = .throw .invalid_argument :=
  gen_reject_of hne (Or.inl (trim_short_of h))

/-- **The rejection set, exactly**, in terms of the window of the input grid:
fewer than two markers overlap the track; or beat −4 would not lie before the second window
marker; or (two window markers) the track ends at or before beat −4 of their segment; or the last
beat index cannot be represented (`beatsToEnd` not an `int32_t`, or the new index above
`INT32_MAX`). -/
theorem C20_reject_iff (g : List (Marker ℚ)) (n : Int) (hs : Sorted g) (hi : Idx32 g) (hn : 0 < n)
    (hne : g ≠ []) :
    normalize ratNum g n = .throw .invalid_argument ↔
      ((window ratNum g n).length < 2 ∨
       (∃ m1, (window ratNum g n)[1]? = some m1 ∧ m1.index ≤ -4) ∨
       (∃ m0 m1, window ratNum g n = [m0, m1] ∧
          (n : ℚ) ≤ m0.off + (((-4 - m0.index : Int)) : ℚ) * tempo m0 m1) ∨
       (∃ p l, (window ratNum g n)[(window ratNum g n).length - 2]? = some p ∧
          (window ratNum g n)[(window ratNum g n).length - 1]? = some l ∧
          2 ≤ (window ratNum g n).length ∧
          (¬ In32 (beatsToEnd p l n) ∨ 2147483647 < l.index + beatsToEnd p l n))) := by
  rw [← trim_eq_window_q hs hn]; exact c20_throw_iff hs hi hne

/-- **Acceptance**: a strictly increasing grid that overlaps the track is normalised, provided
beat −4 lies before the second window marker, the track extends beyond beat −4, and the last beat
index is representable. -/
theorem C20_accept_of_overlap (g : List (Marker ℚ)) (n : Int) (hs : Sorted g) (hi : Idx32 g)
    (hn : 0 < n) (h2 : 2 ≤ g.length) (hpos : ∃ m ∈ g, 0 < m.off) (hend : ∃ m ∈ g, m.off < (n : ℚ))
    (h4 : ∀ m1, (window ratNum g n)[1]? = some m1 → -4 < m1.index)
    (hb : ∀ m0 m1, window ratNum g n = [m0, m1] →
      m0.off + (((-4 - m0.index : Int)) : ℚ) * tempo m0 m1 < (n : ℚ))
    (hrep : ∀ p l, (window ratNum g n)[(window ratNum g n).length - 2]? = some p →
      (window ratNum g n)[(window ratNum g n).length - 1]? = some l →
      In32 (beatsToEnd p l n) ∧ l.index + beatsToEnd p l n ≤ 2147483647) :
    ∃ out, normalize ratNum g n = .ok out := by
  have hne : g ≠ [] := by rintro rfl; simp at h2
  apply c20_ok_of_not_throw hi
  show normalize ratNum g n ≠ _
  rw [Ne, C20_reject_iff g n hs hi hn hne]
  rintro (hlen | ⟨m1, hm1, hidx⟩ | ⟨m0, m1, hw, hle⟩ | ⟨p, l, hp, hl, -, hun⟩)
  · have := (C20_overlap_iff g n hs hn).mpr ⟨h2, hpos, hend⟩
    omega
  · have := h4 m1 hm1; omega
  · have := hb m0 m1 hw; linarith
  · obtain ⟨h1, h3⟩ := hrep p l hp hl
    rcases hun with hu | hu
    · exact hu h1
    · omega

/-- The empty grid is returned unchanged. -/
theorem C20_empty (n : Int) : normalize ratNum ([] : List (Marker ℚ)) n = .ok [] := rfl

/-- The first marker has beat index −4. -/
theorem C20_first_index (g out : List (Marker ℚ)) (n : Int) (hi : Idx32 g)
    (h : normalize ratNum g n = .ok out) (hne : g ≠ []) :
    ∃ m, out.head? = some m ∧ m.index = -4 :=
  gen_first_index ratNum_ceil32Ok hi h hne

/-- **Interior markers are kept**: every marker of the input strictly inside the track that is
neither the first nor the last marker of the grid appears in the result unchanged, strictly
between its first and last marker. -/
theorem C20_interior_kept (g out : List (Marker ℚ)) (n : Int) (hs : Sorted g) (hi : Idx32 g)
    (h : normalize ratNum g n = .ok out) (hne : g ≠ []) (m : Marker ℚ) (hm : m ∈ g)
    (h0 : 0 < m.off) (h1 : m.off < (n : ℚ))
    (hbefore : ∃ x ∈ g, x.off < m.off) (hafter : ∃ y ∈ g, m.off < y.off) :
    m ∈ out.dropLast.tail :=
  c20_interior_kept hs hi h hne hm h0 h1 hbefore hafter

/-- … and nothing else is: every marker strictly between the first and the last marker of the
result is a marker of the input, strictly inside the track. -/
theorem C20_interior_inside (g out : List (Marker ℚ)) (n : Int) (hs : Sorted g) (hi : Idx32 g)
    (h : normalize ratNum g n = .ok out) (hne : g ≠ []) (m : Marker ℚ)
    (hm : m ∈ out.dropLast.tail) : m ∈ g ∧ 0 < m.off ∧ m.off < (n : ℚ) :=
  c20_interior_inside hs hi h hne hm

/-- Position by position: the result has the length of the window and agrees with it everywhere
but at the first and the last position. -/
theorem C20_interior_unchanged (g out : List (Marker ℚ)) (n : Int) (hs : Sorted g) (hi : Idx32 g)
    (hn : 0 < n) (h : normalize ratNum g n = .ok out) (hne : g ≠ []) :
    out.length = (window ratNum g n).length ∧
    ∀ i, 0 < i → i + 1 < out.length → out[i]? = (window ratNum g n)[i]? := by
  rw [← trim_eq_window_q hs hn]; exact gen_interior_unchanged ratNum_ceil32Ok hi h hne

/-- The tempo of the first and of the last segment of the window is kept. -/
theorem C20_tempo_kept (g out : List (Marker ℚ)) (n : Int) (hs : Sorted g) (hi : Idx32 g)
    (hn : 0 < n) (h : normalize ratNum g n = .ok out) (hne : g ≠ []) :
    let t := window ratNum g n
    (∀ a b a' b', t[0]? = some a → t[1]? = some b → out[0]? = some a' → out[1]? = some b' →
        tempo a' b' = tempo a b) ∧
    (∀ a b a' b', t[t.length - 2]? = some a → t[t.length - 1]? = some b →
        out[out.length - 2]? = some a' → out[out.length - 1]? = some b' → tempo a' b' = tempo a b) := by
  rw [← trim_eq_window_q hs hn]; exact c20_tempo_kept hs hi h hne

/-- The last marker lies at or beyond the end of the track and less than one beat past it. -/
theorem C20_bracket (g out : List (Marker ℚ)) (n : Int) (hs : Sorted g) (hi : Idx32 g)
    (h : normalize ratNum g n = .ok out) (hne : g ≠ []) :
    ∃ p l, out[out.length - 2]? = some p ∧ out[out.length - 1]? = some l ∧
      (n : ℚ) ≤ l.off ∧ l.off < (n : ℚ) + tempo p l :=
  c20_bracket hs hi h hne

/-- The result is again strictly increasing, with `int` indices. -/
theorem C20_sorted (g out : List (Marker ℚ)) (n : Int) (hs : Sorted g) (hi : Idx32 g)
    (h : normalize ratNum g n = .ok out) (hne : g ≠ []) : Sorted out ∧ Idx32 out :=
  ⟨c20_sorted hs hi h hne, gen_out_idx32 ratNum_ceil32Ok hi h hne⟩

/-- **Idempotence**, exact over ℚ and without any overflow caveat ("up to rounding" over floats
is what the Float-vs-ℚ stream of the tie measures). -/
theorem C20_idempotent (g out : List (Marker ℚ)) (n : Int) (hs : Sorted g) (hi : Idx32 g)
    (hn : 0 < n) (h : normalize ratNum g n = .ok out) (hne : g ≠ []) :
    normalize ratNum out n = .ok out :=
  c20_idempotent hs hi hn h hne

/-! ## C. witnesses -/

/-- `Idx32` in `C20_defined` is needed: beat indices that are not `int` values (impossible for the
C++ field, possible for the Model's `Int`) can overflow the 64-bit index arithmetic. -/
theorem C20_defined_counterexample :
    normalize ratNum [⟨-9223372036854775808, 0⟩, ⟨1, 1⟩] 10 = .ub .signed_overflow := by
  decide +kernel

/-- Overlapping the track is not sufficient for acceptance: beat −4 must lie before the second
window marker (otherwise moving the first marker there would un-sort the grid). -/
theorem C20_accept_of_overlap_counterexample :
    2 ≤ (window ratNum [⟨-6, -100⟩, ⟨-4, 100⟩, ⟨0, 500⟩] 1000).length ∧
    normalize ratNum [⟨-6, -100⟩, ⟨-4, 100⟩, ⟨0, 500⟩] 1000 = .throw .invalid_argument := by
  decide +kernel

/-- The former undefined-behaviour witnesses (signed `int` overflow in `index[1] − index[0]`,
`4 + index[0]`, `index += adjustment`; out-of-range `double → int32_t` conversion), replayed on the
real library before the `fix:`; now a grid or `invalid_argument`. -/
theorem C20_former_ub_witnesses :
    normalize ratNum [⟨-4, 0⟩, ⟨2147483644, 2147483648⟩] 2147483648 =
      .ok [⟨-4, 0⟩, ⟨2147483644, 2147483648⟩] ∧
    normalize ratNum [⟨2147483646, 0⟩, ⟨2147483647, 400⟩] 1000 = .throw .invalid_argument ∧
    normalize ratNum [⟨-2147483648, 0⟩, ⟨2147483647, 400⟩] 1000 = .throw .invalid_argument ∧
    normalize ratNum [⟨0, 0⟩, ⟨1, 1 / 1000000000⟩] 1000000000000000 =
      .throw .invalid_argument := by
  decide +kernel

/-! ### non-vacuity -/
example : normalize ratNum [⟨0, 0⟩, ⟨4, 400⟩, ⟨8, 800⟩] 1000 =
    .ok [⟨-4, -400⟩, ⟨4, 400⟩, ⟨10, 1000⟩] := by decide +kernel

/-- The window of a grid with markers before sample 0 and beyond the end. -/
example : window ratNum [⟨-8, -900⟩, ⟨-4, -500⟩, ⟨0, -100⟩, ⟨4, 300⟩, ⟨8, 700⟩, ⟨12, 1100⟩,
      ⟨16, 1500⟩] 1000 = [⟨0, -100⟩, ⟨4, 300⟩, ⟨8, 700⟩, ⟨12, 1100⟩] := by decide +kernel

/-- The hypotheses of `C20_accept_of_overlap` / `C20_idempotent` are met by a concrete grid. -/
example : Sorted [⟨0, 0⟩, ⟨4, 400⟩, ⟨8, 800⟩] ∧ Idx32 ([⟨0, 0⟩, ⟨4, 400⟩, ⟨8, 800⟩] : List (Marker ℚ)) := by
  constructor
  · unfold Sorted; simp; norm_num
  · intro m hm; simp at hm; rcases hm with rfl | rfl | rfl <;> (unfold In32; norm_num)

/-- The third cause of rejection: two markers left, track ends before beat −4 of the segment
(beat −4 is at sample 999). -/
example : normalize ratNum [⟨-104, -1⟩, ⟨-3, 1009⟩] 5 = .throw .invalid_argument := by
  decide +kernel

end EngineModel.Properties.C20
