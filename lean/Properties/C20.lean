/-
C20 — Beat-grid normalisation brackets the track and keeps its tempo.
Theorems over ℚ about the Model `Pure.Beatgrid.normalize` (the same generic
code the driver runs over hardware floats, bit-exactly tied to the C++).
All grids, no bound on length.  The proofs are in Proofs/Beatgrid.lean
(`qNum`, `QSorted`, `qtempo` there are definitionally `ratNum`, `Sorted`, `tempo`).
-/
import EngineModel.Pure.Beatgrid
import Proofs.Beatgrid
import Mathlib.Data.Rat.Floor
import Mathlib.Tactic.Linarith

namespace EngineModel.Properties.C20
open EngineModel EngineModel.Pure.Beatgrid

/-- Exact rational arithmetic; `ceil32` is the integer ceiling when it fits `int32_t`. -/
def ratNum : Num ℚ where
  ofInt i := (i : ℚ)
  add a b := a + b
  sub a b := a - b
  mul a b := a * b
  div a b := a / b
  lt a b := decide (a < b)
  le a b := decide (a ≤ b)
  ceil32 x := let c := Int.ceil x
    if -2147483648 ≤ c ∧ c ≤ 2147483647 then some c else none

/-- Strictly increasing in beat index and in sample offset (positive tempo everywhere). -/
def Sorted (g : List (Marker ℚ)) : Prop :=
  g.Pairwise (fun a b => a.index < b.index ∧ a.off < b.off)

/-- Samples per beat of the segment between two markers. -/
def tempo (a b : Marker ℚ) : ℚ := (b.off - a.off) / ((b.index - a.index : Int) : ℚ)

/-- The trimmed grid is a contiguous part of the input. -/
theorem C20_trim_infix (g : List (Marker ℚ)) (n : Int) : trim ratNum g n <:+: g :=
  trim_infix g n

/-- Trimming keeps every marker strictly inside the track. -/
theorem C20_trim_keeps_interior (g : List (Marker ℚ)) (n : Int) (hs : Sorted g)
    (m : Marker ℚ) (hm : m ∈ g) (h0 : 0 < m.off) (h1 : m.off < n) : m ∈ trim ratNum g n :=
  trim_keeps hs hm h0 h1

/-- A `throw` has one of exactly three causes: fewer than two usable markers, beat −4 not before
the second marker, or (only when exactly two markers are left) the track ends at or before beat −4
of that single segment.  No overflow caveat in this direction. -/
theorem C20_throw_only_if (g : List (Marker ℚ)) (n : Int) (hs : Sorted g) (hne : g ≠ [])
    (h : normalize ratNum g n = .throw .invalid_argument) :
    ((trim ratNum g n).length < 2 ∨ (∃ m1, (trim ratNum g n)[1]? = some m1 ∧ m1.index ≤ -4) ∨
     (∃ m0 m1, trim ratNum g n = [m0, m1] ∧
        (n : ℚ) ≤ m0.off + (((-4 - m0.index : Int)) : ℚ) * tempo m0 m1)) :=
  c20_throw_only_if hs hne h

/-- The first two causes always `throw` (no sortedness needed, never masked by an overflow). -/
theorem C20_reject_of (g : List (Marker ℚ)) (n : Int) (hne : g ≠ [])
    (hc : (trim ratNum g n).length < 2 ∨
      ∃ m1, (trim ratNum g n)[1]? = some m1 ∧ m1.index ≤ -4) :
    normalize ratNum g n = .throw .invalid_argument :=
  c20_reject_of hne hc

/-- Rejection is exactly: fewer than two usable markers, or beat −4 not before the second marker,
or a two-marker grid whose track ends at or before beat −4.
(`hnub`: the third cause is only reached after the `int` arithmetic of both moves, which can
overflow first — then the outcome is `ub`, not `throw`.) -/
theorem C20_reject_iff (g : List (Marker ℚ)) (n : Int) (hs : Sorted g) (hne : g ≠ [])
    (hnub : ∀ u, normalize ratNum g n ≠ .ub u) :
    normalize ratNum g n = .throw .invalid_argument ↔
      ((trim ratNum g n).length < 2 ∨ (∃ m1, (trim ratNum g n)[1]? = some m1 ∧ m1.index ≤ -4) ∨
       (∃ m0 m1, trim ratNum g n = [m0, m1] ∧
          (n : ℚ) ≤ m0.off + (((-4 - m0.index : Int)) : ℚ) * tempo m0 m1)) :=
  c20_reject_iff hs hne hnub

/-- The empty grid is returned unchanged. -/
theorem C20_empty (n : Int) : normalize ratNum ([] : List (Marker ℚ)) n = .ok [] := rfl

/-- Shape of a successful result: same length as the trimmed grid, interior markers untouched. -/
theorem C20_interior_unchanged (g out : List (Marker ℚ)) (n : Int)
    (h : normalize ratNum g n = .ok out) (hne : g ≠ []) :
    out.length = (trim ratNum g n).length ∧
    ∀ i, 0 < i → i + 1 < out.length → out[i]? = (trim ratNum g n)[i]? :=
  c20_interior_unchanged h hne

/-- The first marker has beat index −4. -/
theorem C20_first_index (g out : List (Marker ℚ)) (n : Int)
    (h : normalize ratNum g n = .ok out) (hne : g ≠ []) :
    ∃ m, out.head? = some m ∧ m.index = -4 :=
  c20_first_index h hne

/-- The tempo of the first and of the last segment is kept. -/
theorem C20_tempo_kept (g out : List (Marker ℚ)) (n : Int) (hs : Sorted g)
    (h : normalize ratNum g n = .ok out) (hne : g ≠ []) :
    let t := trim ratNum g n
    (∀ a b a' b', t[0]? = some a → t[1]? = some b → out[0]? = some a' → out[1]? = some b' →
        tempo a' b' = tempo a b) ∧
    (∀ a b a' b', t[t.length - 2]? = some a → t[t.length - 1]? = some b →
        out[out.length - 2]? = some a' → out[out.length - 1]? = some b' → tempo a' b' = tempo a b) :=
  c20_tempo_kept hs h hne

/-- The last marker lies at or beyond the end of the track and less than one beat past it. -/
theorem C20_bracket (g out : List (Marker ℚ)) (n : Int) (hs : Sorted g)
    (h : normalize ratNum g n = .ok out) (hne : g ≠ []) :
    ∃ p l, out[out.length - 2]? = some p ∧ out[out.length - 1]? = some l ∧
      (n : ℚ) ≤ l.off ∧ l.off < (n : ℚ) + tempo p l :=
  c20_bracket hs h hne

/-- The result is again strictly increasing. -/
theorem C20_sorted (g out : List (Marker ℚ)) (n : Int) (hs : Sorted g) (hn : 0 < n)
    (h : normalize ratNum g n = .ok out) (hne : g ≠ []) : Sorted out := by
  have _ := hn  -- not needed for this conclusion; kept in the statement
  exact c20_sorted hs h hne

/-- Idempotence (exact over ℚ; "up to rounding" over floats is the tie's job).
`hfit`: re-normalising computes `index + 4` and `last.index − prev.index` in `int`; without room
for that the second run is `ub signed_overflow` (e.g. `[(-4,0),(-3,1)]`, `n = 2^31`). -/
theorem C20_idempotent (g out : List (Marker ℚ)) (n : Int) (hs : Sorted g) (hn : 0 < n)
    (h : normalize ratNum g n = .ok out) (hne : g ≠ [])
    (hfit : ∀ m ∈ out, m.index ≤ 2147483643) :
    normalize ratNum out n = .ok out :=
  c20_idempotent hs hn h hne hfit

/-- Idempotence without the `hfit` caveat: the second run either returns the grid unchanged or
hits a signed `int` overflow — never a `throw`, never another `ub`, never a different grid. -/
theorem C20_idempotent_or_overflow (g out : List (Marker ℚ)) (n : Int) (hs : Sorted g) (hn : 0 < n)
    (h : normalize ratNum g n = .ok out) (hne : g ≠ []) :
    normalize ratNum out n = .ok out ∨ normalize ratNum out n = .ub .signed_overflow :=
  c20_idempotent_or_overflow hs hn h hne

/-! ### non-vacuity -/
example : normalize ratNum [⟨0, 0⟩, ⟨4, 400⟩, ⟨8, 800⟩] 1000 =
    .ok [⟨-4, -400⟩, ⟨4, 400⟩, ⟨10, 1000⟩] := by
  norm_num [normalize, trim, trimEnd, trimStart, fixFirst, fixLast, ratNum, chk32,
    List.findIdx?_cons, List.findIdx_cons]

/-- The third cause of rejection: two markers left, track ends before beat −4 of the segment
(beat −4 is at sample 999). -/
example : normalize ratNum [⟨-104, -1⟩, ⟨-3, 1009⟩] 5 = .throw .invalid_argument := by
  norm_num [normalize, trim, trimEnd, trimStart, fixFirst, fixLast, ratNum, chk32,
    List.findIdx?_cons, List.findIdx_cons]

/-- `hfit` of `C20_idempotent` is needed: a normalised grid whose second run overflows. -/
example : normalize ratNum [⟨-4, 0⟩, ⟨-3, 1⟩] 2147483648 =
      .ok [⟨-4, 0⟩, ⟨2147483644, 2147483648⟩] ∧
    normalize ratNum [⟨-4, 0⟩, ⟨2147483644, 2147483648⟩] 2147483648 = .ub .signed_overflow := by
  constructor <;>
  norm_num [normalize, trim, trimEnd, trimStart, fixFirst, fixLast, ratNum, chk32,
    List.findIdx?_cons, List.findIdx_cons]

end EngineModel.Properties.C20
