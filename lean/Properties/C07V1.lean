/-
C07 — All crate queries describe one well-formed forest.   Schema 1.x half.

Model  : EngineModel/Api/CratesV1.lean — the SQL statements of engine_crate_impl.cpp /
         engine_database_impl.cpp on Crate, CrateParentList, CrateHierarchy, CrateTrackList
         (incl. the List-backed views and INSTEAD OF triggers from 1.9.1), `step`, `run`.
Spec   : EngineModel/Spec/Forest.lean — a list of live crates with name and optional parent;
         every query defined from `parent` alone; `Forest.step` = the verdict the property demands.
Trace  : EngineModel/Api/CratesV1Sim.lean — `forestTrace` drives the Spec with what a caller sees
         of each Model call (returned / threw, reported id), exactly as the tie's oracle drives it
         with the real library's answers; it is `none` as soon as an outcome contradicts a verdict.
Abs    : EngineModel/Api/CratesV1Wf.lean — `absForest db` reads the forest off Crate + CrateParentList.

A history is ANY list of Model operations (`Op`): create root / sub-crate, rename, re-parent to any
crate or none, remove — on live handles, removed handles, ids that never existed, valid and invalid
names — interleaved with the membership and track operations, on any of the eleven 1.x schema versions
(`s` is universally quantified; it only selects between table and view statements and id allocation).
-/
import Proofs.CratesV1Suffix

namespace EngineModel.Properties.C07V1
open EngineModel EngineModel.Api.CratesV1 EngineModel.Spec EngineModel.Pure.Detect

/-- (i) The invariant (ParentList functional and total on the live crates with live parents, Hierarchy =
strict transitive closure of ParentList and irreflexive, every path = path of the parent ++ name ++ ';',
names valid, memberships duplicate-free between live crates and live tracks) holds after every history. -/
theorem C07_invariant_after_every_history (s : Schema) (ops : List Op) : Inv (run s Db.empty ops) :=
  inv_run s ops inv_empty

/-- No operation has undefined behaviour in any reachable state (in particular the unbounded recursion of
`update_path` terminates: its fuel is never exhausted). -/
theorem C07_no_undefined_behaviour (s : Schema) (ops : List Op) (op : Op) :
    (step s (run s Db.empty ops) op).2.isUb = false :=
  (step_ok s (inv_run s ops inv_empty) op).2.1

/-- (ii-a) Simulation, one step: in every reachable state the outcome class of every operation is one the
Spec's verdict allows (accept ⇒ returned, reject ⇒ threw), and the abstract forest afterwards is the forest
the Spec prescribes.  `absForest` commutes with `step`. -/
theorem C07_step_simulates_spec (s : Schema) (ops : List Op) (op : Op) :
    forestNext (absForest (run s Db.empty ops)) op (step s (run s Db.empty ops) op).2
      = some (absForest (step s (run s Db.empty ops) op).1) :=
  (step_ok s (inv_run s ops inv_empty) op).2.2

/-- (ii-b) Refinement, whole histories: the Spec, told only the outcomes of the calls, never contradicts
them and ends in the abstract forest of the Model's tables. -/
theorem C07_refines (s : Schema) (ops : List Op) :
    forestTrace s Db.empty Forest.empty ops = some (absForest (run s Db.empty ops)) :=
  forestTrace_run s ops inv_empty

/-- (ii-c) Every structural query of the Model, in every reachable state, equals the same query of
`Spec.Forest` on the abstract forest (listings as sorted lists; lookups by parent and name return the
match with the largest id — renaming / re-parenting may leave several siblings with one name). -/
theorem C07_queries_agree_with_spec (s : Schema) (ops : List Op) :
    let db := run s Db.empty ops
    let f := absForest db
    dbCrates db = Forest.sortIds f.ids ∧ f.ids.Nodup ∧
    dbRootCrates db = Forest.sortIds f.roots ∧
    (∀ c, crateIsValid db c = .ok (f.live c)) ∧
    (∀ c, dbCrateById db c = .ok (if f.live c then some c else none)) ∧
    (∀ c, crateName db c = match f.nameOf c with | some n => .ok n | none => .throw exCrateDeleted) ∧
    (∀ c, crateParent db c = .ok (f.parentOf c)) ∧
    (∀ c, sortIds (crateChildren db c) = Forest.sortIds (f.children c)) ∧
    (∀ c, sortIds (crateDescendants db c) = Forest.sortIds (f.descendants c)) ∧
    (∀ n, dbCratesByName db n = Forest.sortIds (f.byName n)) ∧
    (∀ n, rootCrateByName db n = lastById (f.byParentName none n)) ∧
    (∀ c n, subCrateByName db c n = lastById (f.byParentName (some c) n)) := by
  intro db f
  have h : Inv db := inv_run s ops inv_empty
  have hf := h.toFInv
  refine ⟨q_crates db, ?_, q_roots hf, q_isValid hf, q_crateById hf, q_name hf, q_parent hf, q_children hf,
    q_descendants hf, q_cratesByName db, q_rootCrateByName hf, q_subCrateByName hf⟩
  show (absForest db).ids.Nodup
  rw [abs_ids]; exact hf.idsNodup

/-- The forest is well-formed: in every reachable state `parent()` of a live crate is absent or a live
crate, nothing is its own ancestor, and `descendants` is the transitive closure of `children`
(stated on the abstract forest, which by `C07_queries_agree_with_spec` is what the queries return). -/
theorem C07_forest_wellformed (s : Schema) (ops : List Op) :
    let f := absForest (run s Db.empty ops)
    (∀ c p, f.parentOf c = some p → f.live c = true ∧ f.live p = true) ∧
    (∀ c, f.isAncestor c c = false) ∧
    (∀ a c, f.isAncestor a c = true ↔ ∃ p, f.parentOf c = some p ∧ (p = a ∨ f.isAncestor a p = true)) := by
  intro f
  have h : Inv (run s Db.empty ops) := inv_run s ops inv_empty
  have hf := h.toFInv
  refine ⟨?_, ?_, ?_⟩
  · intro c p hp
    rw [abs_parentOf hf] at hp
    have := hf.par_live ((parentOf_eq_some hf).mp hp)
    exact ⟨(abs_live _ c).mpr this.1, (abs_live _ p).mpr this.2⟩
  · intro c
    rw [← Bool.not_eq_true, isAncestor_iff hf]
    exact hf.chIrrefl c
  · intro a c
    rw [isAncestor_iff hf, hf.chStep a c]
    constructor
    · rintro ⟨p, hp, hor⟩
      refine ⟨p, by rw [abs_parentOf hf]; exact (parentOf_eq_some hf).mpr hp, ?_⟩
      rcases hor with e | hm
      · exact Or.inl e.symm
      · exact Or.inr ((isAncestor_iff hf a p).mpr hm)
    · rintro ⟨p, hp, hor⟩
      rw [abs_parentOf hf] at hp
      refine ⟨p, (parentOf_eq_some hf).mp hp, ?_⟩
      rcases hor with e | hm
      · exact Or.inl e.symm
      · exact Or.inr ((isAncestor_iff hf a p).mp hm)

/-- The same, directly on the Model's queries: in every reachable state `children(c)` is exactly the set of crates
whose `parent()` is `c`, `descendants(c)` is exactly the transitive closure of that relation, `root_crates()` is
exactly the valid crates without a parent, and `parent()` of a valid crate is absent or valid. -/
theorem C07_children_descendants_roots_from_parent (s : Schema) (ops : List Op) :
    let db := run s Db.empty ops
    (∀ c k, k ∈ crateChildren db c ↔ crateParent db k = .ok (some c)) ∧
    (∀ c y, y ∈ crateDescendants db c ↔ Relation.TransGen (fun x p => crateParent db x = .ok (some p)) y c) ∧
    (∀ x, x ∈ dbRootCrates db ↔ (crateIsValid db x = .ok true ∧ crateParent db x = .ok none)) ∧
    (∀ x p, crateParent db x = .ok (some p) → crateIsValid db x = .ok true ∧ crateIsValid db p = .ok true) ∧
    (∀ c, (crateChildren db c).Nodup ∧ (crateDescendants db c).Nodup) := by
  intro db
  have h : Inv db := inv_run s ops inv_empty
  have hf := h.toFInv
  refine ⟨children_iff_parent hf, descendants_iff_transGen hf, roots_iff_no_parent hf, ?_, ?_⟩
  · intro x p hp
    have := hf.par_live ((parentIs_iff hf x p).mp hp)
    exact ⟨(isValid_iff hf x).mpr this.1, (isValid_iff hf p).mpr this.2⟩
  · intro c
    constructor
    · unfold crateChildren
      exact hf.cplNodup.sublist (List.Sublist.map _ List.filter_sublist)
    · have := subtreeList_nodup hf c
      unfold subtreeList at this
      exact (List.nodup_cons.mp this).2

/-! ### the bullet points of the property text -/

/-- "invalid names are rejected without effect" — in ANY state (not only reachable ones), for the three
operations that take a name: the call throws `crate_invalid_name` and no table changes. -/
theorem C07_invalid_name_rejected_without_effect (s : Schema) (db : Db) (n : Name) (c : Id)
    (hn : Forest.validName n = false) :
    step s db (.createRoot n) = (db, .throw exInvalidName) ∧
    step s db (.createSub c n) = (db, .throw exInvalidName) ∧
    step s db (.rename c n) = (db, .throw exInvalidName) :=
  ⟨createRoot_invalid s db hn, createSub_invalid s db c hn, setName_invalid s db c hn⟩

example : Forest.validName [] = false ∧ Forest.validName [120, 59, 121] = false := by decide

/-- A call that throws leaves every table exactly as it was, in every reachable state. -/
theorem C07_failed_call_changes_nothing (s : Schema) (ops : List Op) (op : Op)
    (hr : (step s (run s Db.empty ops) op).2.isOk = false) :
    (step s (run s Db.empty ops) op).1 = run s Db.empty ops :=
  step_throw_unchanged s (inv_run s ops inv_empty) op hr

/-- non-vacuity: calls that fail — a duplicate root name, a rename of a removed crate. -/
example : (step .schema_1_9_1 (run .schema_1_9_1 Db.empty [.createRoot [97]]) (.createRoot [97])).2.isOk = false ∧
    (step .schema_1_9_1 (run .schema_1_9_1 Db.empty [.createRoot [97], .removeCrate 1]) (.rename 1 [98])).2.isOk = false := by
  decide +kernel

/-- "a re-parenting that would create a cycle is rejected leaving the forest unchanged": under itself or
under any of its descendants, in every reachable state. -/
theorem C07_cycle_reparent_rejected (s : Schema) (ops : List Op) (c q : Id)
    (hcyc : q = c ∨ (absForest (run s Db.empty ops)).isAncestor c q = true) :
    (step s (run s Db.empty ops) (.setParent c (some q))).2.isOk = false ∧
    (step s (run s Db.empty ops) (.setParent c (some q))).1 = run s Db.empty ops := by
  have h : Inv (run s Db.empty ops) := inv_run s ops inv_empty
  have key : (step s (run s Db.empty ops) (.setParent c (some q))).2.isOk = false := by
    show (setParent s (run s Db.empty ops) c (some q)).2.isOk = false
    rcases hcyc with rfl | hanc
    · rw [setParent_self]; rfl
    · by_cases hqc : q = c
      · subst hqc; rw [setParent_self]; rfl
      · have hm := (isAncestor_iff h.toFInv c q).mp hanc
        have hl := h.chLive _ hm
        rw [setParent_cycle s h.idsNodup hqc hl.1 hl.2 hm]; rfl
  exact ⟨key, step_throw_unchanged s h _ key⟩

/-- non-vacuity: after `a`, `a/b` the crate 2 is a descendant of crate 1. -/
example : (absForest (run .schema_1_9_1 Db.empty [.createRoot [97], .createSub 1 [98]])).isAncestor 1 2 = true := by
  decide +kernel

/-- "crate ids never collide": the id reported by a successful creation is not the id of a live crate,
and afterwards it is; every other crate keeps its id (the id column of `Crate` only grows by the new id). -/
theorem C07_new_id_is_fresh (s : Schema) (ops : List Op) (op : Op) (i : Id)
    (hop : isCreate op = true) (hr : (step s (run s Db.empty ops) op).2 = .ok (.id i)) :
    crateIsValid (run s Db.empty ops) i = .ok false ∧
    crateIsValid (step s (run s Db.empty ops) op).1 i = .ok true ∧
    (step s (run s Db.empty ops) op).1.crate.map (·.id) = (run s Db.empty ops).crate.map (·.id) ++ [i] := by
  have h : Inv (run s Db.empty ops) := inv_run s ops inv_empty
  have h' : Inv (step s (run s Db.empty ops) op).1 := (step_ok s h op).1
  have hd : ∀ j, (step s (run s Db.empty ops) op).2 = .ok (.id j) → j ∉ ids (run s Db.empty ops) ∧
      ids (step s (run s Db.empty ops) op).1 = ids (run s Db.empty ops) ++ [j] := by
    intro j hj
    rcases ids_step s h op with h0 | ⟨k, _, hk, hfresh, hids⟩ | ⟨c, hc, _⟩
    · -- no id was added: then the call cannot have reported one
      exfalso
      cases op with
      | createRoot n =>
        have hj' : (createRootCrate s (run s Db.empty ops) n).2 = .ok (.id j) := hj
        have h0' : ids (createRootCrate s (run s Db.empty ops) n).1 = ids (run s Db.empty ops) := h0
        rcases validName_cases n with hv | hv
        · by_cases hdup : RootNamed (run s Db.empty ops) n
          · rw [createRoot_dup s _ hv hdup] at hj'; cases hj'
          · rw [createRoot_ok s _ hv hdup] at h0'
            have h0'' : ids (afterCreateRoot s (run s Db.empty ops) n) = ids (run s Db.empty ops) := h0'
            have e : ids (afterCreateRoot s (run s Db.empty ops) n)
                = ids (run s Db.empty ops) ++ [newCrateId s (run s Db.empty ops)] := by simp [ids, afterCreateRoot]
            rw [e] at h0''
            have := congrArg List.length h0''
            simp at this
        · rw [createRoot_invalid s _ hv] at hj'; cases hj'
      | createSub c n =>
        have hj' : (createSubCrate s (run s Db.empty ops) c n).2 = .ok (.id j) := hj
        have h0' : ids (createSubCrate s (run s Db.empty ops) c n).1 = ids (run s Db.empty ops) := h0
        rcases validName_cases n with hv | hv
        · by_cases hdup : SubNamed (run s Db.empty ops) c n
          · rw [createSub_dup s _ c hv hdup] at hj'; cases hj'
          · by_cases hc : c ∈ ids (run s Db.empty ops)
            · rw [createSub_ok s h.idsNodup hv hdup hc] at h0'
              have h0'' : ids (afterCreateSub s (run s Db.empty ops) c n) = ids (run s Db.empty ops) := h0'
              have e : ids (afterCreateSub s (run s Db.empty ops) c n)
                  = ids (run s Db.empty ops) ++ [newCrateId s (run s Db.empty ops)] := by simp [ids, afterCreateSub]
              rw [e] at h0''
              have := congrArg List.length h0''
              simp at this
            · rw [createSub_dead s _ hv hdup hc] at hj'; cases hj'
        · rw [createSub_invalid s _ c hv] at hj'; cases hj'
      | _ => cases hop
    · rw [hk] at hj
      cases hj
      exact ⟨hfresh, hids⟩
    · subst hc; cases hop
  obtain ⟨hfresh, hids⟩ := hd i hr
  refine ⟨(isValid_false_iff h.toFInv i).mpr hfresh, (isValid_iff h'.toFInv i).mpr ?_, hids⟩
  rw [hids]; simp

/-- non-vacuity: a creation that succeeds and reports an id. -/
example : (step .schema_1_6_0 (run .schema_1_6_0 Db.empty [.createRoot [97]]) (.createSub 1 [98])).2 = .ok (.id 2) := by
  decide +kernel

/-- "crate ids never change": an operation other than the removal of the crate or of one of its ancestors
never invalidates a live crate — and (`C07_step_simulates_spec`) renaming / re-parenting change only the
name / parent recorded for that id. -/
theorem C07_live_crate_stays_live (s : Schema) (ops : List Op) (op : Op) (y : Id)
    (hy : crateIsValid (run s Db.empty ops) y = .ok true)
    (hop : ∀ c, op = .removeCrate c → ¬ (y = c ∨ (absForest (run s Db.empty ops)).isAncestor c y = true)) :
    crateIsValid (step s (run s Db.empty ops) op).1 y = .ok true := by
  have h : Inv (run s Db.empty ops) := inv_run s ops inv_empty
  have h' : Inv (step s (run s Db.empty ops) op).1 := (step_ok s h op).1
  have hy' := (isValid_iff h.toFInv y).mp hy
  rw [isValid_iff h'.toFInv]
  rcases ids_step s h op with h0 | ⟨k, _, _, _, hids⟩ | ⟨c, hc, hmem⟩
  · have h0' : ids (step s (run s Db.empty ops) op).1 = ids (run s Db.empty ops) := h0
    rw [h0']; exact hy'
  · have hids' : ids (step s (run s Db.empty ops) op).1 = ids (run s Db.empty ops) ++ [k] := hids
    rw [hids']; exact List.mem_append_left _ hy'
  · rw [hmem]
    exact ⟨hy', fun hs => hop c hc ((sub_iff_abs h.toFInv c y).mp hs)⟩

example : crateIsValid (run .schema_1_6_0 Db.empty [.createRoot [97]]) 1 = .ok true := by decide +kernel

/-- "a removed crate is never again returned by any query", part 1: `remove_crate` kills exactly the crate
and its sub-tree — afterwards none of them is valid. -/
theorem C07_remove_kills_subtree (s : Schema) (ops : List Op) (c y : Id)
    (hy : y = c ∨ (absForest (run s Db.empty ops)).isAncestor c y = true) :
    crateIsValid (step s (run s Db.empty ops) (.removeCrate c)).1 y = .ok false := by
  have h : Inv (run s Db.empty ops) := inv_run s ops inv_empty
  have h' : Inv (step s (run s Db.empty ops) (.removeCrate c)).1 := (step_ok s h _).1
  rw [isValid_false_iff h'.toFInv]
  have e : (step s (run s Db.empty ops) (.removeCrate c)).1 = afterRemove (run s Db.empty ops) c := by
    show (removeCrate s (run s Db.empty ops) c).1 = _
    rw [removeCrate_eq s h c]
  rw [e, mem_ids_afterRemove]
  exact fun hm => hm.2 ((sub_iff_abs h.toFInv c y).mpr hy)

/-- part 2: in every reachable state no query returns an id that is not valid — crates(), root_crates(),
parent(), children(), descendants(), crate_by_id, crates_by_name, root_crate_by_name, sub_crate_by_name. -/
theorem C07_queries_return_only_live_crates (s : Schema) (ops : List Op) (y : Id)
    (hy : crateIsValid (run s Db.empty ops) y = .ok false) :
    let db := run s Db.empty ops
    y ∉ dbCrates db ∧ y ∉ dbRootCrates db ∧ dbCrateById db y = .ok none ∧
    (∀ x, crateParent db x ≠ .ok (some y)) ∧ (∀ x, y ∉ crateChildren db x) ∧ (∀ x, y ∉ crateDescendants db x) ∧
    (∀ n, y ∉ dbCratesByName db n) ∧ (∀ n, rootCrateByName db n ≠ some y) ∧ (∀ x n, subCrateByName db x n ≠ some y) := by
  intro db
  have h : Inv db := inv_run s ops inv_empty
  have hf := h.toFInv
  have hdead : y ∉ ids db := (isValid_false_iff hf y).mp hy
  have hlive : (absForest db).live y = false := abs_live_false db hdead
  have hby : ∀ p n, y ∉ (absForest db).byParentName p n := by
    intro p n hm
    unfold Forest.Forest.byParentName at hm
    rw [abs_crates] at hm
    simp only [List.mem_map, List.mem_filter] at hm
    obtain ⟨x, ⟨⟨r, hr, rfl⟩, _⟩, rfl⟩ := hm
    exact hdead (List.mem_map_of_mem (f := (·.id)) hr)
  refine ⟨?_, ?_, ?_, ?_, ?_, ?_, ?_, ?_, ?_⟩
  · unfold dbCrates sortIds
    rw [List.mem_mergeSort]; exact hdead
  · unfold dbRootCrates sortIds
    rw [List.mem_mergeSort]
    intro hm
    simp only [List.mem_map, List.mem_filter] at hm
    obtain ⟨r, ⟨hr, _⟩, rfl⟩ := hm
    exact hdead ((hf.cplTotal _).mp (List.mem_map_of_mem (f := (·.1)) hr))
  · rw [q_crateById hf, hlive]; rfl
  · intro x hx
    rw [q_parent hf, abs_parentOf hf] at hx
    have : parentOf db x = some y := by injection hx
    exact hdead (hf.par_live ((parentOf_eq_some hf).mp this)).2
  · intro x hm
    exact hdead (hf.par_live ((mem_crateChildren db x y).mp hm)).1
  · intro x hm
    exact hdead (hf.chLive _ ((mem_crateDescendants db x y).mp hm)).2
  · intro n
    unfold dbCratesByName sortIds
    rw [List.mem_mergeSort]
    intro hm
    simp only [List.mem_map, List.mem_filter] at hm
    obtain ⟨r, ⟨hr, _⟩, rfl⟩ := hm
    exact hdead (List.mem_map_of_mem (f := (·.id)) hr)
  · intro n hx
    rw [q_rootCrateByName hf] at hx
    exact hby _ _ (lastById_mem hx)
  · intro x n hx
    rw [q_subCrateByName hf] at hx
    exact hby _ _ (lastById_mem hx)

/-- non-vacuity: after `a`, `a/b`, remove `a` both ids are invalid. -/
example : crateIsValid (run .schema_1_9_1 Db.empty [.createRoot [97], .createSub 1 [98], .removeCrate 1]) 2 = .ok false := by
  decide +kernel

/-- part 3 ("never again").

FULL STATEMENT (false of the 1.x code, see `C07_removed_never_returned_counterexample`):
  `∀ s ops ops' y, crateIsValid (run s ∅ ops) y = ok false → crateIsValid (run s ∅ (ops ++ ops')) y = ok false`
— an id that is invalid (never issued, or removed) stays invalid for ever.  The 1.x schemas allocate crate ids as
MAX(id)+1 / rowid, so the id of a removed crate with the largest id IS handed out again by a later creation, and
a handle kept from before the removal then designates the new crate (recorded finding
`v1-removed-crate-id-reissued`; not locally repairable: it is how the Engine 1.x schema allocates ids).

PROVED (the honest suffix form): an invalid id stays invalid, and is returned by no query, after every
continuation in which no creation reports that very id — `reissues s db ops' y = false` is the explicit decidable
restriction (executable: `EngineModel.Api.CratesV1.reissues`). -/
theorem C07_removed_never_returned_partial (s : Schema) (ops ops' : List Op) (y : Id)
    (hy : crateIsValid (run s Db.empty ops) y = .ok false)
    (hno : reissues s (run s Db.empty ops) ops' y = false) :
    crateIsValid (run s Db.empty (ops ++ ops')) y = .ok false := by
  have h : Inv (run s Db.empty ops) := inv_run s ops inv_empty
  have h' : Inv (run s Db.empty (ops ++ ops')) := inv_run s _ inv_empty
  rw [isValid_false_iff h'.toFInv, run_append]
  exact dead_suffix s y ops' h ((isValid_false_iff h.toFInv y).mp hy) hno

/-- non-vacuity: crate 1 was removed and the continuation (create `b` under the surviving root 2, rename it,
remove it) never reports id 1. -/
example : crateIsValid (run .schema_1_9_1 Db.empty [.createRoot [97], .createRoot [98], .removeCrate 1]) 1 = .ok false ∧
    reissues .schema_1_9_1 (run .schema_1_9_1 Db.empty [.createRoot [97], .createRoot [98], .removeCrate 1])
      [.createSub 2 [99], .rename 3 [100], .removeCrate 3] 1 = false := by
  decide +kernel

/-- The full statement is false of the code (and therefore of the Model), on both allocation rules: create `a`
(id 1), remove it — id 1 is invalid — create `b`: id 1 is valid again. -/
theorem C07_removed_never_returned_counterexample :
    (crateIsValid (run .schema_1_6_0 Db.empty [.createRoot [97], .removeCrate 1]) 1 = .ok false ∧
     (step .schema_1_6_0 (run .schema_1_6_0 Db.empty [.createRoot [97], .removeCrate 1]) (.createRoot [98])).2 = .ok (.id 1) ∧
     crateIsValid (run .schema_1_6_0 Db.empty ([.createRoot [97], .removeCrate 1] ++ [.createRoot [98]])) 1 = .ok true) ∧
    (crateIsValid (run .schema_1_18_0_os Db.empty [.createRoot [97], .removeCrate 1]) 1 = .ok false ∧
     (step .schema_1_18_0_os (run .schema_1_18_0_os Db.empty [.createRoot [97], .removeCrate 1]) (.createRoot [98])).2 = .ok (.id 1) ∧
     crateIsValid (run .schema_1_18_0_os Db.empty ([.createRoot [97], .removeCrate 1] ++ [.createRoot [98]])) 1 = .ok true) := by
  decide +kernel

/-! ### from any well-formed state (a loaded library), not only from the empty one -/

/-- One step from ANY raw state that passes the executable check `WfRaw` (= satisfies the invariant,
`C11_wfRaw_iff_invariant`): the state after is well-formed again, the call is not `ub`, its outcome class is one the
Spec allows and `absForest` commutes with it. -/
theorem C07_step_from_wellformed (s : Schema) (db : Db) (hw : WfRaw db = true) (op : Op) :
    WfRaw (step s db op).1 = true ∧ (step s db op).2.isUb = false ∧
    forestNext (absForest db) op (step s db op).2 = some (absForest (step s db op).1) := by
  obtain ⟨h1, h2, h3⟩ := step_ok s (inv_of_wfRaw hw) op
  exact ⟨wfRaw_of_inv h1, h2, h3⟩

/-- Whole histories from any well-formed state: well-formed at the end, and the Spec — started on the forest the
raw rows describe and told only the outcomes — ends in the forest the final rows describe. -/
theorem C07_refines_from_wellformed (s : Schema) (db : Db) (hw : WfRaw db = true) (ops : List Op) :
    WfRaw (run s db ops) = true ∧ forestTrace s db (absForest db) ops = some (absForest (run s db ops)) :=
  ⟨wfRaw_of_inv (inv_run s ops (inv_of_wfRaw hw)), forestTrace_run s ops (inv_of_wfRaw hw)⟩

/-- … and on every well-formed state every structural query equals the Spec's query on the forest the rows describe. -/
theorem C07_queries_agree_on_wellformed (db : Db) (hw : WfRaw db = true) :
    let f := absForest db
    dbCrates db = Forest.sortIds f.ids ∧ f.ids.Nodup ∧
    dbRootCrates db = Forest.sortIds f.roots ∧
    (∀ c, crateIsValid db c = .ok (f.live c)) ∧
    (∀ c, dbCrateById db c = .ok (if f.live c then some c else none)) ∧
    (∀ c, crateName db c = match f.nameOf c with | some n => .ok n | none => .throw exCrateDeleted) ∧
    (∀ c, crateParent db c = .ok (f.parentOf c)) ∧
    (∀ c, sortIds (crateChildren db c) = Forest.sortIds (f.children c)) ∧
    (∀ c, sortIds (crateDescendants db c) = Forest.sortIds (f.descendants c)) ∧
    (∀ n, dbCratesByName db n = Forest.sortIds (f.byName n)) ∧
    (∀ n, rootCrateByName db n = lastById (f.byParentName none n)) ∧
    (∀ c n, subCrateByName db c n = lastById (f.byParentName (some c) n)) := by
  intro f
  have hf := (inv_of_wfRaw hw).toFInv
  refine ⟨q_crates db, ?_, q_roots hf, q_isValid hf, q_crateById hf, q_name hf, q_parent hf, q_children hf,
    q_descendants hf, q_cratesByName db, q_rootCrateByName hf, q_subCrateByName hf⟩
  show (absForest db).ids.Nodup
  rw [abs_ids]; exact hf.idsNodup

/-- non-vacuity: a well-formed raw state given directly (not produced by `run`). -/
example : WfRaw ⟨[⟨5, [97], [97, 59]⟩, ⟨9, [98], [97, 59, 98, 59]⟩], [(5, 5), (9, 5)], [(5, 9)], [], [], 0⟩ = true := by
  decide +kernel

end EngineModel.Properties.C07V1
