/-
C06, schema 1.x — the acceptance side and the headline clause.

`Properties/C06V1.lean` proves what a setter does WHEN it returns normally.  This file proves WHICH
calls return normally, removes the silent skipping of undefined steps from the history statement, lets
the Spec side decide the whole history, and states the property's first clause literally:
"after any sequence of single-field setter calls on tracks, each getter returns the value last set for
its field (under the same normalisation as a snapshot)".

Definitions (EngineModel/TracksV1/Accept.lean): `FloatLaw o` (the laws of IEEE doubles assumed of the
opaque double arithmetic), `Clean` / `DbClean` (rows as `create_track` / `update` build them from
NaN-free snapshots and as every setter leaves them: `Inv` + every blob passes the decode-after-encode
guard), `acceptsRow` / `accepts` (the explicit guards of the C++ setters), `dbRunStrict` (a history
whose outcome is `ub` as soon as one call is undefined), `Spec.Lib` / `Spec.callAccepted` /
`Spec.stepCall` / `Spec.runCalls` (the history on "snapshot + is-analysed flag per track"),
`absDb` (Proofs/TracksV1AcceptDb.lean: what the Spec sees of a database).
-/
import Proofs.TracksV1AcceptHist
import Proofs.TracksV1Link
import Properties.C06V1

namespace EngineModel.Properties.C06V1

open EngineModel EngineModel.TracksV1
open Fl (FOps)

/-- **Acceptance, one track.**  On rows as the library builds them, a setter returns normally exactly
when its explicit guard holds: the PerformanceData row exists (blob setters), slot index 0..7, at most
eight cues / loops, every label 1..255 bytes, no (start) offset equal to the reserved −1.0 or NaN, a
grid the format can hold, no NaN for average loudness / main cue / sample rate.  All other setters
always return normally. -/
theorem v1_C06_accepts_row (o : FOps) (hl : FloatLaw o) (r : TrackRows) (hc : Clean r = true) (f : Field) (v : f.ty) :
    acceptsRow r f v = true ↔ ∃ r', set o r f v = .ok r' :=
  acceptsRow_iff o r ((clean_iff r).mp hc) hl f v

/-- **Acceptance, database.**  `accepts d id f v` — the track exists, the guard of the setter holds on its
rows, and (for `set_relative_path`, from 1.11.1) no other track holds the path — decides whether the
call returns normally. -/
theorem v1_C06_accepts (o : FOps) (hl : FloatLaw o) (d : Db) (hc : DbClean d) (id : Int) (f : Field) (v : f.ty) :
    accepts d id f v = true ↔ ∃ d', dbSet o d id f v = .ok d' :=
  accepts_iff o d hc hl id f v

/-- A call that the guard refuses throws (never `ok`, never `ub`): with the theorem above, the outcome of
every setter call on a clean database is decided by `accepts`. -/
theorem v1_C06_refused_throws (o : FOps) (hl : FloatLaw o) (d : Db) (hc : DbClean d) (id : Int) (f : Field) (v : f.ty)
    (h : accepts d id f v = false) : ∃ e, dbSet o d id f v = .throw e := by
  cases hs : dbSet o d id f v with
  | ok d' =>
    have := (accepts_iff o d hc hl id f v).mpr ⟨d', hs⟩
    rw [h] at this; cases this
  | throw e => exact ⟨e, rfl⟩
  | ub u => exact absurd hs (dbSet_defined o hl.ceil d id f v u)

/-- What a setter accepts the Spec accepts too (the converse is false, see the counterexample). -/
theorem v1_C06_accepts_spec (o : FOps) (hl : FloatLaw o) (d : Db) (hc : DbClean d) (id : Int) (f : Field) (v : f.ty)
    (hfin : Spec.finiteArg f v = true) (h : accepts d id f v = true) : (Spec.normField f v).isSome = true := by
  obtain ⟨d', hs⟩ := (accepts_iff o d hc hl id f v).mp h
  obtain ⟨w, hw, _⟩ := v1_C06_db_get_set o d d' id f v (dbClean_inv d hc) hfin hs
  rw [hw]; rfl

/-- **`DbClean` is the invariant of the modelled library**: it holds of the empty database and is kept by
`create_track` / `update` from a snapshot without NaN, by every setter call (whatever the value) and by
`remove_track`. -/
theorem v1_C06_clean_db (o : FOps) (hl : FloatLaw o) (d : Db) (hc : DbClean d) :
    DbClean ⟨d.schema, []⟩ ∧
    (∀ x d' id, Spec.NoNaN x = true → dbCreate o d x = .ok (d', id) → DbClean d') ∧
    (∀ x d' id, Spec.NoNaN x = true → dbUpdate o d id x = .ok d' → DbClean d') ∧
    (∀ id f v d', dbSet o d id f v = .ok d' → DbClean d') ∧
    (∀ id, DbClean (dbRemove d id)) ∧ DbInv d := by
  refine ⟨?_, ?_, ?_, ?_, ?_, dbClean_inv d hc⟩
  · intro id r h; cases h
  · intro x d' id hn h; exact dbCreate_clean o hl d d' x id hc hn h
  · intro x d' id hn h; exact dbUpdate_clean o hl d d' x id hc hn h
  · intro id f v d' h; exact dbSet_clean o d d' id f v hc h
  · intro id; exact dbRemove_clean d id hc

/-- **No step of any history is undefined** (given `CeilInRange`, the one float law `set_bpm` needs):
the run whose outcome would be `ub` at the first undefined call returns normally, and is the run of
`v1_C06_history` (which therefore never skipped an undefined step). -/
theorem v1_C06_history_no_ub (o : FOps) (hc : CeilInRange o) (d : Db) (h : List SetOp) :
    dbRunStrict o d h = .ok (dbRun o d h) :=
  dbRunStrict_eq o hc h d

/-- **The Spec decides the history, in both directions.**  From a clean database, for every finite history
of setter calls over any number of tracks: the calls that return normally are exactly those the Spec
replay accepts (`Spec.callAccepted` on the abstract state reached so far), and what the Spec sees of the
final database — every track's snapshot and is-analysed flag — is the result of the Spec replay, in which
an accepted call stores `Spec.normField` of its argument in its field and nothing else, and a refused call
changes nothing.  The database stays clean. -/
theorem v1_C06_history_decided (o : FOps) (hl : FloatLaw o) (d : Db) (h : List SetOp) (hc : DbClean d)
    (hfin : ∀ op ∈ h, Spec.finiteArg op.f op.v = true) :
    absDb o (dbRun o d h).1 = (Spec.runCalls (absDb o d) h).1 ∧
    (dbRun o d h).2 = (Spec.runCalls (absDb o d) h).2 ∧
    DbClean (dbRun o d h).1 := by
  obtain ⟨h1, h2⟩ := dbRun_abs o hl h d hc hfin
  exact ⟨h1, h2, dbRun_clean o h d hc⟩

/-- The abstraction used above is the public view: the Spec's track state is the track's `snapshot()`. -/
theorem v1_C06_abs_is_snapshot (o : FOps) (d : Db) (hinv : DbInv d) (id : Int) (r : TrackRows)
    (hr : d.rows id = some r) :
    ∃ t, (absDb o d).find id = some t ∧ dbSnap o d id = .ok t.snap ∧ t.analysed = r.perf.isSome := by
  refine ⟨absTrack o d.schema r, ?_, ?_, rfl⟩
  · rw [absDb_find, hr]; rfl
  · unfold dbSnap; rw [hr]
    exact readSnap_of_inv o d.schema r ((inv_iff r).mp (hinv _ _ hr))

/-- **Each getter returns the value last set for its field.**  Let a history be `h₁`, then the call
`set_f(v)` on track `id`, then `h₂`.  If that call returned normally and no call of `h₂` that returned
normally targets field `f` of track `id` or a field overlapping it (`Spec.independent g f` fails only for
`g = f` and for a slot and the list holding it), then after the whole history getter `f` of track `id`
returns `Spec.normField f v` — whatever else happened in `h₁` and `h₂` on this or any other track. -/
theorem v1_C06_value_last_set (o : FOps) (d : Db) (h₁ h₂ : List SetOp) (id : Int) (f : Field) (v : f.ty)
    (hinv : DbInv d) (hfin₁ : ∀ op ∈ h₁, Spec.finiteArg op.f op.v = true) (hfinv : Spec.finiteArg f v = true)
    (hfin₂ : ∀ op ∈ h₂, Spec.finiteArg op.f op.v = true)
    (d₂ : Db) (hacc : dbSet o (dbRun o d h₁).1 id f v = .ok d₂)
    (hlater : ∀ e ∈ (dbRun o d₂ h₂).2, e.2 = true → e.1.id = id → Spec.independent e.1.f f = true) :
    ∃ w, Spec.normField f v = some w ∧ dbGet o (dbRun o d (h₁ ++ ⟨id, f, v⟩ :: h₂)).1 id f = .ok w :=
  value_last_set o d h₁ h₂ id f v hinv hfin₁ hfinv hfin₂ d₂ hacc hlater

/-- The same with every hypothesis decided on the Spec side: the call is accepted by the Spec replay and
the Spec replay accepts no later call on field `f` (or an overlapping one) of track `id`. -/
theorem v1_C06_value_last_set_spec (o : FOps) (hl : FloatLaw o) (d : Db) (h₁ h₂ : List SetOp) (op : SetOp)
    (hc : DbClean d) (hfin : ∀ op' ∈ h₁ ++ op :: h₂, Spec.finiteArg op'.f op'.v = true)
    (hacc : Spec.callAccepted (Spec.runCalls (absDb o d) h₁).1 op = true)
    (hlater : ∀ e ∈ (Spec.runCalls (Spec.stepCall (Spec.runCalls (absDb o d) h₁).1 op) h₂).2,
      e.2 = true → e.1.id = op.id → Spec.independent e.1.f op.f = true) :
    ∃ w, Spec.normField op.f op.v = some w ∧ dbGet o (dbRun o d (h₁ ++ op :: h₂)).1 op.id op.f = .ok w := by
  have hfin₁ : ∀ op' ∈ h₁, Spec.finiteArg op'.f op'.v = true :=
    fun op' h' => hfin op' (List.mem_append_left _ h')
  have hfinv : Spec.finiteArg op.f op.v = true := hfin op (List.mem_append_right _ (List.mem_cons_self ..))
  have hfin₂ : ∀ op' ∈ h₂, Spec.finiteArg op'.f op'.v = true :=
    fun op' h' => hfin op' (List.mem_append_right _ (List.mem_cons_of_mem _ h'))
  obtain ⟨a1, _, c1⟩ := v1_C06_history_decided o hl d h₁ hc hfin₁
  rw [← a1, callAccepted_abs] at hacc
  obtain ⟨d₂, hd₂⟩ := (accepts_iff o _ c1 hl op.id op.f op.v).mp hacc
  have hca : Spec.callAccepted (absDb o (dbRun o d h₁).1) op = true := by rw [callAccepted_abs]; exact hacc
  have habs := dbSet_abs o _ d₂ op (dbClean_inv _ c1) hfinv hd₂ hca
  have c2 : DbClean d₂ := dbSet_clean o _ d₂ op.id op.f op.v c1 hd₂
  obtain ⟨_, t2, _⟩ := v1_C06_history_decided o hl d₂ h₂ c2 hfin₂
  rw [← a1, ← habs, ← t2] at hlater
  exact value_last_set o d h₁ h₂ op.id op.f op.v (dbClean_inv d hc) hfin₁ hfinv hfin₂ d₂ hd₂ hlater

/-- The setters are stricter than the Spec (recorded, not a defect — the call throws and writes nothing):
a cue whose offset is the reserved −1.0 is an "empty slot" for the snapshot path and for `Spec.normField`,
but `set_hot_cue_at` refuses it.  (Replayed on the real library by the tie: `logic_error`.) -/
theorem v1_C06_setter_stricter_counterexample :
    ∃ (r : TrackRows) (f : Field) (v : f.ty), Clean r = true ∧ r.perf.isSome = true ∧
      (Spec.normField f v).isSome = true ∧ acceptsRow r f v = false :=
  ⟨exRows, .hotCueAt 0, some ⟨[97], F64.negOne, ⟨0, 0, 0, 0⟩⟩, by decide +kernel, by decide +kernel, by decide,
    by decide +kernel⟩

/-! ### the two normalisations (C01 `normFields` on a snapshot, C06 `normField` on a setter argument) -/

/-- **"Under the same normalisation as a snapshot".**  For a snapshot that `create_track` / `update` must
accept, every value it holds — each field that has a setter (`Spec.fieldOf x f`), and each cue / loop
slot — is acceptable to that setter's Spec, and `Spec.normField` of it is exactly what `Spec.normFields`
puts into that field of the written snapshot. -/
theorem v1_C06_normField_normFields (s : Schema) (x : Snap) (ha : Spec.accepted x = true) (f : Field) (v : f.ty)
    (hv : Spec.fieldOf x f = some v) :
    ∃ w, Spec.normField f v = some w ∧ Spec.fieldOf (Spec.normFields s x) f = some w :=
  normField_fieldOf s x ha f v hv

/-- **Where the entry points differ.**  The snapshot path accepts exactly the snapshots that name a path,
whose cue list, loop list and beat grid are acceptable to the setter Spec, and that satisfy the one
cross-field condition `Spec.waveformStorable` (a waveform needs a non-zero sample count and rate; every
other field is acceptable to both).  A single-field setter cannot depend on other fields ("each getter
returns the value last set for its field"), so `set_waveform` has no such condition. -/
theorem v1_C06_accepted_iff_fields (x : Snap) :
    Spec.accepted x = true ↔
      (x.relativePath.isSome = true ∧ (Spec.normField .hotCues x.hotCues).isSome = true ∧
       (Spec.normField .loops x.loops).isSome = true ∧ (Spec.normField .beatgrid x.beatgrid).isSome = true ∧
       Spec.waveformStorable x = true) :=
  accepted_iff_fields x

def exMinSnap : Snap := { Snap.empty with relativePath := some [97, 46, 98] }
def exMinRows : TrackRows := (writeSnap exOps .s1_6_0 exMinSnap none).toOption.getD blankRows
def exWave : List Impl.V1.Entry := [⟨1, 2, 3, 4, 5, 6⟩]
def exAfterWave : TrackRows := (set exOps exMinRows .waveform exWave).toOption.getD blankRows

/-- The difference is real and reachable: on a clean track without sample count `set_waveform` returns
normally and the getter answers the waveform (C06 holds); the track's snapshot is then one the snapshot
path rejects, so `update(snapshot())` on that track throws `invalid_track_snapshot` — an exception, not a
corruption (C01's fixed-point clause speaks of read-backs of snapshot WRITES; replayed by the tie). -/
theorem v1_C06_waveform_entry_points_counterexample :
    Clean exMinRows = true ∧ (set exOps exMinRows .waveform exWave).isOk = true ∧
    (readSnap exOps .s1_6_0 exAfterWave).toOption.map (·.waveform) = some exWave ∧
    (readSnap exOps .s1_6_0 exAfterWave).toOption.map Spec.accepted = some false ∧
    (readSnap exOps .s1_6_0 exAfterWave).toOption.map
      (fun y => exThrown (writeSnap exOps .s1_6_0 y (some exAfterWave))) = some (some (.dj "invalid_track_snapshot")) := by
  decide +kernel

/-! ### non-vacuity -/

example : FloatLaw exOps :=
  ⟨fun b h => Fl.toI64_some_of_absLt63 b h, fun n => by unfold exOps; simp only; split <;> decide,
   fun n h _ => by unfold exOps; simp only; rw [if_neg (by omega)]; decide,
   fun _ => by show F64.isNaN 0 = false; decide, fun _ => by show F64.isNaN 0 = false; decide⟩

theorem exDb_clean : DbClean exDb := by
  have hall : exDb.tracks.all (fun e => Clean e.2) = true := by decide +kernel
  intro id r hr
  have hm := aget_mem _ _ _ hr
  exact List.all_eq_true.mp hall _ hm

/-- accepted and refused calls on the example database, each decided by `accepts` -/
example : accepts exDb 1 .rating (some 250) = true ∧ accepts exDb 1 (.hotCueAt 8) none = false ∧
    accepts exDb 2 (.hotCueAt 7) (some exCue) = true ∧
    accepts exDb 2 .relativePath [97, 47, 49, 46, 109, 112, 51] = false ∧
    accepts exDb 1 (.loopAt 0) (some ⟨[], 0, 0, ⟨0, 0, 0, 0⟩⟩) = false ∧
    accepts exDb 2 .beatgrid [⟨0, 0⟩] = false ∧ accepts exDb 3 .title none = false ∧
    accepts exDb 1 .averageLoudness (some 0x7ff8000000000000) = false := by decide +kernel
/-- the Spec replay of the example history accepts exactly the calls that `dbRun` reports as returned normally -/
example : (Spec.runCalls (absDb exOps exDb) exHist).2.map (·.2) =
    [true, true, false, true, false, false, true, true, true, false, true, false] := by decide +kernel
example : (dbRunStrict exOps exDb exHist).isOk = true := by decide +kernel
/-- value last set: `rating` of track 1 is set to 250 (normalised 100) first and to `none` at the end;
`duration` is set once in the middle and survives the rest of the history -/
def exDbGetDuration (d : Db) : Res (Option UInt64) := dbGet exOps d 1 .duration
def exDbGetRating (d : Db) : Res (Option UInt32) := dbGet exOps d 1 .rating
example : exDbGetDuration (dbRun exOps exDb exHist).1 = .ok (some 61000) := by decide +kernel
example : exDbGetRating (dbRun exOps exDb exHist).1 = .ok none := by decide +kernel
example : exDbGetRating (dbRun exOps exDb (exHist.take 4)).1 = .ok (some 100) := by decide +kernel

end EngineModel.Properties.C06V1
