/-
C14, the static route — every public mutating entry point, as the source is written, can only issue atomic
statement shapes.

`EngineModel.Gen.SqlSites` (regenerated from clang's typed AST by tools/tr_sqlsites.py on every run) gives, for every
public entry point of the engine implementation, its skeleton: SQL statement sites (read / write), the
`util::sqlite_transaction` scopes, `commit()` calls and the calls into the rest of the library, resolved
transitively.  `Spec/SqlSites.lean` gives skeletons their meaning (`Run`: the event traces of a call — any branch, any
loop count, stopped anywhere by an exception or an early return; `conc`: events → statement kinds, the destructor of a
scope issuing ROLLBACK iff `commit()` has not completed) and the decidable predicate `staticAtomic` (abstract
interpretation of the monitor of `Txn.atomicShape`).

Full statement proved here: for EVERY mutating entry point, EVERY trace of its skeleton is an atomic shape, hence (the
existing transaction theory) a fault at ANY statement position of ANY such call raises and leaves the database exactly
as it was.  What is trusted: the AST → skeleton mapping (design/sqlsites.md).
-/
import EngineModel.Gen.SqlSites
import Proofs.SqlSites
import Proofs.Stmts

namespace EngineModel.Properties.C14Sites
open EngineModel.Spec.Txn hiding Ev
open EngineModel.Spec.SqlSites EngineModel.Proofs.SqlSites

/-- **Soundness of the static predicate** against `Spec/Txn.lean`: an accepted skeleton has only atomic shapes
among its traces (no bound on loop counts or trace length). -/
theorem C14_sites_sound (sk : Sk) (h : staticAtomic sk = true) (evs : List Ev) (f : Bool) (hr : Run sk evs f) :
    atomicShape (conc 0 evs) = true :=
  staticAtomic_sound sk h hr

/-- … hence all-or-nothing at every fault position: any concrete statement sequence (any write functions, any
database type) whose kinds are a trace of an accepted skeleton raises under a fault at any position `k` inside the
call and leaves the connection at rest on exactly the prior database. -/
theorem C14_sites_all_or_nothing {α : Type} (sk : Sk) (h : staticAtomic sk = true) (evs : List Ev) (f : Bool)
    (hr : Run sk evs f) (cs : List (Cmd α)) (hk : cs.map Cmd.kind = conc 0 evs) (k : Nat) (auto : Bool) (db : α)
    (hlt : k < countFaultable (conc 0 evs)) :
    (call (some k) auto cs db).raised = true ∧ (call (some k) auto cs db).conn = Conn.idle db := by
  have ha := staticAtomic_sound sk h hr
  rw [← hk] at ha hlt
  exact EngineModel.Proofs.Stmts.all_or_nothing cs ha k auto db hlt

/-- Entry points the current source does NOT satisfy the static predicate for, with the reason (a real multi-write
call without a scope is reported, not hidden: name + call chain).  Empty on the current tree. -/
def exceptions : List (String × String) := []

/-- **Every public mutating entry point of the current source is statically atomic** (2.x and 1.x impl classes
behind djinterop::track / crate / database, and the public 2.x table-class methods), the listed exceptions apart. -/
theorem C14_sites_all_atomic :
    ∀ e ∈ EngineModel.Gen.SqlSites.mutators, e.1 ∉ exceptions.map (·.1) → staticAtomic e.2 = true := by
  decide +kernel

/-- The table is not vacuous: well over a hundred mutating entry points, each with a reachable writing statement. -/
theorem C14_sites_coverage :
    100 ≤ (EngineModel.Gen.SqlSites.mutators.filter (fun e => !e.2.noWrite)).length ∧
    20 ≤ (EngineModel.Gen.SqlSites.mutators.filter (fun e => !e.2.noWrite && !(staticAtomic (.seq e.2 e.2)))).length := by
  decide +kernel

/-- The predicate rejects what it must: two writes outside any scope (the shape of the defects repaired by 5cd191f /
dbbedfa / 516c689), a write after the commit of a scope that wrote, a scope left without `commit()` is fine (it rolls
back), a nested scope is not. -/
theorem C14_sites_rejects :
    staticAtomic (.seqs [.w, .w]) = false ∧
    staticAtomic (.seqs [.ret .w, .ret .w]) = false ∧
    staticAtomic (.seqs [.scope (.seqs [.w, .c]), .w]) = false ∧
    staticAtomic (.star .w) = false ∧
    staticAtomic (.scope (.scope .w)) = false ∧
    staticAtomic (.seqs [.w, .scope (.seqs [.c])]) = false ∧
    staticAtomic (.scope (.seqs [.w, .w])) = true ∧
    staticAtomic (.scope (.seqs [.r, .star (.alts [.w, .r]), .alts [.w, .eps], .c])) = true ∧
    staticAtomic (.seqs [.r, .alts [.w, .eps], .star .r]) = true := by
  decide +kernel

/-- … and a rejected skeleton really has a non-atomic trace: `[write, write]`, on which a fault at the second
statement leaves the first one durable. -/
theorem C14_sites_unscoped_counterexample :
    Run (.seqs [.w, .w]) [.write, .write] false ∧ atomicShape (conc 0 [.write, .write]) = false ∧
    (call (some 1) false (incCmds (conc 0 [.write, .write])) 0).raised = true ∧
    (call (some 1) false (incCmds (conc 0 [.write, .write])) 0).conn.committed = 1 := by
  refine ⟨?_, by decide, by decide, by decide⟩
  exact Run.seqN (Run.ev .write) (Run.ev .write)

/-! ### non-vacuity -/

-- the hypotheses of `C14_sites_sound` / `C14_sites_all_or_nothing` are satisfiable with a non-trivial call:
-- the skeleton of 2.x `set_bpm`, its complete trace, and the trace cut by an exception after the first UPDATE
example : staticAtomic (.scope (.seqs [.ret .w, .ret .w, .c])) = true := by decide
example : Run (.scope (.seq (.ret .w) (.seq (.ret .w) .c))) [.scopeOpen, .write, .write, .commit, .scopeClose] false := by
  have h : Run (.seq (.ret .w) (.seq (.ret .w) .c)) ([.write] ++ ([.write] ++ [.commit])) false :=
    Run.seqN (Run.ret (Run.ev .write)) (Run.seqN (Run.ret (Run.ev .write)) (Run.ev .commit))
  exact Run.scope h
example : Run (.scope (.seq (.ret .w) (.seq (.ret .w) .c))) [.scopeOpen, .write, .scopeClose] true := by
  have h : Run (.seq (.ret .w) (.seq (.ret .w) .c)) ([.write] ++ []) true :=
    Run.seqN (Run.ret (Run.ev .write)) (Run.abort _)
  exact Run.scope h
example : conc 0 [.scopeOpen, .write, .write, .commit, .scopeClose] = [.begin, .write, .write, .commit] := by decide
example : conc 0 [.scopeOpen, .write, .scopeClose] = [.begin, .write, .rollback] := by decide
example : countFaultable (conc 0 [.scopeOpen, .write, .write, .commit, .scopeClose]) = 4 := by decide

end EngineModel.Properties.C14Sites
