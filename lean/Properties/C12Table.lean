/-
C12 — the finite table, decided inside the kernel (thorough tier only; not imported by
Properties.lean: built on demand by tools/props/C12.py after it regenerated
EngineModel/Gen/SchemaFacts.lean from the libraries the real code created and from the
hydrated reference scripts).

`classes_checked` is where every distinct DDL text is lexed by the kernel (once per text and
once more for the text its class names); `table_checked` compares the catalogs on class
indices; `C12_table` lifts both to the comparison of the property, `schemaEq`, on the
catalogs as read back (`toDump`).
-/
import EngineModel.Gen.SchemaFacts
import Proofs.SchemaFacts

namespace EngineModel.Properties.C12Table
open EngineModel.Spec.SchemaDump EngineModel.Spec.SchemaFacts EngineModel.Gen.SchemaFacts

set_option maxRecDepth 1000000

theorem classes_checked : classesOk texts cls = true := by decide +kernel

theorem table_checked : tableOk cls dumps pairs = true := by decide +kernel

/-- Every created catalog equals — modulo whitespace and identifier quoting of the stored
DDL — every reference catalog of its schema version (the recorded finding excepted, see
`excluded`). -/
theorem C12_table :
    ∀ p ∈ pairs, schemaEq (toDump texts (dumpAt dumps p.1)) (toDump texts (dumpAt dumps p.2)) = true :=
  tableOk_sound classes_checked table_checked

/-- non-vacuity: the table is not empty -/
example : pairs ≠ [] := by decide +kernel

end EngineModel.Properties.C12Table
