/-
C12 — the finite table, decided inside the kernel (thorough tier only; not imported by
Properties.lean: built on demand by tools/props/C12.py after it regenerated
EngineModel/Gen/SchemaFacts.lean from the libraries the real code created and from the
hydrated reference scripts).

`classes_checked` is where every distinct DDL text is lexed by the kernel (once per text and
once more for the text its class names); `table_checked` compares the catalogs on class
indices; `C12_table` lifts both to the comparison of the property, `schemaEq`, on the
catalogs as read back (`toDump`).
-/
import EngineModel.Gen.SchemaFacts
import Proofs.SchemaFacts
import Properties.C12

namespace EngineModel.Properties.C12Table
open EngineModel.Spec.SchemaDump EngineModel.Spec.SchemaFacts EngineModel.Gen.SchemaFacts

set_option maxRecDepth 1000000

theorem classes_checked : classesOk texts cls = true := by decide +kernel

theorem table_checked : tableOk cls dumps pairs = true := by decide +kernel

/-- Every created catalog equals — modulo whitespace and identifier quoting of the stored
DDL — every reference catalog of its schema version (the recorded finding excepted, see
`excluded` and `C12_table_counterexample`). -/
theorem C12_table :
    ∀ p ∈ pairs, schemaEq (toDump texts strs (dumpAt dumps p.1)) (toDump texts strs (dumpAt dumps p.2)) = true :=
  tableOk_sound strs classes_checked table_checked

theorem witness_checked :
    (excludedWitness.all fun w => noCounterpart texts strs (dumpAt dumps w.1) (dumpAt dumps w.2.1) w.2.2) = true := by
  decide +kernel

/-- The pairs left out of `pairs` are the recorded finding, and they really differ: the
created 1.18.0-desktop catalog is NOT `schemaEq` to the ep-1.5.1 reference catalog (one
trigger is spelt differently there; the three reference dumps of that version disagree). -/
theorem C12_table_counterexample :
    ∀ w ∈ excludedWitness,
      schemaEq (toDump texts strs (dumpAt dumps w.1)) (toDump texts strs (dumpAt dumps w.2.1)) = false := by
  intro w hw
  have h := (List.all_eq_true.1 witness_checked) w hw
  unfold noCounterpart at h
  split at h
  · exact absurd h (by simp)
  · next r hr =>
    have hmem : toRow texts strs r ∈ (toDump texts strs (dumpAt dumps w.1)).master :=
      List.mem_map_of_mem (List.mem_of_getElem? hr)
    refine C12.schemaEq_detects hmem ?_
    intro r' hr'
    obtain ⟨r0, hr0, rfl⟩ := List.mem_map.1 hr'
    have := (List.all_eq_true.1 h) r0 hr0
    simpa using this

/-- What `canon` forgets beyond whitespace and identifier quoting — comments, dropped like
whitespace as SQLite's own tokenizer does — cannot matter here: no compared text contains
`--` or `/*` at all. -/
theorem texts_comment_free : textsCommentFree texts = true := by decide +kernel

/-- non-vacuity: the table is not empty -/
example : pairs ≠ [] := by decide +kernel

end EngineModel.Properties.C12Table
