/-
C05 — Decoders are safe and terminate on arbitrary bytes.

The decoders of `Impl.V2` / `Impl.V1` are written in the cursor monad of
Impl/Cursor.lean, where every primitive read past the end of the buffer, every
`ptr += n` beyond it, is the outcome `ub oob_read`; they are structurally
recursive over the embedded counts after these have been checked against the
remaining length, so termination is by construction.  `C05_*_safe` state that
no byte string of any length produces a `ub` outcome.

`zlib_uncompress` is modelled over an abstract inflate oracle
(Impl/Zlib.lean); `C05_uncompress_total` holds for every oracle that honours
the explicit call contract `Contract` (a structure parameter, not an axiom).
-/
import Proofs.ImplV2Lists
import Proofs.ZlibLoop
import Proofs.ImplV1Lists
import Proofs.ImplV1Beat
import Proofs.DecodeSteps
import Proofs.DecodeReads
import Proofs.BlobLevel

namespace EngineModel.Properties.C05
open EngineModel EngineModel.Codec EngineModel.V2 EngineModel.Impl.V2

/-! ## schema 2.x payload decoders: no undefined behaviour on any input -/

theorem C05_v2_track_safe (bs : Bytes) (u : Ub) : decodeTrack bs ≠ .ub u := by
  rw [decodeTrack_eq]; exact liftDec_never_ub _ _ _
theorem C05_v2_beat_safe (bs : Bytes) (u : Ub) : decodeBeat bs ≠ .ub u := by
  rw [decodeBeat_eq]; exact liftDec_never_ub _ _ _
/-- `hlen`: the payload is a C++ byte vector (`vector::max_size()` = 2^63 − 1).  The length test computes
`3 * (num_entries_1 + 1)` in `int64_t`, checked in the Model: this theorem says the tests in front of it
keep it in range, for every byte string a vector can hold. -/
theorem C05_v2_ovw_safe (bs : Bytes) (hlen : bs.length < maxCount) (u : Ub) : decodeOvw bs ≠ .ub u := by
  rw [decodeOvw_eq bs hlen]; exact liftDec_never_ub _ _ _
theorem C05_v2_cues_safe (bs : Bytes) (u : Ub) : decodeCues bs ≠ .ub u := by
  rw [decodeCues_eq]; exact liftDec_never_ub _ _ _
theorem C05_v2_loops_safe (bs : Bytes) (u : Ub) : decodeLoops bs ≠ .ub u := by
  rw [decodeLoops_eq]; exact liftDec_never_ub _ _ _

/-- The only exception class of the 2.x payload decoders is `invalid_argument`. -/
theorem C05_v2_throw_class (bs : Bytes) (hlen : bs.length < maxCount) (e : Exn) :
    (decodeTrack bs = .throw e ∨ decodeBeat bs = .throw e ∨ decodeOvw bs = .throw e ∨
      decodeCues bs = .throw e ∨ decodeLoops bs = .throw e) → e = .invalid_argument := by
  have key : ∀ {α} (c : Codec α) (bs : Bytes), liftDec c bs = .throw e → e = .invalid_argument := by
    intro α c bs h
    unfold liftDec at h
    split at h <;> simp at h
    exact h.symm
  rw [decodeTrack_eq, decodeBeat_eq, decodeOvw_eq bs hlen, decodeCues_eq, decodeLoops_eq]
  rintro (h | h | h | h | h) <;> exact key _ _ h

/-! ## the decompression loops -/
open EngineModel.Impl.Zlib

/-- For every inflate oracle honouring the call contract, every stream state,
every input and every fuel of at least `fuelBound` (linear in the input
length): `zlib_uncompress` returns a value or throws `system_error` /
`length_error` — no region outside the input vector is handed to `inflate()`
(`ub bad_zlib_region`) and the loops end (`ub nontermination`). -/
theorem C05_uncompress_total {σ : Type} (o : Oracle σ) (c : Contract o) (s0 : σ) (buf : Bytes)
    (fuel : Nat) (hf : fuelBound c s0 buf.length ≤ fuel) :
    (∃ out, uncompress o s0 buf.length fuel buf = .ok out) ∨
    uncompress o s0 buf.length fuel buf = .throw .system_error ∨
    uncompress o s0 buf.length fuel buf = .throw .length_or_alloc :=
  uncompress_total o c s0 buf fuel hf

theorem C05_uncompress_no_ub {σ : Type} (o : Oracle σ) (c : Contract o) (s0 : σ) (buf : Bytes)
    (fuel : Nat) (hf : fuelBound c s0 buf.length ≤ fuel) (u : Ub) :
    uncompress o s0 buf.length fuel buf ≠ .ub u := by
  rcases uncompress_total o c s0 buf fuel hf with ⟨out, h⟩ | h | h <;> rw [h] <;> simp

/-- The contract is satisfiable, and the fuel bound is explicit:
for the pass-through oracle it is `4·(n − 4) + 1`. -/
example : fuelBound copyContract () 104 = 401 := by decide

/-- The end pointer of the code before 29ec84c (`&compressed[4] + size`):
the theorem above is false of it — the first `inflate()` call already gets a
region reaching four bytes past the vector, whatever zlib does. -/
theorem C05_uncompress_old_end_counterexample {σ : Type} (o : Oracle σ) (s0 : σ) (buf : Bytes)
    (fuel : Nat) (hp : prologue buf = none) (hsmall : buf.length ≤ chunk) :
    uncompress o s0 (buf.length + 4) (fuel + 1) buf = .ub .bad_zlib_region :=
  uncompress_old_end_bad_region o s0 buf fuel hp hsmall

example : prologue [0, 0, 0, 5, 0x78, 0x9c] = none := by decide

/-- The result-level model used by the tie (`inflate` = the independent
decoder of Zlib/Inflate.lean) never yields `ub` either. -/
theorem C05_unz_safe (buf : Bytes) (u : Ub) : unz buf ≠ .ub u := by
  unfold unz
  cases hp : prologue buf with
  | some r =>
    rcases prologue_good buf r hp with ⟨out, h⟩ | h <;> simp [h]
  | none =>
    simp only
    cases EngineModel.Zlib.inflate (buf.drop 4) with
    | none => simp
    | some p => simp

/-! ## schema 1.x payload decoders: no undefined behaviour on any input

The Model decoders of `Impl.V1` read through the same cursor monad (every read past the buffer
is `ub oob_read`; the label `assign`, the `ptr += 3` / `ptr += 6` over the maximum entry are
`takeN`).  Five of them equal the Spec's verdict on every byte string (`Proofs/ImplV1*.lean`), the
beat-data decoder does so outside one explicitly characterised family; in all cases the outcome is
a value or `invalid_argument` — in particular the `runtime_error` "internal error" branches of the
C++ are unreachable. -/
section V1
open EngineModel.V1Proofs

theorem C05_v1_track_safe (bs : Bytes) (u : Ub) : Impl.V1.decodeTrack bs ≠ .ub u := by
  rw [V1Proofs.decodeTrack_eq]; exact ofOpt_never_ub _ _
theorem C05_v1_ovw_safe (bs : Bytes) (hlen : bs.length < maxCount) (u : Ub) : Impl.V1.decodeOvw bs ≠ .ub u := by
  rw [V1Proofs.decodeOvw_eq bs hlen]; exact ofOpt_never_ub _ _
theorem C05_v1_hires_safe (bs : Bytes) (hlen : bs.length < maxCount) (u : Ub) : Impl.V1.decodeHires bs ≠ .ub u := by
  rw [V1Proofs.decodeHires_eq bs hlen]; exact ofOpt_never_ub _ _
theorem C05_v1_cues_safe (bs : Bytes) (u : Ub) : Impl.V1.decodeCues bs ≠ .ub u := by
  rw [V1Proofs.decodeCues_eq]; exact ofOpt_never_ub _ _
theorem C05_v1_loops_safe (bs : Bytes) (u : Ub) : Impl.V1.decodeLoops bs ≠ .ub u := by
  rw [V1Proofs.decodeLoops_eq]; exact ofOpt_never_ub _ _
theorem C05_v1_beat_safe (bs : Bytes) (u : Ub) : Impl.V1.decodeBeat bs ≠ .ub u :=
  decodeBeat_safe bs u

/-- The only exception class of the 1.x payload decoders is `invalid_argument`. -/
theorem C05_v1_throw_class (bs : Bytes) (hlen : bs.length < maxCount) (e : Exn) :
    (Impl.V1.decodeTrack bs = .throw e ∨ Impl.V1.decodeBeat bs = .throw e ∨ Impl.V1.decodeOvw bs = .throw e ∨
      Impl.V1.decodeHires bs = .throw e ∨ Impl.V1.decodeCues bs = .throw e ∨ Impl.V1.decodeLoops bs = .throw e) →
    e = .invalid_argument := by
  rw [V1Proofs.decodeTrack_eq, V1Proofs.decodeOvw_eq bs hlen, V1Proofs.decodeHires_eq bs hlen, V1Proofs.decodeCues_eq,
    V1Proofs.decodeLoops_eq]
  rintro (h | h | h | h | h | h)
  · exact ofOpt_throw h
  · exact decodeBeat_throw bs e h
  · exact ofOpt_throw h
  · exact ofOpt_throw h
  · exact ofOpt_throw h
  · exact ofOpt_throw h

/-- The cursor monad does have `ub` outcomes (the statements are not vacuous): the unguarded loop
body of the pre-712766a loops decoder reads the label length past the end. -/
example : Cur.rd Codec.u8 [] = .ub .oob_read := rfl

end V1

/-! ## signed arithmetic never overflows

Every `int64_t` / `int` sum, difference and product of the codecs whose operands are not bounded by
their types alone is a CHECKED operation in the Model (`Chk.add64`, `Chk.mul64`, `Chk.sub32`:
`ub signed_overflow` when the exact result leaves the type): the length tests of the three waveform
decoders (`w * (n + 1)`), `24 * count` of the 1.x beat grid, and the `int` index difference of the 1.x
`encode_beatgrid`.  The `_safe` theorems above therefore include "no signed overflow"; the next theorem
states the reason: under the guards the C++ puts in front of them the checked operations are exact, i.e.
each Model function equals its reading in unbounded `Int` (`ArithZ.*Z`, Proofs/CheckedArith.lean). -/
section Arith
open EngineModel.ArithZ

theorem C05_checked_arith_exact :
    (∀ bs : Bytes, bs.length < maxCount → Impl.V2.decodeOvw bs = decodeOvwZ bs) ∧
    (∀ bs : Bytes, bs.length < maxCount → Impl.V1.decodeOvw bs = decodeWaveZ 27 3 Impl.V1.ovwEntry bs) ∧
    (∀ bs : Bytes, bs.length < maxCount → Impl.V1.decodeHires bs = decodeWaveZ 30 6 Impl.V1.hiresEntry bs) ∧
    Impl.V1.decodeGrid = decodeGrid1Z ∧
    (∀ v, Impl.V1.encodeBeat v = encodeBeatZ v) :=
  ⟨decodeOvw_eq_Z,
   fun bs h => decodeWave_eq_Z 27 3 (by omega) (by omega) (by omega) _ bs h,
   fun bs h => decodeWave_eq_Z 30 6 (by omega) (by omega) (by omega) _ bs h,
   decodeGrid1_eq_Z, encodeBeat_eq_Z⟩

/-- The 1.x beat-data encoder never overflows (nor any other `ub`): it returns bytes or throws. -/
theorem C05_v1_beat_encode_safe (v : Impl.V1.Beat) (u : Ub) : Impl.V1.encodeBeat v ≠ .ub u := by
  by_cases h : V1.gridOk v.dflt = true ∧ V1.gridOk v.adj = true
  · rw [V1Proofs.encodeBeat_ok v h.1 h.2]; simp
  · rw [V1Proofs.encodeBeat_reject v h]; simp

/-- The guards are what prevents it: without `validate_beatgrid` the `int` difference of the indices
`−2^31`, `2^31 − 1` overflows; without `count > 32768` the product `24 * 2^59` does; without
`n > (end - ptr) / w` the sum `(2^63 − 1) + 1` does. -/
theorem C05_missing_guard_overflows_counterexample :
    Impl.V1.toWireC [⟨2147483648, 0⟩, ⟨2147483647, 0x3ff0000000000000⟩] = .ub .signed_overflow ∧
    Chk.mul64 24 (Prim.s64 576460752303423488) = .ub .signed_overflow ∧
    Chk.add64 (Prim.s64 9223372036854775807) 1 = .ub .signed_overflow :=
  ⟨toWireC_overflow_counterexample, by decide, by decide⟩

/-- Operand types that bound the result by themselves: the `int64_t` difference of two `int` values
(1.x grid checks), the `int` sum of a constant and a `uint8_t` (`29 + label_length`, `22 + label_length`). -/
theorem C05_typed_arith_in_range (a b : UInt32) (l : UInt8) :
    Chk.sub64 (Prim.s32 a) (Prim.s32 b) = .ok (Prim.s32 a - Prim.s32 b) ∧
    Chk.add32 29 l.toNat = .ok (29 + (l.toNat : Int)) ∧ Chk.add32 22 l.toNat = .ok (22 + (l.toNat : Int)) :=
  ⟨sub64_s32 a b, add32_u8 29 (by omega) l, add32_u8 22 (by omega) l⟩

example : (List.replicate 27 (0 : UInt8)).length < maxCount := by decide

end Arith

/-! ## the decompression loops with a real inflate, and the blob-level decoders

`C05_uncompress_total` quantifies over every oracle with a `Contract`.  `replayOracle` is such an oracle
built from the independent Lean inflate (`Zlib.inflate`): it swallows the stream window by window, then
hands out the inflated bytes in pieces of at most `avail_out`, reporting `Z_STREAM_END` with the last
piece (a rejected stream is swallowed and never ends).  It satisfies the contract, and the LOOP model
driven by it returns exactly the result-level model `unz` the tie runs — on every blob: the loops drop,
duplicate or reorder nothing across chunk boundaries, trailing bytes, truncated and rejected streams. -/
section Blob
open EngineModel.Impl.Zlib

theorem C05_uncompress_replay_eq_unz (buf : Bytes) (fuel : Nat)
    (hf : fuelBound (replayContract (streamLen (buf.drop 4))) (replayInit (buf.drop 4)) buf.length ≤ fuel) :
    uncompress (replayOracle (streamLen (buf.drop 4))) (replayInit (buf.drop 4)) buf.length fuel buf = unz buf :=
  uncompress_replay_eq_unz buf fuel hf

/-- the fuel is explicit: inflated length + 3 · (blob length − 4) + 1 -/
theorem C05_replay_fuel (L : Option Nat) (s0 : RState) (n : Nat) :
    fuelBound (replayContract L) s0 n = s0.left.length + 3 * (n - 4) + 1 := replay_fuel L s0 n

/-- non-vacuity: a concrete stored-block stream through the loops with the replay oracle -/
example : uncompress (replayOracle (streamLen (EngineModel.Zlib.deflateStored [1, 2, 3])))
    (replayInit (EngineModel.Zlib.deflateStored [1, 2, 3])) 18 40 (EngineModel.Zlib.frame [1, 2, 3]) = .ok [1, 2, 3] := by
  decide

/-- `from_blob` / `decode` on a stored blob = decompression, then the payload decoder
(`Impl/Blob.lean`): never undefined behaviour, for all eleven kinds.  (Waveform kinds: the inflated
payload is a C++ byte vector, fewer than 2^63 bytes.) -/
theorem C05_fromBlob_safe (blob : Bytes) (u : Ub) :
    Impl.Blob.fromBlobTrack2 blob ≠ .ub u ∧ Impl.Blob.fromBlobBeat2 blob ≠ .ub u ∧
    Impl.Blob.fromBlobCues2 blob ≠ .ub u ∧ Impl.Blob.fromBlobLoops2 blob ≠ .ub u ∧
    Impl.Blob.fromBlobTrack1 blob ≠ .ub u ∧ Impl.Blob.fromBlobBeat1 blob ≠ .ub u ∧
    Impl.Blob.fromBlobCues1 blob ≠ .ub u ∧ Impl.Blob.fromBlobLoops1 blob ≠ .ub u ∧
    ((∀ p, unz blob = .ok p → p.length < maxCount) →
      Impl.Blob.fromBlobOvw2 blob ≠ .ub u ∧ Impl.Blob.fromBlobOvw1 blob ≠ .ub u ∧
      Impl.Blob.fromBlobHires1 blob ≠ .ub u) := by
  refine ⟨fromBlob_never_ub _ blob (fun p _ u => C05_v2_track_safe p u) u,
    fromBlob_never_ub _ blob (fun p _ u => C05_v2_beat_safe p u) u,
    fromBlob_never_ub _ blob (fun p _ u => C05_v2_cues_safe p u) u,
    C05_v2_loops_safe blob u,
    fromBlob_never_ub _ blob (fun p _ u => C05_v1_track_safe p u) u,
    fromBlob_never_ub _ blob (fun p _ u => C05_v1_beat_safe p u) u,
    fromBlob_never_ub _ blob (fun p _ u => C05_v1_cues_safe p u) u,
    C05_v1_loops_safe blob u, fun hp => ⟨?_, ?_, ?_⟩⟩
  · exact fromBlob_never_ub _ blob (fun p h u => C05_v2_ovw_safe p (hp p h) u) u
  · exact fromBlob_never_ub _ blob (fun p h u => C05_v1_ovw_safe p (hp p h) u) u
  · exact fromBlob_never_ub _ blob (fun p h u => C05_v1_hires_safe p (hp p h) u) u

end Blob

/-! ## step bound: no embedded count can make a decoder spin

Termination is structural (`forN` recurses on the count); the content is the bound.  `Proofs/DecodeSteps.lean`
exposes, for every count-prefixed loop, the loop inside the real decoder Model (`*_shape`: decoder =
`if guards then forN body count … else throw`), instruments `forN` with a tick per body run
(`forNTicks`, whose first component IS `forN` and whose second is `forNIters`), and bounds the total
number of loop-body executions `iters… bs` of each decoder by the input length divided by the minimum
entry size.  Each body execution performs a bounded number of primitive reads (≤ 7 for a loop entry,
≤ 4 for a cue, 4 for a marker, 3 / 6 for a waveform entry); both `decodeTrack`s and the 2.x `decodeOvw`
have no loop at all. -/
section Steps
open EngineModel.Steps

theorem C05_decode_steps (bs : Bytes) :
    itersCuesV2 bs ≤ bs.length / 13 ∧ itersLoopsV2 bs ≤ bs.length / 23 ∧ itersBeatV2 bs ≤ bs.length / 24 ∧
    itersCuesV1 bs ≤ bs.length / 13 ∧ itersLoopsV1 bs ≤ bs.length / 23 ∧ itersBeatV1 bs ≤ bs.length / 24 ∧
    itersOvwV1 bs ≤ bs.length / 3 ∧ itersHiresV1 bs ≤ bs.length / 6 :=
  ⟨decode_steps_v2_cues bs, decode_steps_v2_loops bs, decode_steps_v2_beat bs, decode_steps_v1_cues bs,
   decode_steps_v1_loops bs, decode_steps_v1_beat bs, decode_steps_v1_ovw bs, decode_steps_v1_hires bs⟩

/-- The 1.x beat-data decoder never reads more than 2 × 32768 markers, whatever the input length. -/
theorem C05_decode_steps_v1_beat_abs (bs : Bytes) : itersBeatV1 bs ≤ 65536 := decode_steps_v1_beat_abs bs

/-- The counted quantity is the loop of the real decoder: the instrumented loop returns exactly what
`forN` returns, and its tick count is `forNIters`, which never exceeds the count. -/
theorem C05_decode_steps_faithful {α} (body : Cur α) (n : Nat) (bs : Bytes) :
    (forNTicks body n bs).1 = Cur.forN body n bs ∧ (forNTicks body n bs).2 = forNIters body n bs ∧
    forNIters body n bs ≤ n :=
  ⟨forNTicks_fst body n bs, forNTicks_snd body n bs, forNIters_le body n bs⟩

/-- …and the decoders are that loop behind their guards (two instances; the others are in
Proofs/DecodeSteps.lean: `decodeCues_shape`, `decodeGrid_shape`, `decodeGrid1_shape`, …). -/
theorem C05_decode_steps_shape_v2_loops (bs : Bytes) : Impl.V2.decodeLoops bs =
    if loopsEntered bs then
      ((Cur.forN Impl.V2.decodeLoop (loopsCount bs) >>= fun ls => (do let extra ← Cur.rest; pure (ls, extra)))
        (bs.drop 8)).bind (fun p => .ok p.1)
    else .throw .invalid_argument := decodeLoops_shape bs

/-- The other decoders, likewise `if guards then (forN body count …) else throw` with the guards
(`cuesEntered`, `gridEntered`, `grid1Entered`, `waveEntered`) and counts explicit — so the `iters…` functions
bounded by `C05_decode_steps` are the loops of the decoders themselves (statements: Proofs/DecodeSteps.lean). -/
theorem C05_decode_steps_shape_v2_cues : type_of% @decodeCues_shape := @decodeCues_shape
theorem C05_decode_steps_shape_v2_grid : type_of% @decodeGrid_shape := @decodeGrid_shape
theorem C05_decode_steps_shape_v2_beat : type_of% @decodeBeat_shape := @decodeBeat_shape
theorem C05_decode_steps_shape_v1_cues : type_of% @decodeCues1_shape := @decodeCues1_shape
theorem C05_decode_steps_shape_v1_loops : type_of% @decodeLoops1_shape := @decodeLoops1_shape
theorem C05_decode_steps_shape_v1_grid : type_of% @decodeGrid1_shape := @decodeGrid1_shape
theorem C05_decode_steps_shape_v1_beat : type_of% @decodeBeat1_shape := @decodeBeat1_shape
theorem C05_decode_steps_shape_v1_ovw : type_of% @decodeOvw1_shape := @decodeOvw1_shape
theorem C05_decode_steps_shape_v1_hires : type_of% @decodeHires1_shape := @decodeHires1_shape

/-- non-vacuity: a count of 2^61 in an 8-byte loops payload is stopped by the guard, zero iterations -/
example : itersLoopsV2 [0, 0, 0, 0, 0, 0, 0, 0x20] = 0 := by decide

end Steps

/-! ## from loop-body executions to cursor reads

`Proofs/DecodeReads.lean`.  (A) Each iteration of each count-prefixed loop returns having advanced the
cursor by EXACTLY its record size, or throws `invalid_argument`, or — only when fewer bytes than one
primitive remain, which the guards of the decoders exclude (`_safe`) — is an out-of-bounds read.
(B) The eleven decoders are written once more in the cursor monad WITH a counter of primitive cursor
actions (`CurT`: one tick per `decode_uint8/int32/int64/double` call and per bulk copy; pointer
arithmetic is free; a colour / a marker is the 4 primitive calls the C++ makes); dropping the counter
gives exactly the Model decoder on every input (`C05_decode_reads_faithful`), and the counter is bounded
linearly in the input length (`C05_decode_reads`). -/
section Reads
open EngineModel.Reads

/-- (A) per iteration: exact record size, or no return. -/
theorem C05_iteration_consumes (bs : Bytes) :
    ((∃ q, Impl.V2.decodeCue bs = .ok (q, bs.drop (13 + q.label.length)) ∧ 13 + q.label.length + 17 ≤ bs.length) ∨
      Impl.V2.decodeCue bs = .throw .invalid_argument ∨ (bs = [] ∧ Impl.V2.decodeCue bs = .ub .oob_read)) ∧
    ((∃ l, Impl.V2.decodeLoop bs = .ok (l, bs.drop (23 + l.label.length)) ∧ 23 + l.label.length ≤ bs.length) ∨
      Impl.V2.decodeLoop bs = .throw .invalid_argument) ∧
    ((∃ q o, Impl.V2.decodeCue bs = .ok (q, bs.drop (13 + q.label.length)) ∧
        Impl.V1.decodeCue bs = .ok (o, bs.drop (13 + q.label.length)) ∧ 13 + q.label.length + 17 ≤ bs.length) ∨
      Impl.V1.decodeCue bs = .throw .invalid_argument ∨ (bs = [] ∧ Impl.V1.decodeCue bs = .ub .oob_read)) ∧
    ((∃ l o, Impl.V2.decodeLoop bs = .ok (l, bs.drop (23 + l.label.length)) ∧
        Impl.V1.decodeLoop bs = .ok (o, bs.drop (23 + l.label.length)) ∧ 23 + l.label.length ≤ bs.length) ∨
      Impl.V1.decodeLoop bs = .throw .invalid_argument) ∧
    ((∃ m, Cur.rd V2.marker bs = .ok (m, bs.drop 24) ∧ 24 ≤ bs.length) ∨ Cur.rd V2.marker bs = .ub .oob_read) ∧
    ((∃ e, Impl.V1.ovwEntry bs = .ok (e, bs.drop 3) ∧ 3 ≤ bs.length) ∨ Impl.V1.ovwEntry bs = .ub .oob_read) ∧
    ((∃ e, Impl.V1.hiresEntry bs = .ok (e, bs.drop 6) ∧ 6 ≤ bs.length) ∨ Impl.V1.hiresEntry bs = .ub .oob_read) :=
  ⟨decodeCue_iter bs, decodeLoop_iter bs, decodeCue1_iter bs, decodeLoop1_iter bs, marker_iter bs,
   ovwEntry_iter bs, hiresEntry_iter bs⟩

/-- (A) a completed loop has consumed exactly the sum of its record sizes and produced `n` entries. -/
theorem C05_loop_consumes_exact {α} {body : Cur α} {size : α → Nat}
    (hb : ∀ bs a r, body bs = .ok (a, r) → r = bs.drop (size a) ∧ size a ≤ bs.length)
    (n : Nat) (bs : Bytes) (l : List α) (r : Bytes) (h : Cur.forN body n bs = .ok (l, r)) :
    r = bs.drop (l.map size).sum ∧ (l.map size).sum ≤ bs.length ∧ l.length = n :=
  forN_consumes_exact hb n bs l r h

/-- non-vacuity: the quick-cue body satisfies the hypothesis with `size q = 13 + label bytes` -/
example : ∀ bs q r, Impl.V2.decodeCue bs = .ok (q, r) →
    r = bs.drop (13 + q.label.length) ∧ 13 + q.label.length ≤ bs.length := decodeCue_consumes

/-- (B) the counted decoders ARE the Model decoders: forgetting the counter gives `Impl.V2.* / Impl.V1.*`
on every byte string; likewise the loop bodies. -/
theorem C05_decode_reads_faithful (bs : Bytes) :
    (decodeTrackT bs).1 = Impl.V2.decodeTrack bs ∧ (decodeBeatT bs).1 = Impl.V2.decodeBeat bs ∧
    (decodeOvwT bs).1 = Impl.V2.decodeOvw bs ∧ (decodeCuesT bs).1 = Impl.V2.decodeCues bs ∧
    (decodeLoopsT bs).1 = Impl.V2.decodeLoops bs ∧
    (decodeTrack1T bs).1 = Impl.V1.decodeTrack bs ∧ (decodeBeat1T bs).1 = Impl.V1.decodeBeat bs ∧
    (decodeWaveT 27 3 ovwEntryT bs).1 = Impl.V1.decodeOvw bs ∧
    (decodeWaveT 30 6 hiresEntryT bs).1 = Impl.V1.decodeHires bs ∧
    (decodeCues1T bs).1 = Impl.V1.decodeCues bs ∧ (decodeLoops1T bs).1 = Impl.V1.decodeLoops bs ∧
    CurT.erase decodeCueT = Impl.V2.decodeCue ∧ CurT.erase decodeLoopT = Impl.V2.decodeLoop ∧
    CurT.erase decodeCue1T = Impl.V1.decodeCue ∧ CurT.erase decodeLoop1T = Impl.V1.decodeLoop ∧
    CurT.erase rdMarkerT = Cur.rd V2.marker ∧ CurT.erase rdColorT = Cur.rd V2.color ∧
    CurT.erase ovwEntryT = Impl.V1.ovwEntry ∧ CurT.erase hiresEntryT = Impl.V1.hiresEntry ∧
    CurT.erase decodeGridT = Impl.V2.decodeGrid ∧ CurT.erase decodeGrid1T = Impl.V1.decodeGrid := by
  refine ⟨decodeTrackT_fst bs, decodeBeatT_fst bs, decodeOvwT_fst bs, decodeCuesT_fst bs, decodeLoopsT_fst bs,
    decodeTrack1T_fst bs, decodeBeat1T_fst bs, ?_, ?_, decodeCues1T_fst bs, decodeLoops1T_fst bs,
    erase_decodeCueT, erase_decodeLoopT, erase_decodeCue1T, erase_decodeLoop1T, erase_rdMarkerT, erase_rdColorT,
    erase_ovwEntryT, erase_hiresEntryT, erase_decodeGridT, erase_decodeGrid1T⟩
  · rw [decodeWaveT_fst, erase_ovwEntryT]; rfl
  · rw [decodeWaveT_fst, erase_hiresEntryT]; rfl

/-- (B) per executed iteration: at most 7 primitive cursor actions for a quick cue (length byte, label copy,
offset, four colour bytes), 10 for a loop, 4 for a beat-grid marker, 3 / 6 for a waveform entry. -/
theorem C05_iteration_reads (bs : Bytes) :
    CurT.ticks decodeCueT bs ≤ 7 ∧ CurT.ticks decodeLoopT bs ≤ 10 ∧ CurT.ticks decodeCue1T bs ≤ 7 ∧
    CurT.ticks decodeLoop1T bs ≤ 10 ∧ CurT.ticks rdMarkerT bs ≤ 4 ∧ CurT.ticks ovwEntryT bs ≤ 3 ∧
    CurT.ticks hiresEntryT bs ≤ 6 :=
  ⟨ticks_decodeCueT_le bs, ticks_decodeLoopT_le bs, ticks_decodeCue1T_le bs, ticks_decodeLoop1T_le bs,
   ticks_rdMarkerT_le bs, ticks_ovwEntryT_le bs, ticks_hiresEntryT_le bs⟩

/-- (B) **cursor reads of every decoder are linear in the input length**, for every byte string: the second
component of the counted decoder is the number of primitive cursor actions the Model decoder performs.
(1.x beat data: the trailing `while (ptr != end)` zero check reads each remaining byte once.) -/
theorem C05_decode_reads (bs : Bytes) :
    (decodeTrackT bs).2 ≤ 7 ∧ (decodeOvwT bs).2 ≤ 6 ∧ (decodeTrack1T bs).2 ≤ 4 ∧
    (decodeCuesT bs).2 ≤ 7 * (bs.length / 13) + 5 ∧ (decodeLoopsT bs).2 ≤ 10 * (bs.length / 23) + 2 ∧
    (decodeBeatT bs).2 ≤ 4 * (bs.length / 24) + 6 ∧
    (decodeCues1T bs).2 ≤ 7 * (bs.length / 13) + 4 ∧ (decodeLoops1T bs).2 ≤ 10 * (bs.length / 23) + 1 ∧
    (decodeBeat1T bs).2 ≤ 4 * (bs.length / 24) + bs.length + 5 ∧
    (decodeWaveT 27 3 ovwEntryT bs).2 ≤ 3 * (bs.length / 3) + 4 ∧
    (decodeWaveT 30 6 hiresEntryT bs).2 ≤ 6 * (bs.length / 6) + 4 :=
  ⟨decodeTrackT_reads bs, decodeOvwT_reads bs, decodeTrack1T_reads bs, decodeCuesT_reads bs, decodeLoopsT_reads bs,
   decodeBeatT_reads bs, decodeCues1T_reads bs, decodeLoops1T_reads bs, decodeBeat1T_reads bs,
   decodeWaveT_reads 27 3 (by omega) (by omega) ovwEntryT 3 ticks_ovwEntryT_le bs,
   decodeWaveT_reads 30 6 (by omega) (by omega) hiresEntryT 6 ticks_hiresEntryT_le bs⟩

/-- non-vacuity: the counter does count — a valid 2.x loops payload with one entry costs 1 + 10 + 1 reads,
and an absurd count costs one read (the count itself) before the guard rejects it. -/
example : (decodeLoopsT ([1, 0, 0, 0, 0, 0, 0, 0] ++ [0] ++ List.replicate 22 7)).2 = 12 := by decide
example : (decodeLoopsT [0, 0, 0, 0, 0, 0, 0, 0x20]).2 = 1 := by decide

end Reads

end EngineModel.Properties.C05
