/-
C08 — Crate contents are exactly the tracks added and not removed.   Whole-library part for schema 1.x (composite-v1).

The crates package (Properties/C08V1.lean) proves the membership clauses over a model that knows a track only as
`(id, path present)`; "live track" there means a row of that key table.  Here the same clauses are stated on the composite
model `EngineModel/Lib/V1.lean`, where a track is ALSO its Track / MetaData / MetaDataInteger / PerformanceData rows and
`create_track`, `update`, the 26 setters, `remove_track`, the crate calls and every observer interleave in one history:

* `C08_lib1_crates_projection` — the crate tables of the composite run are the crates package's run over the crate
  operations the history performs; every theorem of C07 / C08 / C11 (1.x) therefore holds of the composite;
* `C08_lib1_refines` — `crate.tracks()`, `track.containing_crates()`, `database.tracks()`, `database.crates()` of the
  composite = the membership Spec's relation, converse, live tracks, live crates;
* `C08_lib1_members_are_live_tracks` — the cross-cutting clause: every member of every crate is a LIVE track in the sense
  of the track calls (its rows exist: `is_valid()` answers true, `snapshot()` does not throw `track_deleted`) and is listed
  by `tracks()`; conversely only tracks() are ever members;
* frame between the families, what `remove_track` erases, and the stale-handle clause in its honest 1.x form.
-/
import Proofs.Lib1Members
import Proofs.Lib1Autoinc
import Properties.C08V1

namespace EngineModel.Properties.C08Lib1
open EngineModel EngineModel.Lib.V1 EngineModel.Api EngineModel.Spec
open EngineModel.TracksV1 (Snap Field)
open EngineModel.TracksV1.Fl (FOps)

/-- **The crate tables of the composite run = the crates package's run** over `crOps` (the crate operations the history
performs; a `create_track` that throws performs none). -/
theorem C08_lib1_crates_projection (o : FOps) (s : VSchema) (L : Lib1) (cs : List Call) :
    (run o s L cs).cr = CratesV1.run (toDetect s) L.cr (crOps o s L cs) := run_cr o s cs L

/-- **Refinement on the composite**: for every history of calls the membership Spec, told only the outcomes of the crate
operations performed, follows it, and the four composite observers answer the Spec's relation, converse, live tracks and
live crates (sorted lists). -/
theorem C08_lib1_refines (o : FOps) (s : VSchema) (um up dir : Bytes) (cs : List Call) :
    let L0 := Lib1.empty s um up dir
    let L := run o s L0 cs
    ∃ m, CratesV1.membersTrace (toDetect s) CratesV1.Db.empty Members.empty (crOps o s L0 cs) = some m ∧
      (∀ c, (step o s L (.crateTracks c)).2 = .ok (.ids (CratesV1.sortIds (Members.tracksOf m c)))) ∧
      (∀ t, (step o s L (.containingCrates t)).2 = .ok (.ids (CratesV1.sortIds (Members.cratesOf m t)))) ∧
      (step o s L .tracks).2 = .ok (.ids (CratesV1.sortIds m.tracks)) ∧
      (step o s L .crates).2 = .ok (.ids (CratesV1.sortIds m.crates)) ∧
      m.pairs.Nodup ∧ (∀ p ∈ m.pairs, p.1 ∈ m.crates ∧ p.2 ∈ m.tracks) := by
  intro L0 L
  obtain ⟨m, e, h1, h2, h3, h4, h5, h6⟩ := C08V1.C08_refines (toDetect s) (crOps o s L0 cs)
  have hcr : L.cr = CratesV1.run (toDetect s) CratesV1.Db.empty (crOps o s L0 cs) := run_cr o s cs L0
  refine ⟨m, e, ?_, ?_, ?_, ?_, h5, h6⟩
  · intro c; show Res.ok (Out.ids (CratesV1.sortIds (CratesV1.crateTracks (toDetect s) L.cr c))) = _; rw [hcr, h1 c]
  · intro t; show Res.ok (Out.ids (CratesV1.sortIds (CratesV1.trackContainingCrates (toDetect s) L.cr t))) = _; rw [hcr, h2 t]
  · show Res.ok (Out.ids (CratesV1.dbTracks L.cr)) = _; rw [hcr, h3]
  · show Res.ok (Out.ids (CratesV1.dbCrates L.cr)) = _; rw [hcr, h4]

/-- **Members are LIVE tracks in the sense of the track calls, and the converse relation is exact**: in every reachable
state, `t ∈ crate(c).tracks()` ⇔ `c ∈ t.containing_crates()`; such a `t` is listed by `tracks()`, `is_valid()` answers true,
its rows exist (so `snapshot()` does not throw `track_deleted`), and contents have no duplicates. -/
theorem C08_lib1_members_are_live_tracks (o : FOps) (s : VSchema) (um up dir : Bytes) (cs : List Call) :
    let L := run o s (Lib1.empty s um up dir) cs
    (∀ c t, t ∈ CratesV1.crateTracks (toDetect s) L.cr c ↔ c ∈ CratesV1.trackContainingCrates (toDetect s) L.cr t) ∧
    (∀ c, (CratesV1.crateTracks (toDetect s) L.cr c).Nodup) ∧
    (∀ c t, t ∈ CratesV1.crateTracks (toDetect s) L.cr c →
      t ∈ CratesV1.dbTracks L.cr ∧ (step o s L (.trackIsValid t)).2 = .ok (.bool true) ∧ (L.tr.rows t).isSome = true ∧
      (step o s L (.snapshot t)).2 ≠ .throw (.dj "track_deleted") ∧ (step o s L (.crateIsValid c)).2 = .ok (.bool true)) := by
  intro L
  have h : LibInv s L := libInv_run o cs (libInv_empty s um up dir)
  have hi := h.crates
  refine ⟨?_, CratesV1.crateTracks_nodup _ hi, ?_⟩
  · intro c t; rw [CratesV1.mem_crateTracks _ hi, CratesV1.mem_containing _ hi]
  · intro c t ht
    have hl := hi.ctlLive _ ((CratesV1.mem_crateTracks _ hi c t).mp ht)
    have hrows := (h.coupled t).mp hl.2
    refine ⟨?_, ?_, hrows, ?_, ?_⟩
    · unfold CratesV1.dbTracks CratesV1.sortIds
      rw [List.mem_mergeSort, CratesV1.mem_liveIds]; exact hl.2
    · show mapRes Out.bool (trackLive L t) = _
      rw [trackLive_iff_rows h t, hrows]; rfl
    · show mapRes Out.snap (TracksV1.dbSnap o L.tr t) ≠ _
      unfold TracksV1.dbSnap
      cases hr : L.tr.rows t with
      | none => rw [hr] at hrows; cases hrows
      | some r =>
        simp only
        have hinv := h.table.rows t r hr
        intro hc
        -- a present row never makes `snapshot()` throw `track_deleted`: `readSnap` has no such exception
        have : ∀ x : Res Snap, mapRes Out.snap x = .throw (.dj "track_deleted") → x = .throw (.dj "track_deleted") := by
          intro x hx; cases x <;> simp [mapRes] at hx ⊢; exact hx
        have hx := this _ hc
        have hy := TracksV1.readSnap_of_inv o L.tr.schema r ((TracksV1.inv_iff r).mp hinv)
        rw [hy] at hx; cases hx
    · show mapRes Out.bool (CratesV1.crateIsValid L.cr c) = _
      rw [(CratesV1.isValid_iff hi.toFInv c).mpr hl.1]; rfl

/-- **Frame between the table families**: a call the tracks package owns (`update`, a setter) and every observer leave
the crate tables and every membership as they were; a call the crates package owns leaves every row of every track as it
was. -/
theorem C08_lib1_frame_between_families (o : FOps) (s : VSchema) (L : Lib1) :
    (∀ t x, (step o s L (.update t x)).1.cr = L.cr) ∧ (∀ t f v, (step o s L (.set t f v)).1.cr = L.cr) ∧
    (∀ op, (viaCrates s L op).1.tr = L.tr) := by
  refine ⟨fun t x => viaTracks_cr L _, fun t f v => viaTracks_cr L _, fun op => rfl⟩

/-- **`remove_track` erases the track from every table family at once**: afterwards it is in no crate, `tracks()` does not
list it, `is_valid()` is false, and no MetaData / MetaDataInteger / PerformanceData row with its id remains. -/
theorem C08_lib1_track_removal_erases_everything (o : FOps) (s : VSchema) (um up dir : Bytes) (cs : List Call) (t : Id) :
    let L' := (step o s (run o s (Lib1.empty s um up dir) cs) (.removeTrack t)).1
    (∀ c, t ∉ CratesV1.crateTracks (toDetect s) L'.cr c) ∧ t ∉ CratesV1.dbTracks L'.cr ∧
    (step o s L' (.trackIsValid t)).2 = .ok (.bool false) ∧
    (∀ m ∈ (raw L').metaStr, m.1 ≠ t) ∧ (∀ m ∈ (raw L').metaInt, m.1 ≠ t) ∧ t ∉ (raw L').perf := by
  intro L'
  have h0 : LibInv s (run o s (Lib1.empty s um up dir) cs) := libInv_run o cs (libInv_empty s um up dir)
  have h : LibInv s L' := libInv_step o h0 _
  have hrow : L'.tr.rows t = none := TracksV1.aget_filter_ne _ _
  have hdead : ¬ CratesV1.liveTrack L'.cr t := fun hl => by have := (h.coupled t).mp hl; rw [hrow] at this; cases this
  have hkey : ∀ e ∈ L'.tr.tracks, e.1 ≠ t := by
    intro e he heq
    have := mem_rows_isSome _ e he
    rw [heq] at this
    have h2 : (L'.tr.rows t).isSome = true := this
    rw [hrow] at h2; cases h2
  refine ⟨?_, ?_, ?_, ?_, ?_, ?_⟩
  · intro c hm
    exact hdead (h.crates.ctlLive _ ((CratesV1.mem_crateTracks _ h.crates c t).mp hm)).2
  · unfold CratesV1.dbTracks CratesV1.sortIds
    rw [List.mem_mergeSort, CratesV1.mem_liveIds]; exact hdead
  · show mapRes Out.bool (trackLive L' t) = _
    rw [trackLive_iff_rows h t, hrow]; rfl
  · intro m hm
    obtain ⟨e, he, hm'⟩ := List.mem_flatMap.mp hm
    obtain ⟨x, _, rfl⟩ := List.mem_map.mp hm'
    exact hkey e he
  · intro m hm
    obtain ⟨e, he, hm'⟩ := List.mem_flatMap.mp hm
    obtain ⟨x, _, rfl⟩ := List.mem_map.mp hm'
    exact hkey e he
  · intro hi
    obtain ⟨e, he, hi'⟩ := List.mem_filterMap.mp hi
    cases hp : e.2.perf with
    | none => rw [hp] at hi'; cases hi'
    | some p =>
      rw [hp] at hi'
      simp only [Option.map_some, Option.some.injEq] at hi'
      exact hkey e he hi'

/-- **`add_track` requires a live track of the composite** (fix 05ed2a5 on the shared Track table): on a valid crate and a
track whose rows exist it returns and the track is a member; on a track without rows (removed, never created, the
placeholder row) it throws `track_deleted` and nothing changes. -/
theorem C08_lib1_add_track (o : FOps) (s : VSchema) (um up dir : Bytes) (cs : List Call) (c t : Id) :
    let L := run o s (Lib1.empty s um up dir) cs
    (CratesV1.crateIsValid L.cr c = .ok true → (L.tr.rows t).isSome = true →
      (step o s L (.addTrack c t)).2 = .ok .unit ∧ t ∈ CratesV1.crateTracks (toDetect s) (step o s L (.addTrack c t)).1.cr c) ∧
    (CratesV1.crateIsValid L.cr c = .ok true → L.tr.rows t = none →
      (step o s L (.addTrack c t)).2 = .throw (.dj "track_deleted") ∧ (step o s L (.addTrack c t)).1 = L) := by
  intro L
  have h : LibInv s L := libInv_run o cs (libInv_empty s um up dir)
  have hi := h.crates
  constructor
  · intro hc ht
    have hc' := (CratesV1.isValid_iff hi.toFInv c).mp hc
    have hl := (h.coupled t).mpr ht
    have e := CratesV1.addTrack_ok (toDetect s) hi hc' hl
    have hinv' : CratesV1.Inv (CratesV1.afterAddTrack L.cr c t) := CratesV1.inv_addTrack hi hc' hl
    refine ⟨?_, ?_⟩
    · show mapRes convOut (CratesV1.addTrack (toDetect s) L.cr c t).2 = _; rw [e]; rfl
    · show t ∈ CratesV1.crateTracks (toDetect s) (CratesV1.addTrack (toDetect s) L.cr c t).1 c
      rw [e, CratesV1.mem_crateTracks _ hinv']
      show (c, t) ∈ L.cr.ctl.filter _ ++ [(c, t)]
      simp
  · intro hc ht
    have hc' := (CratesV1.isValid_iff hi.toFInv c).mp hc
    have hl : ¬ CratesV1.liveTrack L.cr t := fun hl => by have := (h.coupled t).mp hl; rw [ht] at this; cases this
    have e := CratesV1.addTrack_dead_track (toDetect s) hi.idsNodup hc' hl
    refine ⟨?_, ?_⟩
    · show mapRes convOut (CratesV1.addTrack (toDetect s) L.cr c t).2 = _; rw [e]; rfl
    · show ({ L with cr := (CratesV1.addTrack (toDetect s) L.cr c t).1 } : Lib1) = L
      rw [e]

/-! ### stale track handles, in the honest 1.x form -/

/-- FULL STATEMENT (false of the code on the rowid schemas, see the counterexample): "after `remove_track(t)` every later
call through a handle of `t` throws / reports invalid, whatever happens in between".
PROVED PART: … for EVERY continuation `cs'` in which no `create_track` reports the id `t` again (`reissuesTrack … = false`,
an explicit decidable predicate): the rows of `t` stay absent, so `is_valid()` is false, `snapshot()` throws `track_deleted`,
every setter and `update` throw, `add_track` refuses it, no crate contains it. -/
theorem C08_lib1_removed_track_stays_removed_partial (o : FOps) (s : VSchema) (um up dir : Bytes) (cs cs' : List Call) (t : Id)
    (hno : reissuesTrack o s (step o s (run o s (Lib1.empty s um up dir) cs) (.removeTrack t)).1 cs' t = false) :
    let L := run o s (step o s (run o s (Lib1.empty s um up dir) cs) (.removeTrack t)).1 cs'
    L.tr.rows t = none ∧ (step o s L (.trackIsValid t)).2 = .ok (.bool false) ∧
    (step o s L (.snapshot t)).2 = .throw (.dj "track_deleted") ∧
    (∀ f v, ∃ e, (step o s L (.set t f v)).2 = .throw e) ∧
    (∀ c, t ∉ CratesV1.crateTracks (toDetect s) L.cr c) := by
  intro L
  have h0 : LibInv s (run o s (Lib1.empty s um up dir) cs) := libInv_run o cs (libInv_empty s um up dir)
  have h1 : LibInv s (step o s (run o s (Lib1.empty s um up dir) cs) (.removeTrack t)).1 := libInv_step o h0 _
  have hrow1 : (step o s (run o s (Lib1.empty s um up dir) cs) (.removeTrack t)).1.tr.rows t = none :=
    TracksV1.aget_filter_ne _ _
  have h : LibInv s L := libInv_run o cs' h1
  have hrow : L.tr.rows t = none := absent_suffix o t cs' h1 hrow1 hno
  have hdead : ¬ CratesV1.liveTrack L.cr t := fun hl => by have := (h.coupled t).mp hl; rw [hrow] at this; cases this
  refine ⟨hrow, ?_, ?_, ?_, ?_⟩
  · show mapRes Out.bool (trackLive L t) = _
    rw [trackLive_iff_rows h t, hrow]; rfl
  · show mapRes Out.snap (TracksV1.dbSnap o L.tr t) = _
    unfold TracksV1.dbSnap; rw [hrow]; rfl
  · intro f v
    obtain ⟨e, he⟩ := TracksV1.dbSet_absent o L.tr t f v hrow
    exact ⟨e, by show (viaTracks L (TracksV1.dbSet o L.tr t f v)).2 = _; rw [he]; rfl⟩
  · intro c hm
    exact hdead (h.crates.ctlLive _ ((CratesV1.mem_crateTracks _ h.crates c t).mp hm)).2

/-- non-vacuity: after create / create / remove(1) the continuation "create a crate, add track 2, create another track (id 3),
set its title, remove it" never re-issues id 1. -/
example :
    let o : FOps := ⟨fun _ => 0, fun n => if n = 0 then 0 else F64.one, fun _ _ => 0, fun b => b⟩
    let x : Snap := { Snap.empty with relativePath := some [97] }
    let y : Snap := { Snap.empty with relativePath := some [98] }
    let z : Snap := { Snap.empty with relativePath := some [99] }
    reissuesTrack o .s1_6_0 (step o .s1_6_0 (run o .s1_6_0 (Lib1.empty .s1_6_0 [77] [80] []) [.createTrack x, .createTrack y]) (.removeTrack 1)).1
      [.createRootCrate [97], .addTrack 1 2, .createTrack z, .set 3 .title (some [84]), .removeTrack 3] 1 = false := by
  decide +kernel

/-- The full statement is false of the code on the rowid schemas: create a track (id 1), remove it — the handle is invalid —
create another track: it gets id 1 again, and the stale handle of the first is valid and shows the second track's data. On
the AUTOINCREMENT schemas the same history issues id 3 (2 is the placeholder row) and the stale handle stays invalid. -/
theorem C08_lib1_removed_track_stays_removed_counterexample :
    let o : FOps := ⟨fun _ => 0, fun n => if n = 0 then 0 else F64.one, fun _ _ => 0, fun b => b⟩
    let x : Snap := { Snap.empty with relativePath := some [97] }
    let y : Snap := { Snap.empty with relativePath := some [98] }
    let run6 := run o .s1_6_0 (Lib1.empty .s1_6_0 [77] [80] []) [.createTrack x, .removeTrack 1]
    let run17 := run o .s1_17_0 (Lib1.empty .s1_17_0 [77] [80] []) [.createTrack x, .removeTrack 1]
    (trackLive run6 1 = .ok false ∧ Out.newId (step o .s1_6_0 run6 (.createTrack y)).2 = some 1 ∧
      trackLive (step o .s1_6_0 run6 (.createTrack y)).1 1 = .ok true ∧
      reissuesTrack o .s1_6_0 run6 [.createTrack y] 1 = true) ∧
    (trackLive run17 1 = .ok false ∧ Out.newId (step o .s1_17_0 run17 (.createTrack y)).2 = some 3 ∧
      trackLive (step o .s1_17_0 run17 (.createTrack y)).1 1 = .ok false) := by
  decide +kernel

/-- **On the AUTOINCREMENT schemas (1.17.0, 1.18.0 desktop / os) the stale-track clause holds in FULL**: a track that existed
and was removed never comes back — for EVERY continuation, no `reissuesTrack` hypothesis: `sqlite_sequence` bounds every id
ever issued and only grows, so `create_track` never reports that id again. -/
theorem C08_lib1_removed_track_never_returns_autoincrement (o : FOps) (s : VSchema)
    (ha : CratesV1.trackAutoinc (toDetect s) = true) (um up dir : Bytes) (cs cs' : List Call) (t : Id)
    (ht : ((run o s (Lib1.empty s um up dir) cs).tr.rows t).isSome = true) :
    let L := run o s (step o s (run o s (Lib1.empty s um up dir) cs) (.removeTrack t)).1 cs'
    L.tr.rows t = none ∧ (step o s L (.trackIsValid t)).2 = .ok (.bool false) ∧
    (step o s L (.snapshot t)).2 = .throw (.dj "track_deleted") ∧
    (∀ f v, ∃ e, (step o s L (.set t f v)).2 = .throw e) ∧
    (∀ c, t ∉ CratesV1.crateTracks (toDetect s) L.cr c) := by
  have h0 : LibInv s (run o s (Lib1.empty s um up dir) cs) := libInv_run o cs (libInv_empty s um up dir)
  have hc0 : CratesV1.C15.CInv (toDetect s) (run o s (Lib1.empty s um up dir) cs).cr := by
    rw [run_cr]; exact CratesV1.C15.run_cinv (toDetect s) _ _ (CratesV1.C15.cinv_empty _)
  have hseq : t ≤ (run o s (Lib1.empty s um up dir) cs).cr.trackSeq := by
    obtain ⟨r, hr, hre, _⟩ := (h0.coupled t).mpr ht
    rw [← hre]; exact hc0.seq ha r hr
  have h1 : LibInv s (step o s (run o s (Lib1.empty s um up dir) cs) (.removeTrack t)).1 := libInv_step o h0 _
  have hc1 := step_cinv_lib o hc0 (.removeTrack t)
  have hseq1 := Int.le_trans hseq (step_seq_mono o h0 (.removeTrack t))
  exact C08_lib1_removed_track_stays_removed_partial o s um up dir cs cs' t (no_reissue_autoinc o ha t cs' h1 hc1 hseq1)

/-- non-vacuity: 1.17.0, a track that exists (id 1) — cf. the counterexample above, where the same history on 1.6.0 re-issues id 1. -/
example :
    let o : FOps := ⟨fun _ => 0, fun n => if n = 0 then 0 else F64.one, fun _ _ => 0, fun b => b⟩
    CratesV1.trackAutoinc (toDetect .s1_17_0) = true ∧
    ((run o .s1_17_0 (Lib1.empty .s1_17_0 [77] [80] []) [.createTrack { Snap.empty with relativePath := some [97] }]).tr.rows 1).isSome = true := by
  decide +kernel

/-! ### stale crate handles on the composite (the crates package's `reissues` form, over interleaved histories) -/

/-- FULL STATEMENT (false of the code, `C07_removed_never_returned_counterexample`): "a removed crate is never valid again".
PROVED PART, over histories that interleave crate, membership and TRACK calls: an invalid crate id stays invalid — and no
crate lists it, `crate_by_id` finds nothing — after every continuation in which no crate creation reports that very id
(`reissuesCrate … = false`, decidable). -/
theorem C08_lib1_removed_crate_stays_removed_partial (o : FOps) (s : VSchema) (um up dir : Bytes) (cs cs' : List Call) (y : Id)
    (hy : CratesV1.crateIsValid (run o s (Lib1.empty s um up dir) cs).cr y = .ok false)
    (hno : reissuesCrate o s (run o s (Lib1.empty s um up dir) cs) cs' y = false) :
    let L := run o s (run o s (Lib1.empty s um up dir) cs) cs'
    (step o s L (.crateIsValid y)).2 = .ok (.bool false) ∧ (step o s L (.crateById y)).2 = .ok (.optId none) ∧
    y ∉ CratesV1.dbCrates L.cr ∧ (∀ t, y ∉ CratesV1.trackContainingCrates (toDetect s) L.cr t) := by
  intro L
  have h0 : LibInv s (run o s (Lib1.empty s um up dir) cs) := libInv_run o cs (libInv_empty s um up dir)
  have h : LibInv s L := libInv_run o cs' h0
  have hy0 := (CratesV1.isValid_false_iff h0.crates.toFInv y).mp hy
  have hd : y ∉ CratesV1.ids L.cr := crateDead_suffix o y cs' h0 hy0 hno
  have hv := (CratesV1.isValid_false_iff h.crates.toFInv y).mpr hd
  refine ⟨?_, ?_, ?_, ?_⟩
  · show mapRes Out.bool (CratesV1.crateIsValid L.cr y) = _; rw [hv]; rfl
  · show mapRes Out.optId (CratesV1.dbCrateById L.cr y) = _
    unfold CratesV1.dbCrateById
    rw [hv]; rfl
  · unfold CratesV1.dbCrates CratesV1.sortIds
    rw [List.mem_mergeSort]; exact hd
  · intro t hm
    exact hd (h.crates.ctlLive _ ((CratesV1.mem_containing _ h.crates t y).mp hm)).1

/-- non-vacuity: crate 1 removed; the continuation creates a track, adds it to crate 2, renames crate 2, sets the track's
title, creates a sub-crate (id 3) — id 1 is not re-issued (1.9.1: `MAX(id)+1`). -/
example :
    let o : FOps := ⟨fun _ => 0, fun n => if n = 0 then 0 else F64.one, fun _ _ => 0, fun b => b⟩
    let L := run o .s1_9_1 (Lib1.empty .s1_9_1 [77] [80] []) [.createRootCrate [97], .createRootCrate [98], .removeCrate 1]
    CratesV1.crateIsValid L.cr 1 = .ok false ∧
    reissuesCrate o .s1_9_1 L [.createTrack { Snap.empty with relativePath := some [97] }, .addTrack 2 1, .setName 2 [99],
      .set 1 .title (some [84]), .createSubCrate 2 [100]] 1 = false := by
  decide +kernel

/-- The full statement is false on the composite too: with the surviving crate removed as well, the next creation re-issues
id 1 (rowid rule and `MAX(id)+1` alike), with track calls in between. -/
theorem C08_lib1_removed_crate_stays_removed_counterexample :
    let o : FOps := ⟨fun _ => 0, fun n => if n = 0 then 0 else F64.one, fun _ _ => 0, fun b => b⟩
    let x : Snap := { Snap.empty with relativePath := some [97] }
    (let L := run o .s1_6_0 (Lib1.empty .s1_6_0 [77] [80] []) [.createRootCrate [97], .createTrack x, .addTrack 1 1, .removeCrate 1]
     CratesV1.crateIsValid L.cr 1 = .ok false ∧
     CratesV1.crateIsValid (run o .s1_6_0 L [.set 1 .title (some [84]), .createRootCrate [98]]).cr 1 = .ok true ∧
     reissuesCrate o .s1_6_0 L [.set 1 .title (some [84]), .createRootCrate [98]] 1 = true ∧
     CratesV1.crateTracks (toDetect .s1_6_0) (run o .s1_6_0 L [.set 1 .title (some [84]), .createRootCrate [98]]).cr 1 = []) ∧
    (let L := run o .s1_18_0_os (Lib1.empty .s1_18_0_os [77] [80] []) [.createRootCrate [97], .removeCrate 1]
     CratesV1.crateIsValid (run o .s1_18_0_os L [.createRootCrate [98]]).cr 1 = .ok true) := by
  decide +kernel

end EngineModel.Properties.C08Lib1
