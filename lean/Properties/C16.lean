/-
C16 — Observing a library never modifies it.

The Lean side is deliberately small (the weight of C16 is the tie: change
counters, statement kinds, raw dumps and file hashes on the real library).
What is proved: in the uniform `step` over operations (statement sequences on
the `Spec.Txn` connection), an operation the monitor classifies as an observer
— every statement it steps is read-only — is the identity on the connection
state *by proof*, returns the answer computed from the unchanged database, can
be repeated and interleaved freely; and the weaker criterion "no writing
statement" already fixes the committed database, under every fault plan.
-/
import EngineModel.Spec.Txn
import EngineModel.Spec.Observe
import Proofs.Txn
import EngineModel.Api.CratesV1
import EngineModel.Db.V2Crates
import EngineModel.TracksV2.Lens
import EngineModel.Spec.Dir
import EngineModel.TracksV1.Stmts
import Proofs.Dir

namespace EngineModel.Properties.C16
open EngineModel.Spec.Txn EngineModel.Spec.Observe EngineModel.Proofs.Txn

variable {α β : Type}

theorem observer_reads (op : Op α β) (h : isObserver op = true) : ∀ x ∈ op.cmds, x.kind = .read := by
  intro x hx
  simp only [isObserver, readOnlyShape, List.all_eq_true, List.mem_map, forall_exists_index, and_imp,
    forall_apply_eq_imp_iff₂] at h
  simpa using h x hx

/-- An observer is the identity on the connection state (committed database,
open transaction if any), whatever that state is. -/
theorem C16_observers_pure (c : Conn α) (op : Op α β) (h : isObserver op = true) : (step c op).1 = c := by
  simp only [step]
  exact (readonly_exec none false op.cmds 0 0 c (observer_reads op h)).1

/-- … and it answers from the unchanged database. -/
theorem C16_observer_answer (c : Conn α) (op : Op α β) (h : isObserver op = true) :
    (step c op).2 = some (op.answer c.view) := by
  have hr := readonly_exec none false op.cmds 0 0 c (observer_reads op h)
  simp only [step, hr.1, hr.2]
  rfl

/-- The same holds under every fault plan the injector can express (read-only
statements are never failed) and at any point of a call. -/
theorem C16_observers_pure_any_plan (fault : Option Nat) (auto : Bool) (seen scopes : Nat)
    (c : Conn α) (op : Op α β) (h : isObserver op = true) :
    (exec fault auto op.cmds seen scopes c).conn = c ∧ (exec fault auto op.cmds seen scopes c).raised = false :=
  readonly_exec fault auto op.cmds seen scopes c (observer_reads op h)

/-- Repeated observation: any sequence of observers leaves the state as it was
and each answers as if it were applied first (so applying one twice gives equal
answers). -/
theorem C16_repeat (c : Conn α) (ops : List (Op α β)) (h : ∀ op ∈ ops, isObserver op = true) :
    run c ops = (c, ops.map fun op => some (op.answer c.view)) := by
  induction ops with
  | nil => rfl
  | cons op ops ih =>
    have h1 := C16_observers_pure c op (h op List.mem_cons_self)
    have h2 := C16_observer_answer c op (h op List.mem_cons_self)
    have ih' := ih (fun o ho => h o (List.mem_cons_of_mem _ ho))
    simp only [run, List.map_cons]
    rw [show step c op = (c, some (op.answer c.view)) from Prod.ext h1 h2]
    simp only [ih']

/-- Observers can be dropped from (or inserted into) any history without
changing the state it reaches. -/
theorem C16_frame (c : Conn α) (ops : List (Op α β)) :
    (run c ops).1 = (run c (ops.filter fun op => !isObserver op)).1 := by
  induction ops generalizing c with
  | nil => rfl
  | cons op ops ih =>
    cases ho : isObserver op
    · simp only [List.filter_cons, ho, Bool.not_false, ite_true, run]
      exact ih _
    · have h1 := C16_observers_pure c op ho
      simp only [List.filter_cons, ho, Bool.not_true, run]
      rw [h1]
      simpa using ih c

/-- A weaker criterion that still fixes the stored database: a call without any
writing statement — scopes, failures and all — leaves the committed database
as it was (`verify()`-style calls that might open a read transaction). -/
theorem C16_no_write_no_change (cs : List (Cmd α)) (h : ∀ x ∈ cs, x.kind ≠ .write)
    (fault : Option Nat) (auto : Bool) (db : α) :
    (call fault auto cs db).conn.committed = db :=
  nowrite_exec fault auto cs 0 0 (Conn.idle db) h (Linked.idle db) (Or.inl rfl)

/-! ### the accessors of the concrete API models

`Api.CratesV1`, `Db.V2` and `TracksV2.Db` define every public accessor as a
function of the stored tables (and an id).  Put into the monitor's alphabet
(`apiObserver`: the reads it issues + that function as the answer) each of them
is an observer, so — by the theorems above, not by its type — it can be
interleaved anywhere in a history of the model's mutating calls without
changing the state reached, and it answers from the state the mutating calls
alone produce. -/

theorem C16_api_observer {γ : Type} (n : Nat) (q : α → γ) : isObserver (apiObserver n q) = true := by
  simp [isObserver, apiObserver, readOnlyShape, Cmd.kind]

/-- State reached by a history of model calls with accessors interleaved = the
model's fold over the mutating calls alone. -/
theorem C16_api_history {ω : Type} (stp : α → ω → α) (ans : α → β) (items : List (ω ⊕ (Nat × (α → β)))) (db : α) :
    (run (Conn.idle db) (items.map (histOp stp ans))).1
      = Conn.idle ((items.filterMap Sum.getLeft?).foldl stp db) := by
  induction items generalizing db with
  | nil => rfl
  | cons it items ih =>
    cases it with
    | inl op =>
      have h1 : (step (Conn.idle db) (histOp stp ans (.inl op))).1 = Conn.idle (stp db op) := by
        simp [step, histOp, exec, faultable, Cmd.kind, stepStmt, Conn.idle, Outcome.cons]
      simp only [List.map_cons, run, List.filterMap_cons, Sum.getLeft?_inl, List.foldl_cons]
      rw [h1]
      exact ih _
    | inr nq =>
      have h1 := C16_observers_pure (Conn.idle db) (histOp stp ans (.inr nq)) (C16_api_observer nq.1 nq.2)
      simp only [List.map_cons, run, List.filterMap_cons, Sum.getLeft?_inr]
      rw [h1]
      exact ih _

/-- The answers: each accessor answers from the state the mutating calls before
it produce (so two applications with only accessors in between agree). -/
theorem C16_api_answers {ω : Type} (stp : α → ω → α) (ans : α → β) (pre : List (ω ⊕ (Nat × (α → β))))
    (n : Nat) (q : α → β) (db : α) :
    (step (run (Conn.idle db) (pre.map (histOp stp ans))).1 (apiObserver n q)).2
      = some (q ((pre.filterMap Sum.getLeft?).foldl stp db)) := by
  rw [C16_api_history, C16_observer_answer _ _ (C16_api_observer n q)]
  rfl

open EngineModel.Api in
/-- The items of a schema-1.x crate history in the monitor's alphabet: a
mutating call of `Api.CratesV1`, or the model's full observation (`n` read
statements) for the crate handles `h`, track handles `t` and probe names `nm`. -/
def cratesV1Op (s : Pure.Detect.Schema) :
    CratesV1.Op ⊕ (Nat × List CratesV1.Id × List CratesV1.Id × List CratesV1.Name) → Op CratesV1.Db CratesV1.Obs
  | .inl op => histOp (fun d op => (CratesV1.step s d op).1) (fun d => CratesV1.observe s d [] [] []) (.inl op)
  | .inr (n, h, t, nm) => apiObserver n (fun d => CratesV1.observe s d h t nm)

open EngineModel.Api in
/-- Schema-1.x crates (`Api.CratesV1`, every version): the full observation —
`crates`, `root_crates`, `tracks`, and per handle `is_valid`, `name`, `parent`,
`children`, `descendants`, `tracks`, `crate_by_id`, `sub_crate_by_name`,
`containing_crates`, `crates_by_name`, `root_crate_by_name` — interleaved
anywhere, any number of times, in any history leaves the tables exactly as the
history without it. -/
theorem C16_crates_v1 (s : Pure.Detect.Schema)
    (items : List (CratesV1.Op ⊕ (Nat × List CratesV1.Id × List CratesV1.Id × List CratesV1.Name)))
    (db : CratesV1.Db) :
    (run (Conn.idle db) (items.map (cratesV1Op s))).1
      = Conn.idle (CratesV1.run s db (items.filterMap Sum.getLeft?)) := by
  show _ = Conn.idle ((items.filterMap Sum.getLeft?).foldl (fun d op => (CratesV1.step s d op).1) db)
  induction items generalizing db with
  | nil => rfl
  | cons it items ih =>
    cases it with
    | inl op =>
      have h1 : (step (Conn.idle db) (cratesV1Op s (.inl op))).1 = Conn.idle (CratesV1.step s db op).1 := by
        simp [step, cratesV1Op, histOp, exec, faultable, Cmd.kind, stepStmt, Conn.idle, Outcome.cons]
      simp only [List.map_cons, run, List.filterMap_cons, Sum.getLeft?_inl, List.foldl_cons]
      rw [h1]
      exact ih _
    | inr q =>
      obtain ⟨n, h, t, nm⟩ := q
      have h1 := C16_observers_pure (Conn.idle db) (cratesV1Op s (.inr (n, h, t, nm)))
        (C16_api_observer n _)
      simp only [List.map_cons, run, List.filterMap_cons, Sum.getLeft?_inr]
      rw [h1]
      exact ih _

/-- Schema-2.x crates (`Db.V2`): any query of the model interleaved anywhere. -/
theorem C16_crates_v2 {γ : Type} (items : List (Db.V2.Op ⊕ (Nat × (Db.V2.Db → γ)))) (ans : Db.V2.Db → γ) (db : Db.V2.Db) :
    (run (Conn.idle db) (items.map (histOp (fun d op => (Db.V2.step d op).1) ans))).1
      = Conn.idle ((items.filterMap Sum.getLeft?).foldl (fun d op => (Db.V2.step d op).1) db) :=
  C16_api_history _ _ _ _

/-- Schema-2.x tracks (`TracksV2.Db`): `snapshot()` (and with it every getter,
each a projection of it — C06) interleaved anywhere in a history of setters. -/
theorem C16_tracks_v2 (o : TracksV2.FOps)
    (items : List ((Nat × TracksV2.Setter) ⊕ (Nat × (TracksV2.Db → Res TracksV2.Snap)))) (db : TracksV2.Db) (id : Nat) :
    (run (Conn.idle db) (items.map (histOp (fun d c => (TracksV2.Db.set o d c.1 c.2).1)
        (fun d => TracksV2.Db.snapshot o d id)))).1
      = Conn.idle ((items.filterMap Sum.getLeft?).foldl (fun d c => (TracksV2.Db.set o d c.1 c.2).1) db) :=
  C16_api_history _ _ _ _

/-- One public mutating track call of the 1.x model (`create_track`, `track::update`, a setter, `remove_track`) as a
state transformer: a call that throws leaves the tables as they were. -/
def tracksV1Step (o : EngineModel.TracksV1.Fl.FOps) (d : TracksV1.Db) (op : TracksV1.TOp) : TracksV1.Db :=
  match TracksV1.topStep o d op with
  | .ok d' => d'
  | _ => d

/-- Schema-1.x tracks (`TracksV1`): any accessor of the model — a getter `dbGet o · id f`, `snapshot()`
(`dbSnap`), `is_valid` — interleaved anywhere, any number of times, in a history of track calls leaves the tables
exactly as the history without it, and answers from the state the mutating calls before it produce. -/
theorem C16_tracks_v1 {γ : Type} (o : EngineModel.TracksV1.Fl.FOps) (items : List (TracksV1.TOp ⊕ (Nat × (TracksV1.Db → γ))))
    (ans : TracksV1.Db → γ) (db : TracksV1.Db) :
    (run (Conn.idle db) (items.map (histOp (tracksV1Step o) ans))).1
      = Conn.idle ((items.filterMap Sum.getLeft?).foldl (tracksV1Step o) db) ∧
    ∀ (pre : List (TracksV1.TOp ⊕ (Nat × (TracksV1.Db → γ)))) (n : Nat) (q : TracksV1.Db → γ),
      (step (run (Conn.idle db) (pre.map (histOp (tracksV1Step o) ans))).1 (apiObserver n q)).2
        = some (q ((pre.filterMap Sum.getLeft?).foldl (tracksV1Step o) db)) :=
  ⟨C16_api_history _ _ _ _, fun pre n q => C16_api_answers _ _ pre n q db⟩

/-! ### loading, `database_exists`, `create_or_load_database` on an existing library: observers of the directory

`Spec/Dir.lean` models the directory (state of `m.db`, `p.db`, `Database2/`, `Database2/m.db`) and the static
entry points from file-system primitives that *do* create files (SQLite opens read-write-create).  That they
leave the directory alone is therefore a statement about the `path_exists` guards of the code. -/
section dir
open EngineModel.Spec.Dir EngineModel.Proofs.Dir EngineModel.Pure.Detect

/-- `load_database` leaves every directory exactly as it was — whatever is (or is not) in it. -/
theorem C16_load_database_pure (d : Dir) : (loadDatabase d).1 = d := loadDatabase_dir d

/-- `database_exists` (a trial load) likewise. -/
theorem C16_database_exists_pure (d : Dir) : (databaseExists d).1 = d := databaseExists_dir d

/-- `engine::v2::engine_library::load` and `::exists` likewise. -/
theorem C16_engine_library_load_pure (d : Dir) : (v2Load d).1 = d ∧ (v2Exists d).1 = d := ⟨v2Load_dir d, rfl⟩

/-- `create_or_load_database` on a directory that holds a library — in whatever state, both layouts included —
is an observer: nothing is created, the directory is as before. -/
theorem C16_create_or_load_existing_pure (d : Dir) (req : Schema) (h : legacyExists d = true ∨ db2Exists d = true) :
    (createOrLoadAt d req).dir = d ∧ (createOrLoadAt d req).created = false := by
  have hc : (createOrLoadAt d req).created = false := by
    cases hcr : (createOrLoadAt d req).created
    · rfl
    · have := (createOrLoadAt_created_iff d req).1 hcr
      rcases h with h | h <;> simp_all
  exact ⟨(createOrLoadAt_not_created d req hc).1, hc⟩

/-- Repeated observation of a directory: the second application of each entry point answers as the first. -/
theorem C16_dir_repeat (d : Dir) :
    (loadDatabase (loadDatabase d).1).2 = (loadDatabase d).2 ∧
    (databaseExists (databaseExists d).1).2 = (databaseExists d).2 ∧
    (v2Load (v2Load d).1).2 = (v2Load d).2 := by
  rw [loadDatabase_dir, databaseExists_dir, v2Load_dir]; exact ⟨rfl, rfl, rfl⟩

/-- The guard matters (the defect repaired by 6269a0f): attaching `p.db` without checking that it exists creates
it — loading a 1.x library whose `p.db` is missing modified the directory.  Replayed on the real library:
corpus/C16/load-creates-pdb.txt. -/
theorem C16_load_unguarded_counterexample :
    let d : Dir := ⟨true, .valid, .absent, false, .absent, stampOf .schema_1_18_0_os, stampOf .schema_2_21_2⟩
    (loadDatabaseWith loadLegacySqliteUnguarded loadDb2Sqlite d).1 ≠ d ∧
    (loadDatabaseWith loadLegacySqliteUnguarded loadDb2Sqlite d).1.p = .zero ∧
    (loadDatabase d) = (d, .throw inconsistency) := by
  decide

/-- Likewise for the 2.x loader (the seeded change C16-2: open instead of `path_exists`): with `Database2/` present
but empty, `engine_library::load` creates a zero-byte `Database2/m.db` and later observations answer differently. -/
theorem C16_engine_library_load_unguarded_counterexample :
    let d : Dir := ⟨true, .absent, .absent, true, .absent, stampOf .schema_1_18_0_os, stampOf .schema_2_21_2⟩
    (v2LoadWith loadDb2SqliteUnguarded d).1.dm = .zero ∧
    (v2Exists d).2 = .ok false ∧ (v2Exists (v2LoadWith loadDb2SqliteUnguarded d).1).2 = .ok true ∧
    (v2Load d) = (d, .throw notFound) := by
  decide

end dir

/-! ### non-vacuity: the classification is not trivially true -/

/-- an observer with three reads -/
example : isObserver (⟨[.read, .read, .read], fun n => n + 1⟩ : Op Nat Nat) = true := by decide
example : step (Conn.idle 5) (⟨[.read, .read], fun n => n * 2⟩ : Op Nat Nat) = (Conn.idle 5, some 10) := by rfl
/-- a "getter" that issues an UPDATE is not classified as an observer, and does modify -/
example : isObserver (⟨[.read, .write (fun n => some (n + 1))], fun n => n⟩ : Op Nat Nat) = false := by decide
example : (step (Conn.idle 5) (⟨[.read, .write (fun n => some (n + 1))], fun n => n⟩ : Op Nat Nat)).1
    = Conn.idle 6 := by rfl
/-- a mutating call between two observations changes the second answer, not the first -/
example : (run (Conn.idle 0) [(⟨[.read], id⟩ : Op Nat Nat), ⟨[.write (fun n => some (n + 1))], id⟩, ⟨[.read], id⟩]).2
    = [some 0, some 1, some 1] := by decide

/-- concrete models: a 1.x crate history with the full observation interleaved is not trivial -/
example : (EngineModel.Api.CratesV1.run .schema_1_18_0_os EngineModel.Api.CratesV1.Db.empty
    [.createRoot [65], .createSub 1 [66]]).crate.length = 2 := by decide +kernel

end EngineModel.Properties.C16
