/-
C16 — Observing a library never modifies it.

The Lean side is deliberately small (the weight of C16 is the tie: change
counters, statement kinds, raw dumps and file hashes on the real library).
What is proved: in the uniform `step` over operations (statement sequences on
the `Spec.Txn` connection), an operation the monitor classifies as an observer
— every statement it steps is read-only — is the identity on the connection
state *by proof*, returns the answer computed from the unchanged database, can
be repeated and interleaved freely; and the weaker criterion "no writing
statement" already fixes the committed database, under every fault plan.
-/
import EngineModel.Spec.Txn
import EngineModel.Spec.Observe
import Proofs.Txn

namespace EngineModel.Properties.C16
open EngineModel.Spec.Txn EngineModel.Spec.Observe EngineModel.Proofs.Txn

variable {α β : Type}

theorem observer_reads (op : Op α β) (h : isObserver op = true) : ∀ x ∈ op.cmds, x.kind = .read := by
  intro x hx
  simp only [isObserver, readOnlyShape, List.all_eq_true, List.mem_map, forall_exists_index, and_imp,
    forall_apply_eq_imp_iff₂] at h
  simpa using h x hx

/-- An observer is the identity on the connection state (committed database,
open transaction if any), whatever that state is. -/
theorem C16_observers_pure (c : Conn α) (op : Op α β) (h : isObserver op = true) : (step c op).1 = c := by
  simp only [step]
  exact (readonly_exec none false op.cmds 0 0 c (observer_reads op h)).1

/-- … and it answers from the unchanged database. -/
theorem C16_observer_answer (c : Conn α) (op : Op α β) (h : isObserver op = true) :
    (step c op).2 = some (op.answer c.view) := by
  have hr := readonly_exec none false op.cmds 0 0 c (observer_reads op h)
  simp only [step, hr.1, hr.2]
  rfl

/-- The same holds under every fault plan the injector can express (read-only
statements are never failed) and at any point of a call. -/
theorem C16_observers_pure_any_plan (fault : Option Nat) (auto : Bool) (seen scopes : Nat)
    (c : Conn α) (op : Op α β) (h : isObserver op = true) :
    (exec fault auto op.cmds seen scopes c).conn = c ∧ (exec fault auto op.cmds seen scopes c).raised = false :=
  readonly_exec fault auto op.cmds seen scopes c (observer_reads op h)

/-- Repeated observation: any sequence of observers leaves the state as it was
and each answers as if it were applied first (so applying one twice gives equal
answers). -/
theorem C16_repeat (c : Conn α) (ops : List (Op α β)) (h : ∀ op ∈ ops, isObserver op = true) :
    run c ops = (c, ops.map fun op => some (op.answer c.view)) := by
  induction ops with
  | nil => rfl
  | cons op ops ih =>
    have h1 := C16_observers_pure c op (h op List.mem_cons_self)
    have h2 := C16_observer_answer c op (h op List.mem_cons_self)
    have ih' := ih (fun o ho => h o (List.mem_cons_of_mem _ ho))
    simp only [run, List.map_cons]
    rw [show step c op = (c, some (op.answer c.view)) from Prod.ext h1 h2]
    simp only [ih']

/-- Observers can be dropped from (or inserted into) any history without
changing the state it reaches. -/
theorem C16_frame (c : Conn α) (ops : List (Op α β)) :
    (run c ops).1 = (run c (ops.filter fun op => !isObserver op)).1 := by
  induction ops generalizing c with
  | nil => rfl
  | cons op ops ih =>
    cases ho : isObserver op
    · simp only [List.filter_cons, ho, Bool.not_false, ite_true, run]
      exact ih _
    · have h1 := C16_observers_pure c op ho
      simp only [List.filter_cons, ho, Bool.not_true, run]
      rw [h1]
      simpa using ih c

/-- A weaker criterion that still fixes the stored database: a call without any
writing statement — scopes, failures and all — leaves the committed database
as it was (`verify()`-style calls that might open a read transaction). -/
theorem C16_no_write_no_change (cs : List (Cmd α)) (h : ∀ x ∈ cs, x.kind ≠ .write)
    (fault : Option Nat) (auto : Bool) (db : α) :
    (call fault auto cs db).conn.committed = db :=
  nowrite_exec fault auto cs 0 0 (Conn.idle db) h (Linked.idle db) (Or.inl rfl)

/-! ### non-vacuity: the classification is not trivially true -/

/-- an observer with three reads -/
example : isObserver (⟨[.read, .read, .read], fun n => n + 1⟩ : Op Nat Nat) = true := by decide
example : step (Conn.idle 5) (⟨[.read, .read], fun n => n * 2⟩ : Op Nat Nat) = (Conn.idle 5, some 10) := by rfl
/-- a "getter" that issues an UPDATE is not classified as an observer, and does modify -/
example : isObserver (⟨[.read, .write (fun n => some (n + 1))], fun n => n⟩ : Op Nat Nat) = false := by decide
example : (step (Conn.idle 5) (⟨[.read, .write (fun n => some (n + 1))], fun n => n⟩ : Op Nat Nat)).1
    = Conn.idle 6 := by rfl
/-- a mutating call between two observations changes the second answer, not the first -/
example : (run (Conn.idle 0) [(⟨[.read], id⟩ : Op Nat Nat), ⟨[.write (fun n => some (n + 1))], id⟩, ⟨[.read], id⟩]).2
    = [some 0, some 1, some 1] := by decide

end EngineModel.Properties.C16
