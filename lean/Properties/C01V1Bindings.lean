/-
C01 / C06, schema 1.x: the storage bindings of the legacy track code, REGENERATED from the working
tree of /repo on every run (tools/tr_v1bindings.py → EngineModel/Gen/BindingsV1.lean), are aligned and
are the bindings the hand model (TracksV1/Model.lean, Accessors.lean) uses.

Two layers:
 * `v1_model_*` — for ALL rows / snapshots / values: the definitions of the hand model are the explicit
   tables of TracksV1/Bindings.lean read through the naming tables `eval*` / `put*` / `locEq`
   (which MetaData type number each string / integer field is read from and written to, which source each
   `Track` / `PerformanceData` column and each bulk `MetaData(Integer)` row gets, which locations a getter
   depends on);
 * `v1_bindings_*`, `v1_meta_types_injective`, `v1_same_type_read_write`,
   `v1_model_uses_regenerated_bindings` — decided by the kernel on the regenerated data: the tables of the
   C++ source resolve (statement operand → parameter INDEX → caller argument → snapshot) to exactly those
   hand tables, each column / type is bound once, SELECTs fill the member of the column's own name,
   every field is read and written under the same type number, no two enumerators share a number.
-/
import Proofs.BindingsV1

namespace EngineModel.Properties.C01V1Bindings
open EngineModel EngineModel.TracksV1 EngineModel.TracksV1.Bind EngineModel.Proofs.BindingsV1

/-! ### decided on the regenerated tables -/

/-- Track INSERT / UPDATE / SELECT and PerformanceData INSERT OR REPLACE / SELECT / DELETE of every legacy
version: each column once, bound to the parameter whose position is the position of the struct member of
that column's name, resolving — from `create_track` and from `update` alike — to the source the hand model
gives the column; every SELECT fills the member of each column's own name (blob columns through `decode`,
written through `encode`), selects exactly the written columns and leaves exactly the other members default;
the single-row MetaData / MetaDataInteger statements bind (id, type, value) in that order. -/
theorem v1_bindings_aligned (s : Schema) :
    trackWriteOk s = true ∧ trackSelectOk s = true ∧ perfWriteOk s = true ∧ perfSelectOk s = true ∧
    ((bulkStr s).map (·.1)).Nodup ∧ ((bulkInt s).map (·.1)).Nodup ∧
    Gen.BindingsV1.metaSingles.all singleOk = true :=
  ⟨track_write_aligned s, track_select_aligned s, perf_write_aligned s, perf_select_aligned s,
   (bulk_types_nodup s).1, (bulk_types_nodup s).2, meta_singles_aligned.1⟩

/-- no two enumerators of `metadata_str_type` (resp. `metadata_int_type`) share a numeric value or a name -/
theorem v1_meta_types_injective :
    (Gen.BindingsV1.strEnum.map (·.2)).Nodup ∧ (Gen.BindingsV1.strEnum.map (·.1)).Nodup ∧
    (Gen.BindingsV1.intEnum.map (·.2)).Nodup ∧ (Gen.BindingsV1.intEnum.map (·.1)).Nodup :=
  meta_types_injective

/-- each of the seven string fields and three integer fields is written (bulk statement of every version,
single-field setter) and read (single-field getter, `snapshot()`) under the SAME enumerator -/
theorem v1_same_type_read_write :
    StrField.all.all sameTypeStr = true ∧ IntField.all.all sameTypeInt = true ∧
    Gen.BindingsV1.snapshotStr.length = 7 ∧ Gen.BindingsV1.snapshotInt.length = 3 :=
  same_type_read_write

/-- the regenerated tables ARE the hand model's tables: enumerator numbers (header), field codes, both bulk
statements from both callers for every version, the locations every public getter reads and every public
setter writes, and what `snapshot()` reads for each member (the Track / PerformanceData statements are in
`v1_bindings_aligned`) -/
theorem v1_model_uses_regenerated_bindings :
    Gen.BindingsV1.strEnum = strEnumHand ∧ Gen.BindingsV1.intEnum = intEnumHand ∧
    (∀ f : StrField, Gen.BindingsV1.strEnum.lookup f.name = some f.code) ∧
    (∀ f : IntField, Gen.BindingsV1.intEnum.lookup f.enumerator = some f.code) ∧
    (∀ s : Schema, bulkStrOk s = true ∧ bulkIntOk s = true) ∧
    Field.reps.all accessorOk = true ∧
    sameSet snapTrackPairs ((trackReadsH .s1_18_0_os).map fun p => (p.1.member, p.2)) = true ∧
    sameSet snapPerfTriples (perfReadsH.map fun p => (p.1, p.2.1.member, p.2.2)) = true :=
  ⟨enums_eq_hand.1, enums_eq_hand.2, field_codes_eq.1, field_codes_eq.2, fun s => ⟨bulk_str_eq s, bulk_int_eq s⟩,
   accessors_eq_hand, snapshot_reads_eq_hand.1, snapshot_reads_eq_hand.2.1⟩

/-! ### the hand tables are what the model does (all rows, snapshots, values) -/

/-- string fields: getter and setter of the model go to the MetaData row of the field's code -/
theorem v1_model_str_accessors (o : Fl.FOps) (r : TrackRows) (f : StrField) (v : Option Bytes) :
    getStr o r f = .ok (cell f.code r.mstr) ∧
    setStr o r f v = .ok { r with mstr := aset f.code v r.mstr } ∧
    strCode f.field = some f.code :=
  ⟨getStr_eq o r f, setStr_eq o r f v, strCode_eq f⟩

/-- integer fields: getters and setters of the model go to the MetaDataInteger row of the field's code -/
theorem v1_model_int_accessors (o : Fl.FOps) (r : TrackRows) (t : Option UInt64) (k v : Option UInt32) :
    (get o r .lastPlayedAt = optMulU 1000000000 (cell IntField.lastPlayedAt.code r.mint) ∧
     get o r .key = .ok ((cell IntField.key.code r.mint).map Prim.u32OfInt) ∧
     get o r .rating = .ok ((cell IntField.rating.code r.mint).map Prim.u32OfInt)) ∧
    (set o r .lastPlayedAt t =
       .ok { r with mstr := aset 12 (some (if t.isSome then [49] else [48])) r.mstr,
                    mint := aset IntField.lastPlayedAt.code (t.map toTimestamp) r.mint } ∧
     set o r .key k =
       ((setTrackCol r { colTrack r with key := k.bind fun x => if x = 0 then none else some x }).bind fun r' =>
         .ok { r' with mint := aset IntField.key.code (k.map Prim.s32) r'.mint }) ∧
     set o r .rating v = .ok { r with mint := aset IntField.rating.code (v.map clampRating) r.mint }) :=
  ⟨getInt_eq o r, setInt_eq o r t k v⟩

/-- `snapshot()` of the model reads the ten meta-data members from the rows of the fields' codes -/
theorem v1_model_snapshot_meta (o : Fl.FOps) (s : Schema) (r : TrackRows) (y : Snap) (h : readSnap o s r = .ok y) :
    (∀ f : StrField, f.ofSnap y = cell f.code r.mstr) ∧
    y.rating = (cell IntField.rating.code r.mint).map Prim.u32OfInt ∧
    y.key = (match r.perf.bind (·.trackData.key) with
      | some k => some k
      | none => (cell IntField.key.code r.mint).map Prim.u32OfInt) ∧
    (∃ ns, optMul 1000000000 (cell IntField.lastPlayedAt.code r.mint) = .ok ns ∧
      y.lastPlayedAt = ns.map Prim.u64OfInt) :=
  readSnap_meta o s r y h

/-- `create_track` / `update` of the model write the Track row, both bulk statements and the
PerformanceData row exactly as the tables `trackColsH` / `bulkStrH` / `bulkIntH` / `perfColsH` say -/
theorem v1_model_write_tables (s : Schema) (x : Snap) (prior : Option TrackRows) (path : Bytes)
    (lenCalc bpmI : Option Int) (ovw hires : Impl.V1.Wave) (beat' : Impl.V1.Beat) (cues' : Impl.V1.Cues) (loops' : Impl.V1.Loops) :
    let a := assemble s x prior path lenCalc bpmI ovw hires beat' cues' loops'
    a.track = (trackColsH s).foldl (fun t cv => putTrack t cv.1 (evalTrack x path (lenOf x) lenCalc bpmI cv.2))
        (prior.getD blankRows).track ∧
    a.mstr = asetMany ((bulkStrH s).map fun q => (q.1, evalText x ((lenOf x).map mmss)
        (if x.lastPlayedAt.isSome then oneText else none) (getExtension (getFilename path)) q.2))
        (prior.getD blankRows).mstr ∧
    a.mint = asetMany ((bulkIntH s).map fun q => (q.1, evalInt (x.key.map Prim.s32) (x.rating.map clampRating)
        (x.lastPlayedAt.map toTimestamp) q.2)) (prior.getD blankRows).mint ∧
    a.perf = some ((perfColsH s).foldl
        (fun p cv => putPerf p cv.1 (evalPerf x ovw hires beat' cues' loops' cv.2)) blankPerf) :=
  ⟨assemble_track_eq .., assemble_mstr_eq .., assemble_mint_eq .., assemble_perf_eq ..⟩

/-- every getter of the model depends on the rows only through the storage locations of `fieldReadsH` -/
theorem v1_model_getters_read_only (o : Fl.FOps) (r r' : TrackRows) (f : Field)
    (h : locEqAll r r' (fieldReadsH f)) : get o r f = get o r' f :=
  get_reads_only o r r' f h

/-! ### non-vacuity -/

/-- the regenerated 1.15.0 bulk statement has fifteen tuples, the Track INSERT of 1.6.0 fourteen columns and
that of 1.18.0 eighteen -/
example :
    ((forS Gen.BindingsV1.metaBulk .s1_15_0).map List.length, (forS Gen.BindingsV1.trackInsert .s1_6_0).map List.length,
     (forS Gen.BindingsV1.trackInsert .s1_18_0_os).map List.length) = (some 15, some 14, some 18) := by decide

/-- composer / genre transposed in the bulk statement: the resolved table is no longer the hand model's -/
def swapGenreComposer (rows : List (Opnd × Opnd × Opnd)) : List (Opnd × Opnd × Opnd) :=
  rows.map fun r =>
    match r.2.2 with
    | .param 4 n => (r.1, r.2.1, .param 7 n)
    | .param 7 n => (r.1, r.2.1, .param 4 n)
    | _ => r

example :
    ((forS Gen.BindingsV1.metaBulk .s1_15_0).bind fun rows =>
        bulkResolved Gen.BindingsV1.createTrackMetaArgs Gen.BindingsV1.createTrackLocals (swapGenreComposer rows))
      ≠ some (bulkStr .s1_15_0) := by decide

/-- two rows that agree on MetaData row 3 only: `album()` answers the same, as `v1_model_getters_read_only` says -/
example (o : Fl.FOps) :
    locEqAll ⟨TrackRow.blank, [(3, some [65]), (1, some [66])], [], none⟩
             ⟨TrackRow.blank, [(1, none), (3, some [65])], [(5, some 3)], none⟩ (fieldReadsH .album) :=
  ⟨(by decide : aget 3 [(3, some [65]), (1, some [66])] = aget 3 [((1 : Int), (none : Option Bytes)), (3, some [65])]), trivial⟩

end EngineModel.Properties.C01V1Bindings
